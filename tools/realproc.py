#!/venv/bin/python
"""A REAL python process defining the classes of <dir>/<mod>.py against whatever cache <dir>/__pkts__ holds.
Used by the fidelity cross-check of cachesim: what this prints must equal what the simulator predicts for a
fresh simulated process started on the same directory state.
usage: realproc.py <tree with bisturi> <project dir> <module name> <bytecode 0|1>"""
import sys, os, json, hashlib, types, traceback
tree, pdir, modname, bytecode = sys.argv[1], sys.argv[2], sys.argv[3], sys.argv[4] == "1"
sys.dont_write_bytecode = True          # for the harness modules
sys.path.insert(0, os.path.dirname(os.path.dirname(os.path.abspath(__file__))))
from bsim.cachesim import behave, code_sig
sys.path.insert(0, tree)
import bisturi.packet
assert bisturi.__file__.startswith(tree)
sys.dont_write_bytecode = not bytecode  # for the process under observation
os.chdir(pdir)
path = os.path.join(pdir, modname + ".py")
mod = types.ModuleType(modname)
mod.__file__ = path
sys.modules[modname] = mod
err = None
try:
    exec(compile(open(path).read(), path, "exec", dont_inherit=True), mod.__dict__)
except BaseException as e:
    err = type(e).__name__
out = {"define_error": err, "classes": []}
PE, Packet = bisturi.packet.PacketError, bisturi.packet.Packet
for cls in mod.__dict__.get("CLASSES", []):
    h = lambda x: hashlib.sha256(repr(x).encode()).hexdigest()[:16]
    out["classes"].append([h(behave(cls, PE)), h(code_sig(cls.pack_impl, Packet.pack_impl)), h(code_sig(cls.unpack_impl, Packet.unpack_impl))])
print("REALPROC " + json.dumps(out))
