#!/venv/bin/python
"""Minimal stand-in for `byexample` (not installed): runs the >>> examples of bisturi's markdown docs
from a real .py file (bisturi needs inspect.getsource of the classes it defines) and reports the
examples whose output differs.  Used only to compare a fix: commit against the documentation.
usage: docrun.py <repo> [files...]   -> prints 'file: failed/attempted' and the failing examples with -v"""
import doctest, glob, os, sys, shutil, subprocess, tempfile, json

def translate(md, out_py):
    text = open(md).read()
    exs = doctest.DocTestParser().get_examples(text)
    lines = ["import doctest, sys, traceback", "_chk = doctest.OutputChecker()", "_fails = []; _n = [0]",
             "_FL = doctest.ELLIPSIS | doctest.NORMALIZE_WHITESPACE",
             "def _cmp(i, got, want):",
             "    _n[0] += 1",
             "    want = want.replace('<...>', '...')",
             "    if not _chk.check_output(want, got, _FL): _fails.append((i, want, got))"]
    for i, ex in enumerate(exs):
        src = ex.source.rstrip("\n")
        want = "".join(l for l in ex.want.splitlines(True) if not l.strip().startswith("```"))
        is_expr = False
        try:
            compile(src, "<x>", "eval"); is_expr = True
        except SyntaxError:
            pass
        if "Traceback (most recent call last)" in want or ("Error:" in want and not is_expr):
            exc_line = want.strip().splitlines()[-1]
            lines.append("try:")
            lines += ["    " + l for l in src.splitlines()]
            lines.append("    _cmp(%d, 'no exception', %r)" % (i, want))
            lines.append("except Exception as _e:")
            lines.append("    _cmp(%d, type(_e).__name__ + ': ' + str(_e).split(chr(10))[0] + chr(10), %r)" % (i, exc_line.split(':')[0] + ": ...\n" if ':' in exc_line else exc_line + "\n"))
        elif is_expr:
            lines.append("try:")
            lines.append("    _v = (\n%s\n    )" % src)
            lines.append("    _cmp(%d, '' if _v is None else repr(_v) + chr(10), %r)" % (i, want))
            lines.append("except Exception as _e:")
            lines.append("    _cmp(%d, 'EXC ' + repr(_e), %r)" % (i, want))
        else:
            lines += src.splitlines()
    lines.append("import json; print('DOCRUN ' + json.dumps({'failed': len(_fails), 'attempted': _n[0], 'fails': _fails[:50]}))")
    open(out_py, "w").write("\n".join(lines) + "\n")

def main():
    repo = sys.argv[1]
    verbose = "-v" in sys.argv
    files = [a for a in sys.argv[2:] if a != "-v"] or sorted(glob.glob(os.path.join(repo, "docs/reference/*.md"))) + [os.path.join(repo, "README.md")]
    tmp = tempfile.mkdtemp(prefix="docrun-", dir="/dev/shm" if os.path.isdir("/dev/shm") else None)
    res = {}
    try:
        for f in files:
            name = "doc_" + os.path.basename(f).replace(".", "_").replace("-", "_")
            py = os.path.join(tmp, name + ".py")
            translate(f, py)
            r = subprocess.run([sys.executable, py], capture_output=True, text=True, cwd=repo,
                               env=dict(os.environ, PYTHONPATH=repo, PYTHONDONTWRITEBYTECODE="1"))
            line = [l for l in r.stdout.splitlines() if l.startswith("DOCRUN ")]
            if not line:
                res[os.path.basename(f)] = "CRASH: " + (r.stderr.strip().splitlines() or ["?"])[-1][:200]
                continue
            d = json.loads(line[-1][7:])
            res[os.path.basename(f)] = "%d/%d" % (d["failed"], d["attempted"])
            if verbose:
                for i, want, got in d["fails"]:
                    print("  %s #%d want=%r got=%r" % (os.path.basename(f), i, want[:100], got[:100]))
    finally:
        shutil.rmtree(tmp, ignore_errors=True)
    for k in sorted(res):
        print("%-40s %s" % (k, res[k]))

main()
