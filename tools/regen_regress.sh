#!/bin/bash
# Regenerates /verif/regress/<finding>/ : for every fixed finding, re-create the pre-fix tree from the reverse
# patch of its fix: commit (in scratch), run the property's quick check against it and keep the minimised replays.
# Needed whenever a generator's draw layout changes (a draw list is only meaningful for the generator that made it).
set -e
cd /verif
S=/dev/shm/regen-$$
for spec in "F5 C11 revert-F5" "F3 C13 revert-F3" "F2 C13 revert-F2" "F7 C15 revert-F4" "F4 C16 revert-F4"; do
  set -- $spec
  rm -rf $S; mkdir -p $S; cp -r /repo/bisturi $S/bisturi; rm -rf $S/bisturi/__pycache__
  (cd $S && patch -p1 -s -i /verif/bsim/mutant_patches/$3.diff)
  rm -rf regress/$1; mkdir -p regress/$1
  BSIM_REPO=$S BSIM_NO_EVIDENCE=1 BSIM_REPLAY_DIR=/verif/regress/$1 ./check $2 > $S/out.txt 2>&1 || true
  grep -E "^VIOLATION" $S/out.txt | head -3 || echo "no violation for $1?!"
  rm -rf $S
done
# F8 needs the focused scenario family (colliding process identities, same-size declarations)
rm -rf $S; mkdir -p $S; cp -r /repo/bisturi $S/bisturi; rm -rf $S/bisturi/__pycache__
(cd $S && patch -p1 -s -i /verif/bsim/mutant_patches/revert-F8.diff)
rm -rf regress/F8; mkdir -p regress/F8
BSIM_REPO=$S BSIM_NO_EVIDENCE=1 BSIM_REPLAY_DIR=/verif/regress/F8 ./check C16 --focus colliding-writers --runs 60000 > $S/out.txt 2>&1 || true
grep -E "^VIOLATION" $S/out.txt | head -3 || echo "no violation for F8?!"
rm -rf $S
./check regress
