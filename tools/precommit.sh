#!/bin/bash
# Run before every commit in /verif: all five quick checks must exit 0 on /repo as it is, MANIFEST and evidence must validate.
cd /verif
fail=0
for p in C11 C13 C15 C16 C17; do
  timeout 3000 ./check $p > /dev/shm/pc_$p.txt 2>&1; rc=$?
  echo "$p exit=$rc $(grep -E '^(OK|VIOLATION|HARNESS)' /dev/shm/pc_$p.txt | head -1 | cut -c1-120)"
  [ $rc -ne 0 ] && fail=1
done
python3-vt - <<'PY' || fail=1
import json, jsonschema
jsonschema.validate(json.load(open('/verif/MANIFEST.json')), json.load(open('/root/.vp/MANIFEST.schema.json')))
for p in ['C11','C13','C15','C16','C17']:
    jsonschema.validate(json.load(open('/verif/evidence/%s.json' % p)), json.load(open('/root/.vp/EVIDENCE.schema.json')))
ids = {json.loads(l)['id'] for l in open('/verif/properties.jsonl')}
m = json.load(open('/verif/MANIFEST.json'))
claimed = {c['property_id'] for c in m['checks']}; na = {n['property_id'] for n in m['not_applicable']}
assert claimed | na == ids and not (claimed & na), (claimed, na)
print('manifest + evidence valid; %d claimed, %d not applicable' % (len(claimed), len(na)))
PY
(cd /repo && git status --short | grep -v '^??' | head -3)
exit $fail
