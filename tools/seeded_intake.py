#!/venv/bin/python
"""Confirm a seeded breaking change delivered in a scratch worktree and file it under /verif/seeded/<id>/.
usage: seeded_intake.py <worktree> <id> <property> [--tier quick|thorough] [--no-check]
Confirms: 40 tests pass with the change; demo.py exits 1 with the change and 0 without (git stash); then runs
the property's check against the worktree (BSIM_REPO) and records the verdict in meta.json."""
import json, os, re, shutil, subprocess, sys, time

wt, sid, prop = sys.argv[1], sys.argv[2], sys.argv[3]
tier = sys.argv[sys.argv.index("--tier") + 1] if "--tier" in sys.argv else "quick"
PY = "/venv/bin/python"
env = dict(os.environ, PYTHONDONTWRITEBYTECODE="1")

def run(cmd, **kw):
    r = subprocess.run(cmd, capture_output=True, text=True, env=kw.pop("env", env), **kw)
    return r.returncode, (r.stdout + r.stderr)

def clean():
    for d in ("tests/__pkts__", "__pkts__"):
        shutil.rmtree(os.path.join(wt, d), ignore_errors=True)

clean()
rc, out = run([PY, "-m", "pytest", "-q", "-p", "no:cacheprovider", "tests"], cwd=wt)
tests_line = [l for l in out.splitlines() if " passed" in l or " failed" in l][-1:] or ["?"]
rc2, out2 = run([PY, "-m", "pytest", "-q", "-p", "no:cacheprovider", "tests"], cwd=wt)   # second run on a warm cache
tests_ok = rc == 0 and rc2 == 0 and "40 passed" in tests_line[0]
clean()
d1, o1 = run([PY, "demo.py"], cwd=wt)
# the stash is shared between worktrees: set the change aside with diff / checkout / apply instead
diff = subprocess.run(["git", "-C", wt, "diff", "--", "bisturi"], capture_output=True, text=True).stdout
saved = os.path.join(wt, ".seeded-intake.diff")
open(saved, "w").write(diff)
run(["git", "checkout", "--", "bisturi"], cwd=wt)
clean()
d0, o0 = run([PY, "demo.py"], cwd=wt)
rc_apply, out_apply = run(["git", "apply", saved], cwd=wt)
os.remove(saved)
assert rc_apply == 0, out_apply
clean()
print("tests with change: %s (rc %d, second run rc %d)" % (tests_line[0].strip(), rc, rc2))
print("demo with change: exit %d; without: exit %d" % (d1, d0))
confirmed = tests_ok and d1 != 0 and d0 == 0 and bool(diff.strip())
dst = os.path.join("/verif/seeded", sid)
meta = {"id": sid, "property": prop, "confirmed": confirmed, "tests_with_change": tests_line[0].strip(),
        "demo_exit_with_change": d1, "demo_exit_without_change": d0,
        "demo_output_with_change": o1[-600:], "changed_lines": len([l for l in diff.splitlines() if l[:1] in "+-" and l[:3] not in ("+++", "---")]),
        "what_i_ran": ["cd <worktree> && /venv/bin/python -m pytest -q -p no:cacheprovider tests (twice: cold and warm cache)",
                       "cd <worktree> && /venv/bin/python demo.py  (with the change, then with bisturi/ checked out clean, then the change re-applied)",
                       "BSIM_REPO=<worktree> ./check %s --tier %s" % (prop, tier)]}
notes = os.path.join(wt, "NOTES.md")
if os.path.exists(notes):
    meta["needs_to_manifest"] = open(notes).read()[:3000]
if not confirmed:
    print("NOT CONFIRMED - not filed")
    print(o1[-800:], o0[-800:])
    sys.exit(3)
os.makedirs(dst, exist_ok=True)
open(os.path.join(dst, "patch.diff"), "w").write(diff)
for fn in ("demo.py", "NOTES.md"):
    if os.path.exists(os.path.join(wt, fn)):
        shutil.copy(os.path.join(wt, fn), os.path.join(dst, fn))
if "--no-check" not in sys.argv:
    t0 = time.time()
    rcc, outc = run(["/verif/check", prop, "--tier", tier], env=dict(os.environ, BSIM_REPO=wt, BSIM_NO_EVIDENCE="1"), cwd="/verif")
    oracle = [l.strip() for l in outc.splitlines() if l.strip().startswith("oracle=")]
    meta["check"] = {"tier": tier, "exit": rcc, "caught": rcc == 1, "seconds": round(time.time() - t0, 1), "first_violation": (oracle[0][:400] if oracle else None),
                     "tail": outc[-300:] if rcc != 1 else None}
    print("check %s --tier %s against the change: exit %d %s" % (prop, tier, rcc, oracle[0][:200] if oracle else ""))
clean()
json.dump(meta, open(os.path.join(dst, "meta.json"), "w"), indent=1)
print("filed under", dst)
