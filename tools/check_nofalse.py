#!/venv/bin/python
"""Behaviour-preserving rewrites (/verif/nofalse/<id>/patch.diff + meta.json {"properties": [...], "what": ...}) written by
sub-agents playing a careful maintainer: every listed check must stay at exit 0 on a scratch copy of /repo with the
rewrite applied.  usage: check_nofalse.py [id-prefix ...] [--tier quick|thorough]"""
import json, os, shutil, subprocess, sys, time
tier = sys.argv[sys.argv.index("--tier") + 1] if "--tier" in sys.argv else "quick"
want = [a for a in sys.argv[1:] if not a.startswith("--") and a not in ("quick", "thorough")]
base = "/verif/nofalse"
S = "/dev/shm/nofalse-%07d" % os.getpid()
bad = 0
for nid in sorted(os.listdir(base)):
    d = os.path.join(base, nid)
    if not os.path.isdir(d) or (want and not any(nid.startswith(w) for w in want)):
        continue
    meta = json.load(open(os.path.join(d, "meta.json")))
    shutil.rmtree(S, ignore_errors=True)
    os.makedirs(S)
    shutil.copytree("/repo/bisturi", os.path.join(S, "bisturi"), ignore=shutil.ignore_patterns("__pycache__", "__pkts__"))
    shutil.copytree("/repo/tests", os.path.join(S, "tests"), ignore=shutil.ignore_patterns("__pycache__", "__pkts__"))
    r = subprocess.run(["patch", "-p1", "-s", "-i", os.path.join(d, "patch.diff")], cwd=S, capture_output=True, text=True)
    if r.returncode != 0:
        print("%-46s PATCH DOES NOT APPLY: %s" % (nid, r.stdout[-200:]))
        bad += 1
        continue
    t = subprocess.run(["/venv/bin/python", "-m", "pytest", "-q", "-p", "no:cacheprovider", "tests"], cwd=S, capture_output=True, text=True,
                       env=dict(os.environ, PYTHONDONTWRITEBYTECODE="1"))
    tests = (t.stdout.strip().splitlines() or ["?"])[-1][:40]
    res = {}
    for prop in meta["properties"]:
        t0 = time.time()
        r = subprocess.run(["/verif/check", prop, "--tier", tier], capture_output=True, text=True, cwd="/verif",
                           env=dict(os.environ, BSIM_REPO=S, BSIM_NO_EVIDENCE="1"))
        line = [l.strip() for l in r.stdout.splitlines() if l.strip().startswith(("oracle=", "HARNESS-ERROR"))]
        res[prop] = {"exit": r.returncode, "seconds": round(time.time() - t0, 1), "first": line[0][:300] if line else None}
        bad += r.returncode != 0
    meta["check"] = {"tier": tier, "tests": tests, "results": res}
    json.dump(meta, open(os.path.join(d, "meta.json"), "w"), indent=1)
    print("%-46s tests[%s] %s" % (nid, tests, " ".join("%s=%d" % (p, v["exit"]) for p, v in res.items())), flush=True)
    for p, v in res.items():
        if v["exit"] != 0:
            print("     %s: %s" % (p, v["first"]))
shutil.rmtree(S, ignore_errors=True)
print("nofalse: %d unexpected" % bad)
sys.exit(1 if bad else 0)
