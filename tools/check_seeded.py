#!/venv/bin/python
"""Runs the quick (or --tier thorough) check of each seeded change's property against a scratch copy of /repo with
that change applied (BSIM_REPO), and updates meta.json["check"].  /repo itself is never touched.
usage: check_seeded.py [id-prefix ...] [--tier quick|thorough]"""
import json, os, shutil, subprocess, sys, time
tier = sys.argv[sys.argv.index("--tier") + 1] if "--tier" in sys.argv else "quick"
runs = sys.argv[sys.argv.index("--runs") + 1] if "--runs" in sys.argv else None
want = [a for a in sys.argv[1:] if not a.startswith("--") and a not in ("quick", "thorough") and a != runs]
base = "/verif/seeded"
S = "/dev/shm/seeded-%07d" % os.getpid()
bad = 0
for sid in sorted(os.listdir(base)):
    if want and not any(sid.startswith(w) for w in want):
        continue
    d = os.path.join(base, sid)
    meta = json.load(open(os.path.join(d, "meta.json")))
    shutil.rmtree(S, ignore_errors=True)
    os.makedirs(S)
    shutil.copytree("/repo/bisturi", os.path.join(S, "bisturi"), ignore=shutil.ignore_patterns("__pycache__", "__pkts__"))
    r = subprocess.run(["patch", "-p1", "-s", "--dry-run", "-i", os.path.join(d, "patch.diff")], cwd=S, capture_output=True, text=True)
    applied_to = "working tree of /repo"
    if (r.returncode != 0 or meta.get("force_base")) and meta.get("base_commit"):
        # written against an older commit and overtaken by a later fix: use that commit's tree
        shutil.rmtree(os.path.join(S, "bisturi"))
        tar = subprocess.run(["git", "-C", "/repo", "archive", meta["base_commit"], "bisturi"], capture_output=True).stdout
        subprocess.run(["tar", "-x", "-C", S], input=tar)
        applied_to = "tree of commit " + meta["base_commit"]
    r = subprocess.run(["patch", "-p1", "-s", "-i", os.path.join(d, "patch.diff")], cwd=S, capture_output=True, text=True)
    meta["applied_to"] = applied_to
    if r.returncode != 0:
        print("%-55s PATCH DOES NOT APPLY: %s" % (sid, r.stdout[-200:]))
        bad += 1
        continue
    t0 = time.time()
    r = subprocess.run(["/verif/check", meta["property"], "--tier", tier] + (["--runs", runs] if runs else []), capture_output=True, text=True, cwd="/verif",
                       env=dict(os.environ, BSIM_REPO=S, BSIM_NO_EVIDENCE="1"))
    oracle = [l.strip() for l in r.stdout.splitlines() if l.strip().startswith("oracle=")]
    meta["check"] = {"tier": tier, "exit": r.returncode, "caught": r.returncode == 1, "seconds": round(time.time() - t0, 1),
                     "first_violation": oracle[0][:400] if oracle else None, "tail": r.stdout[-300:] if r.returncode != 1 else None}
    if not runs and not os.environ.get("VERIF_SEED"):
        json.dump(meta, open(os.path.join(d, "meta.json"), "w"), indent=1)
    found_at = [l for l in r.stdout.splitlines() if l.startswith("VIOLATION")]
    print("%-55s %s exit=%d %5.1fs %s" % (sid, meta["property"], r.returncode, time.time() - t0, (found_at[0].split("replay=")[-1].split("/")[-1] if found_at else "") + " " + (oracle[0][:90] if oracle else "")), flush=True)
    bad += r.returncode != 1
shutil.rmtree(S, ignore_errors=True)
print("seeded: %d not caught" % bad)
sys.exit(1 if bad else 0)
