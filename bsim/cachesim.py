"""cachesim - the generated-code cache under simulated processes, storage clock and faults.

C15 (engine cachesim-seq):  histories of DEFINE / EDIT / TICK / JANITOR, one process at a time.
C16 (engine cachesim-conc): a drawn prior state, then 2-3 processes defining concurrently with every
                            file-system call a yield point and a possible crash point (torn writes),
                            then 1-2 later, fault-free processes.

Oracles (per class a process defined, against the clean twin = the same defining module executed by
a pristine process on an empty cache):
  O1 the definition did not raise
  O2 every probe (unpack of 24 byte strings, pack of 8 value tuples) has the twin's outcome
  O3 the installed pack_impl/unpack_impl carry the twin's code (or are the generic Packet methods)
"""
import errno
import os
import sys
import threading
import types
import linecache
import traceback
import shutil
import random as _random

from .chooser import digest
from .engines import Engine, register
from .runner import Outcome, import_fresh_bisturi
from . import project
from .fsseam import SEAM, SimCrash, REAL, REAL_IO_OPEN

WATCHDOG_S = 30.0
MAX_CALLS_PER_PROCESS = 2500        # an undisturbed definition of three classes makes ~150 file-system calls


def io_errnos_for(kind):
    """the errors a call of this kind can meet on a real system while everything else keeps working"""
    E = errno
    if kind == "write":
        return [E.ENOSPC, E.EIO, E.EDQUOT]
    if kind.startswith("open"):
        return [E.ENOSPC, E.EACCES, E.EMFILE, E.EROFS] if ("creat" in kind or "trunc" in kind) else [E.EMFILE, E.EACCES, E.EIO]
    if kind in ("read", "read-file", "fsync", "ftruncate", "truncate"):
        return [E.EIO]
    if kind in ("remove", "rmdir", "chmod", "utime"):
        return [E.EACCES, E.EROFS]
    if kind in ("replace", "rename", "link"):
        return [E.EACCES, E.ENOSPC, E.EIO]
    if kind in ("mkdir", "makedirs"):
        return [E.EACCES, E.ENOSPC]
    if kind in ("stat", "lstat", "listdir"):
        return [E.EACCES, E.EIO]
    if kind in ("lock-ex", "lock-sh"):
        return [E.ENOLCK]
    return []            # start, close, unlock, sleep, access


class NeverFinished(BaseException):
    """raised inside a simulated process whose definition does not come to an end (a wait that nothing will ever satisfy)"""

# ---------------------------------------------------------------------------------------
# the same-named family (class Foo in defs.py); see DESIGN.md appendix C
# ---------------------------------------------------------------------------------------
VARIANTS = [
    ("v1", "", "    a = Int(1)\n    b = Int(2)\n"),
    ("v2", "", "    a = Int(2)\n    b = Int(1)\n"),
    ("v3", "", "    b = Int(1)\n    a = Int(2)\n"),
    ("v4", "'endianness': 'little'", "    a = Int(1)\n    b = Int(2)\n"),
    ("v5", "", "    a = Int(1, signed=True)\n    b = Int(2, signed=True)\n"),
    ("v6", "'vectorize': False", "    a = Int(1)\n    b = Int(2)\n"),
    ("v7", "'annotate': False", "    a = Int(1)\n    b = Int(2)\n"),
    ("v8", "'generate_for_pack': False", "    a = Int(1)\n    b = Int(2)\n"),
    ("v9", "'generate_for_unpack': False", "    a = Int(1)\n    b = Int(2)\n"),
    ("v10", "'generate_for_pack': False, 'generate_for_unpack': False", "    a = Int(1)\n    b = Int(2)\n"),
    ("v11", "", "    n = Int(1)\n    d = Data(n)\n"),
    ("v12", "", "    x = Bits(4)\n    y = Bits(12)\n    a = Int(1)\n"),
    ("v13", "", "    length = Int(1).describe(AutoLength('d'))\n    d = Data(length)\n"),
    ("v14", "", "    a = Int(3)\n    b = Int(3)\n"),
    # user-written descriptors: identical field code, they differ only in the descriptor-sync lines of the generated code
    ("v15", "", "    c = Int(1).describe(PlainDesc())\n    b = Int(2)\n"),
    ("v16", "", "    c = Int(1).describe(PackDesc())\n    b = Int(2)\n"),
    ("v17", "", "    c = Int(1).describe(BothDesc())\n    b = Int(2)\n"),
    # declarations that differ only in a parameter that (on the pinned tree) lives in a field object of the class, not
    # in the generated text: whatever an implementation moves into the cached module must be covered by its validation
    ("v18", "'align': 2", "    a = Int(1)\n    b = Int(2)\n"),
    ("v19", "'align': 4", "    a = Int(1)\n    b = Int(2)\n"),
    ("v20", "'align': 8", "    a = Int(1)\n    b = Int(2)\n"),
    ("v21", "", "    a = Int(1)\n    b = Int(2).at(4)\n"),
    ("v22", "", "    a = Int(1)\n    b = Int(2).at(6)\n"),
    ("v23", "", "    a = Int(1)\n    b = Int(1).repeated(2)\n"),
    ("v24", "", "    a = Int(1)\n    b = Int(1).repeated(3)\n"),
    ("v25", "", "    a = Int(1)\n    b = Int(2).when(a == 1)\n"),
    ("v26", "", "    a = Int(1)\n    b = Int(2).when(a == 2)\n"),
    ("v27", "", "    d = Data(until_marker=b';')\n    b = Int(1)\n"),
    ("v28", "", "    d = Data(until_marker=b',')\n    b = Int(1)\n"),
    ("v29", "", "    a = Int(1, default=7)\n    b = Int(2)\n"),
    ("v30", "", "    a = Int(1, default=9)\n    b = Int(2)\n"),
    ("v31", "", "    a = Int(1)\n    b = Int(2).aligned(4)\n"),
    ("v32", "", "    a = Int(1)\n    b = Int(2).aligned(8)\n"),
    # generated texts that are permutations of one another, the differences mirrored around the middle: equal length, equal
    # byte multiset, equal position-weighted sums - what a checksum weaker than a cryptographic hash cannot tell apart
    ("v33", "", "    a = Int(2)\n    b = Int(4)\n    c = Int(4)\n    d = Int(2)\n"),
    ("v34", "", "    a = Int(4)\n    b = Int(2)\n    c = Int(2)\n    d = Int(4)\n"),
    ("v35", "", "    a = Int(1)\n    b = Int(8)\n    c = Int(8)\n    d = Int(1)\n"),
    ("v36", "", "    a = Int(8)\n    b = Int(1)\n    c = Int(1)\n    d = Int(8)\n"),
]
MIRRORED = ["v33", "v34", "v35", "v36"]
PARAMS = ["v%d" % i for i in range(18, 33)]
# groups whose members must differ in what the probes observe (checked by `check selftest` on the unchanged tree)
MUST_DIFFER = [["v1", "v2", "v3", "v4", "v5", "v11", "v12", "v13", "v14"], ["v15", "v16", "v17"], ["v18", "v19", "v20"], ["v21", "v22"],
               ["v23", "v24"], ["v25", "v26"], ["v27", "v28"], ["v29", "v30"], ["v31", "v32"], ["v1", "v18", "v21", "v23", "v25", "v29"],
               ["v33", "v34", "v35", "v36"]]
VNAMES = [v[0] for v in VARIANTS]
VBY = {v[0]: v for v in VARIANTS}

DEFS_HEADER = ("from bisturi.packet import Packet\nfrom bisturi.field import Int, Data, Bits, Ref\n"
               "from bisturi.descriptor import AutoLength\nCLASSES = []\n"
               "class PlainDesc:\n"
               "    def __get__(self, inst, owner):\n        return self if inst is None else getattr(inst, self.real_field_name)\n"
               "    def __set__(self, inst, val):\n        setattr(inst, self.real_field_name, val)\n"
               "class PackDesc(PlainDesc):\n"
               "    def sync_before_pack(self, inst):\n        setattr(inst, self.real_field_name, (getattr(inst, self.real_field_name) | 0x80) & 0xff)\n"
               "class BothDesc(PackDesc):\n"
               "    def sync_after_unpack(self, inst):\n        setattr(inst, self.real_field_name, getattr(inst, self.real_field_name) ^ 1)\n")


def class_text(clsname, vname):
    _, opts, body = VBY[vname]
    return "\nclass %s(Packet):\n    __bisturi__ = {%s}\n%s\nCLASSES.append(%s)\n" % (clsname, opts, body, clsname)


def defs_text(spec):
    """spec: list of (class name, variant name)"""
    return DEFS_HEADER + "".join(class_text(c, v) for c, v in spec)


PROBE_RAWS = [b"", b"\x00", b"\x01", b"\xff", b"\x01\x02", b"\x80\x00", b"\x01\x02\x03", b"\x00\x01\x00", b"\xff\xfe\xfd",
              b"\x80\x81\x82", b"\x02ab", b"\x03ab", b"\x01\x02\x03\x04", b"\x00\x00\x00\x00", b"\xf0\x0f\xaa\x55",
              b"\x04abcd", b"\x02abcd", b"\x01\x02\x03\x04\x05", b"\x05abcde", b"\x01\x02\x03\x04\x05\x06",
              b"\xff\xff\xff\xff\xff\xff", b"\x80\x00\x00\x80\x00\x01", b"\x06abcdef", b"\x7f\x80\x7f\x80\x7f\x80",
              b"ab;cd,e", b"a,b;c", b"\x01\x02\x03\x04\x05\x06\x07\x08", b"\x02.......\x11\x12", b"\x01...\x21\x22..\x31\x32",
              bytes(range(1, 13)), bytes(range(1, 19)), bytes(range(0x81, 0x95))]
PROBE_VALS = [(0, 0), (1, 2), (255, 255), (127, 128), (-1, -1), (256, 1), (1, 65535), (65535, 70000)]


# ---------------------------------------------------------------------------------------
# observing a class
# ---------------------------------------------------------------------------------------
def _visible(pkt):
    return project.visible_fields(pkt)


def behave(cls, PacketError):
    """(probe, outcome) pairs, through the public API only"""
    out = []
    for raw in PROBE_RAWS:
        try:
            p = cls.unpack(raw)
            vals = tuple((n, getattr(p, n)) for n in _visible(p))
            try:
                again = p.pack()
            except PacketError:
                again = "PacketError"
            out.append(("unpack(%r)" % raw, ("ok", vals, again)))
        except PacketError:
            out.append(("unpack(%r)" % raw, "PacketError"))
        except Exception as e:
            out.append(("unpack(%r)" % raw, "raised %s" % type(e).__name__))
    try:
        p0 = cls()
        names = _visible(p0)
        vals0 = tuple((n, getattr(p0, n)) for n in names)
        try:
            out.append(("ctor", (vals0, p0.pack())))
        except PacketError:
            out.append(("ctor", (vals0, "PacketError")))
    except Exception as e:
        names = []
        out.append(("ctor", "raised %s" % type(e).__name__))
    for vals in PROBE_VALS:
        label = "pack%r" % (vals,)
        try:
            p = cls()
            for n, v in zip(names, vals):
                cur = getattr(p, n)
                if isinstance(cur, bytes):
                    v = b"x" * (abs(v) % 5)
                elif isinstance(cur, list):
                    v = [abs(v) % 256] * max(1, len(cur))
                setattr(p, n, v)
            out.append((label, p.pack()))
        except PacketError:
            out.append((label, "PacketError"))
        except Exception as e:
            out.append((label, "raised %s" % type(e).__name__))
    return tuple(out)


def code_sig(fn, generic):
    """identity of the code a class runs: bytecode, constants, names - not file name, not line numbers"""
    if fn is None:
        return "no-such-attribute"       # an implementation that names things differently: code identity is not judged
    f = getattr(fn, "__func__", fn)
    if f is getattr(generic, "__func__", generic):
        return "GENERIC"
    co = getattr(f, "__code__", None)
    if co is None:
        return "not-a-function:%s" % type(f).__name__
    return _co_sig(co)


_SCRATCH_PATH = None


def _norm_const(c):
    """a constant that mentions the scratch project directory (an implementation may well put the path of the
    defining file into its generated code) must not make the twin, which lives in another directory, look different"""
    global _SCRATCH_PATH
    if isinstance(c, (str, bytes)):
        if _SCRATCH_PATH is None:
            import re
            _SCRATCH_PATH = re.compile(r"[^'\"\s]*/bsim-\d{7}/w[^/]{7}/[^'\"\s]+")
        if isinstance(c, str):
            return _SCRATCH_PATH.sub("<ROOT>", c)
        return _SCRATCH_PATH.sub("<ROOT>", c.decode("latin-1")).encode("latin-1")
    if isinstance(c, tuple):
        return tuple(_norm_const(x) for x in c)
    return c


def _co_sig(co):
    consts = tuple(_co_sig(c) if isinstance(c, types.CodeType) else (type(c).__name__, _norm_const(c)) for c in co.co_consts)
    return (co.co_code, consts, co.co_names, co.co_varnames, co.co_argcount)


# ---------------------------------------------------------------------------------------
# simulated processes
# ---------------------------------------------------------------------------------------
class SimProc:
    def __init__(self, world, idx, label, bytecode):
        self.world = world
        self.label = label
        self.pid = 4000 + idx
        self.cwd = world.root
        self.dont_write_bytecode = not bytecode
        self.modules = {}
        self.linecache = {}
        self.go = threading.Semaphore(0)
        self.dead = False
        self.done = False
        self.pending = ("start", "")
        self.error = None            # harness failure
        self.classes = []            # [(defs spec index, class object)]
        self.define_errors = []      # (which definition run, exception summary)
        self.thread = None
        self.program = None
        self.bisturi = None
        self.defs_mods = {}
        self.opcount = 0
        self.calls = 0
        self.mid_write = False
        self.inject = None            # errno the next file-system call of this process fails with (decided by the scheduler)
        self.io_errors = 0            # how many of its calls failed that way
        self.rstate = None            # state of the `random` module as this process sees it
        self.optimize = 0             # 1: this process runs as `python -O` (bisturi's asserts are compiled out)
        self.fileless = False         # the defining module has no __file__ (interactive session, exec'd code): bisturi then
                                      # falls back to ./__main__.py, i.e. a cache in the current directory keyed by class name only


def _is_owned(name):
    """module names that belong to one simulated process: bisturi, the defining modules, the generated modules
    (defs_<Class>, and __main___<Class> for defining modules without a file)"""
    return name == "bisturi" or name.startswith("bisturi.") or name.startswith("defs") or name.startswith("__main___")


class World:
    """one scratch project + its processes + the seam scheduler"""

    def __init__(self, eng, ch, out, root, concurrent):
        self.eng, self.ch, self.out = eng, ch, out
        self.root = root
        self.concurrent = concurrent
        self.back = threading.Semaphore(0)
        self.procs = []
        self.current = None
        self.deaths = 0
        self.max_deaths = 0
        self.crash_den = 0            # 0: no crashes in this run; else chance 1/crash_den per seam call
        self.ioerr_den = 0            # 0: no failing calls in this run; else chance 1/ioerr_den per eligible seam call
        self.ioerrs = 0
        self.max_ioerrs = 0
        self.clock_faults = True
        self.timed_out = False
        self.splits = 0
        self.steps = 0
        self.t0 = 1700000000.0
        self.same_random_seed = False
        self.same_pid = False
        self.edit_plan = None         # (scheduling step, new declaration list): defs.py is rewritten while processes run
        self.kill_target = None       # label of the process to kill deterministically (crash-point enumeration)
        self.kill_at = None           # (k, j): die before its k-th seam call; j > 0: call k is a write, j bytes of it reach the file first
        self.oplog = None             # when a list: (label, kind, rel, info) of every seam call
        SEAM.install()
        SEAM.reset(root, self, out.events, out.stats, clock=self.t0)

    # ---- module table / interpreter state of a process -----------------------------------
    def swap_in(self, proc):
        assert SEAM.current is None
        for k in [k for k in sys.modules if _is_owned(k)]:
            del sys.modules[k]
        sys.modules.update(proc.modules)
        proc.modules = {}
        self._saved = (sys.dont_write_bytecode, linecache.cache, _random.getstate())
        sys.dont_write_bytecode = proc.dont_write_bytecode
        linecache.cache = proc.linecache
        if proc.rstate is None:
            proc.rstate = _random.Random(self.random_seed_of(proc)).getstate()
        _random.setstate(proc.rstate)
        SEAM.current = proc
        self.current = proc

    def swap_out(self, proc):
        assert SEAM.current is proc
        SEAM.current = None
        self.current = None
        proc.modules = {k: sys.modules.pop(k) for k in [k for k in sys.modules if _is_owned(k)]}
        proc.rstate = _random.getstate()
        sys.dont_write_bytecode, linecache.cache, rs = self._saved
        _random.setstate(rs)

    def random_seed_of(self, proc):
        """every simulated process has its own `random` state (the seam for randomness); normally each is
        seeded differently, as os.urandom would; with same_random_seed all of them start from one state
        (what random.seed(<constant>) in a conftest does)"""
        return 777 if self.same_random_seed else 1000 + proc.pid * 31 + len(self.procs)

    # ---- called by the seam (in the process thread) --------------------------------------
    def clock_delta(self):
        k = self.ch.weighted("clock", [60, 8, 1, 1, 1] if self.clock_faults else [1], stream="clock")
        st = self.out.stats
        if k == 0:
            return 0.002
        if k == 1:
            st["fault:clock-tie"] += 1
            return 0.0
        if k == 2:
            st["fault:clock-step"] += 1
            return 1.0
        if k == 3:
            st["fault:clock-step"] += 1
            return 2.5
        st["fault:clock-backwards"] += 1
        return -1.5

    def write_chunk(self, proc, rel, rest, done, first, data=None):
        proc.mid_write = not first       # lets the scheduler tell a torn write from a plain crash
        if self.kill_at is not None and proc.label == self.kill_target:
            if first and proc.opcount == self.kill_at[0] and 0 < self.kill_at[1] < rest:
                return self.kill_at[1]
            return rest
        if not self.concurrent or rest <= 1 or self.splits >= 6:
            return rest
        contended = any(ent[0] == rel and ent[1] is not proc and not ent[1].dead for ent in SEAM.fds.values())
        if not self.ch.chance("split-write?", 3 if contended else 1, 4, stream="sched"):
            return rest
        self.splits += 1
        k = self.ch.weighted("cut-where", [2, 2, 4, 1], stream="sched")
        if k == 0:
            return 1
        if k == 1:
            return rest - 1
        if k == 2:
            return 1 + self.ch.draw("cut", rest - 1, stream="sched")
        return min(rest - 1, max(1, 4096 - (done % 4096)))

    def before_op(self, proc, kind, rel, info):
        self.steps += 1
        if proc.dead:
            raise SimCrash()
        proc.calls += 1
        if proc.calls > MAX_CALLS_PER_PROCESS:
            self.out.stats["probe:definition-never-finished"] += 1
            raise NeverFinished("the definition made %d file-system calls / sleeps and still has not finished (last: %s %s)" % (
                proc.calls, kind, SEAM.norm(rel)))
        if self.oplog is not None:
            self.oplog.append((proc.label, kind, rel, info))
        if self.kill_at is not None and proc.label == self.kill_target:
            n = proc.opcount
            proc.opcount += 1
            k, j = self.kill_at[0], self.kill_at[1]
            e = self.kill_at[2] if len(self.kill_at) > 2 else 0
            if (n == k and j == 0) or (n == k + 1 and j > 0):
                if e:
                    # enumeration of failing calls: this call fails (a write: after its first j bytes), the process goes on
                    proc.io_errors += 1
                    self.out.stats["fault:io-error-" + errno.errorcode[e]] += 1
                    SEAM.log(proc, "%s %s -> %s (injected%s: the call fails, the process goes on)" % (
                        kind, SEAM.norm(rel), errno.errorcode[e], ", after %d bytes" % j if j else ""))
                    raise OSError(e, os.strerror(e))
                proc.dead = True
                self.out.stats["fault:torn-write" if j > 0 else "fault:crash-before-op"] += 1
                SEAM.log(proc, "KILLED before %s %s" % (kind, SEAM.norm(rel)))
                SEAM.kill_fds_of(proc)
                raise SimCrash()
        if not self.concurrent:
            return
        proc.pending = (kind, rel)
        self.back.release()
        proc.go.acquire()
        if proc.dead:
            SEAM.kill_fds_of(proc)
            raise SimCrash()
        if proc.inject is not None:
            e, proc.inject = proc.inject, None
            proc.io_errors += 1
            SEAM.log(proc, "%s %s %s-> %s (injected: the call fails, the process goes on)" % (kind, SEAM.norm(rel), info + " " if info else "", errno.errorcode[e]))
            raise OSError(e, os.strerror(e))

    # ---- process bodies ----------------------------------------------------------------
    def spawn(self, label, bytecode):
        p = SimProc(self, len(self.procs), label, bytecode)
        if self.same_pid:
            p.pid = 1                 # two containers sharing the directory: both processes are pid 1
        self.procs.append(p)
        return p

    def define_run(self, proc, modname="defs"):
        """what `import defs` (or a reload of it) does in a process: execute the defining module as it is
        on disk now.  Runs in the process's thread, under the seam."""
        if proc.bisturi is None:
            SEAM.inside = True           # importing bisturi itself is not part of the experiment
            try:
                proc.bisturi = import_fresh_bisturi(self.eng.tree, proc.optimize)
            finally:
                SEAM.inside = False
        path = os.path.join(self.root, modname + ".py")
        with REAL_IO_OPEN(path) as f:
            src = f.read()
        linecache.cache.pop(path, None)
        mod = proc.defs_mods.get(modname)
        if mod is None:
            mod = types.ModuleType(modname)
            if not proc.fileless:
                mod.__file__ = path
            proc.defs_mods[modname] = mod
        sys.modules[modname] = mod
        before = len(proc.classes)
        mod.__dict__.pop("CLASSES", None)
        try:
            exec(compile(src, path if not proc.fileless else "<input>", "exec", dont_inherit=True), mod.__dict__)
        except SimCrash:
            raise
        except BaseException as e:
            tb = traceback.extract_tb(e.__traceback__)
            where = "%s:%s" % (os.path.basename(tb[-1].filename), tb[-1].name) if tb else "?"
            proc.define_errors.append("%s: %s (at %s)" % (type(e).__name__, str(e).split("\n")[0][:120], where))
            SEAM.log(proc, "definition raised %s" % type(e).__name__)
        proc.classes.extend((modname, src, i, c) for i, c in enumerate(mod.__dict__.get("CLASSES", [])))
        # drop duplicates (a failed run leaves CLASSES of the module as far as it got)
        return proc.classes[before:]

    def _thread_main(self, proc):
        proc.go.acquire()
        try:
            if not proc.dead:
                proc.program(proc)
        except SimCrash:
            proc.dead = True
        except BaseException:
            proc.error = traceback.format_exc()
        finally:
            proc.done = True
            SEAM.kill_fds_of(proc)
            self.back.release()

    def run_alone(self, proc, program):
        """sequential mode: the process runs its program to the end, no pre-emption, no crash"""
        was = self.concurrent
        self.concurrent = False
        self.swap_in(proc)
        try:
            program(proc)
        except SimCrash:
            proc.dead = True
        finally:
            SEAM.kill_fds_of(proc)
            self.swap_out(proc)
            self.concurrent = was

    def run_concurrently(self, procs):
        ch, st = self.ch, self.out.stats
        for p in procs:
            p.thread = threading.Thread(target=self._thread_main, args=(p,), daemon=True, name=p.label)
            p.thread.start()
        current = None
        nsched = 0
        while True:
            runnable = [p for p in procs if not p.done]
            if not runnable:
                break
            nsched += 1
            if self.edit_plan and nsched == self.edit_plan[0]:
                # a deploy in the middle: processes that start later execute another text of the defining module
                _write_defs(self, "defs", self.edit_plan[1])
                self.out.events.append("defs.py := %s   (while the processes run)" % (self.edit_plan[1],))
                self.out.stats["probe:edit-between-process-starts"] += 1
            order = ([current] + [p for p in runnable if p is not current]) if current in runnable else runnable
            # a process waiting for an advisory file lock retries whenever it runs; prefer somebody who can progress
            waiting = [p for p in order if getattr(p, "blocked_on_lock", None)]
            if waiting and len(waiting) < len(order):
                order = [p for p in order if p not in waiting]
            for p in waiting:
                p.blocked_on_lock = None
            nxt = order[ch.draw("next-proc", len(order), stream="sched")]
            if current in runnable and nxt is not current:
                st["fault:preempt"] += 1
            # process death at this call?
            not_dead = [p for p in procs if not p.dead]
            if (self.crash_den and self.deaths < self.max_deaths and len(not_dead) >= 2 and nxt.pending[0] != "start"):
                den = self.crash_den
                if nxt.pending[0] == "write" and getattr(nxt, "mid_write", False):
                    den = max(2, den // 5)
                if ch.chance("crash?", 1, den, stream="sched"):
                    nxt.dead = True
                    self.deaths += 1
                    kind = "torn-write" if (nxt.pending[0] == "write" and getattr(nxt, "mid_write", False)) else "crash-before-op"
                    st["fault:" + kind] += 1
                    SEAM.log(nxt, "KILLED before %s %s" % (nxt.pending[0], SEAM.norm(nxt.pending[1])))
            # or does the call fail (disk full, I/O error, no permission, descriptor table full) and the process go on?
            if not nxt.dead and self.ioerr_den and self.ioerrs < self.max_ioerrs:
                errs = io_errnos_for(nxt.pending[0])
                if errs and ch.chance("io-error?", 1, self.ioerr_den, stream="sched"):
                    nxt.inject = errs[ch.draw("errno", len(errs), stream="sched")]
                    self.ioerrs += 1
                    st["fault:io-error-" + errno.errorcode[nxt.inject]] += 1
            self.swap_in(nxt)
            nxt.go.release()
            ok = self.back.acquire(timeout=WATCHDOG_S)
            if not ok:
                self.timed_out = True
                SEAM.current = None
                return
            self.swap_out(nxt)
            current = nxt
        for p in procs:
            p.thread.join(WATCHDOG_S)
            if p.error:
                raise RuntimeError("simulated process %s failed in the harness:\n%s" % (p.label, p.error))


# ---------------------------------------------------------------------------------------
class CacheEngineBase(Engine):
    watchdog_s = 600

    def scenario(self, tier, idx):
        sc = {"focus": self.focus} if self.focus else {}
        if not self.focus and self.prop == "C16" and idx % 5 == 4:
            # a fifth of the runs concentrates on the narrowest window found so far: two same-size declarations,
            # a mid-run edit to a third, colliding process identities, frequent deaths (this is where F8 was found)
            sc["focus"] = "colliding-writers"
        every = 100 if tier == "quick" else 400
        if idx % every == every - 1:
            sc["fidelity"] = 1 + (idx // every) % 2        # 1: real process without bytecode caching, 2: with
        return sc
    shrink_budget = 300
    real_components = ["bisturi.codegen (snapshot of /repo working tree) and everything it calls",
                       "CPython's SourceFileLoader.get_code: .pyc validation by (mtime seconds, size), compilation, cache_from_source",
                       "the kernel's tmpfs semantics (O_TRUNC, rename, stale write offsets) on a real scratch directory"]
    stub_components = ["process boundary: threads with private sys.modules / linecache / dont_write_bytecode / pid, fresh bisturi import each",
                       "process death: SimCrash raised from the seam, later calls of the dead process have no effect, its descriptors are closed",
                       "storage clock: mtimes stamped from a simulated clock after every mutating call",
                       "importlib's per-module-name lock inside load_module (bypassed: real processes do not share it)",
                       "buffering of open().write(): unbuffered, writes may be cut at Chooser-chosen offsets"]

    def init_worker(self, tree, wdir):
        self.tree = tree
        self.wdir = wdir
        os.makedirs(wdir, exist_ok=True)
        self.twins = {}
        threading.stack_size(512 * 1024)
        SEAM.install()
        # the whole family once: names foreign code in reports, and checks that the probes can tell
        # any two variants apart (by behaviour, or at least by code)
        fam = {}
        for v in VNAMES:
            fam[v] = self.twin("defs", defs_text([("Foo", v)]))[0]
        self.indistinguishable = [(a, b) for a in VNAMES for b in VNAMES if a < b and fam[a][0] == fam[b][0]
                                  and (fam[a][1], fam[a][2]) == (fam[b][1], fam[b][2])]

    # ---- the clean twin -----------------------------------------------------------------
    def twin(self, modname, text, optimize=0, fileless=False):
        """per class of the defining module: what that declaration is and does when it is defined
        alone, by a pristine process (same interpreter optimisation level), on an empty cache"""
        key = (modname, text, optimize, fileless)
        if key in self.twins:
            return self.twins[key]
        import re
        head, *blocks = re.split(r"\n(?=class \w+\(Packet\):)", text)
        res = [self._twin_one(head + "\n" + b, optimize, fileless) for b in blocks]
        self.twins[key] = res
        return res

    def _twin_one(self, text, optimize=0, fileless=False):
        if (text, optimize, fileless) in self.twins:
            return self.twins[(text, optimize, fileless)]
        saved = SEAM.save()
        root = project.fresh_dir(os.path.join(self.wdir, "twin"))
        with REAL_IO_OPEN(os.path.join(root, "defs.py"), "w") as f:
            f.write(text)
        out = Outcome()
        from .chooser import Chooser
        w = World(self, Chooser(replay=[]), out, root, concurrent=False)
        w.clock_faults = False
        p = w.spawn("twin", bytecode=False)
        p.optimize = optimize
        p.fileless = fileless
        res = []

        def prog(proc):
            w.define_run(proc, "defs")
            if proc.define_errors or len(proc.classes) != 1:
                raise RuntimeError("the clean twin cannot define its class: %s\n%s" % (proc.define_errors, text))
            PE = sys.modules["bisturi.packet"].PacketError
            Packet = sys.modules["bisturi.packet"].Packet
            cls = proc.classes[0][3]
            SEAM.inside = True
            try:
                res.append((behave(cls, PE), code_sig(getattr(cls, "pack_impl", None), getattr(Packet, "pack_impl", None)),
                            code_sig(getattr(cls, "unpack_impl", None), getattr(Packet, "unpack_impl", None))))
            finally:
                SEAM.inside = False
        try:
            w.run_alone(p, prog)
        finally:
            SEAM.restore(saved)
        self.twins[(text, optimize, fileless)] = res[0]
        return res[0]

    def check_proc(self, world, proc, label_prop):
        """O1-O3 for every class this process defined; returns a violation tuple or None"""
        if proc.define_errors and proc.io_errors:
            # a process some of whose file-system calls were made to fail may fail to define its class (the property does
            # not speak about it); whatever it DID define is still held to O2/O3: fail, yes; wrong code, never
            world.out.stats["probe:definition-failed-after-failing-call"] += 1
        elif proc.define_errors:
            return (label_prop + ".O1-definition-raised", proc.label.rstrip("0123456789"), "%s: %s" % (proc.label, proc.define_errors[0]))
        found = [None]

        def prog(p):
            PE = sys.modules["bisturi.packet"].PacketError
            Packet = sys.modules["bisturi.packet"].Packet
            for (modname, src, i, cls) in p.classes:
                tw = self.twins[(modname, src, p.optimize, p.fileless)]
                if i >= len(tw):
                    continue
                tb, tp, tu = tw[i]
                sp = code_sig(getattr(cls, "pack_impl", None), getattr(Packet, "pack_impl", None))
                su = code_sig(getattr(cls, "unpack_impl", None), getattr(Packet, "unpack_impl", None))
                if sp not in (tp, "GENERIC") or su not in (tu, "GENERIC"):
                    which = "pack_impl" if sp not in (tp, "GENERIC") else "unpack_impl"
                    found[0] = (label_prop + ".O3-foreign-code", p.label.rstrip("0123456789"),
                                "%s: class #%d of %s runs a %s that is not the code generated for its declaration%s" % (
                                    p.label, i, modname, which, self._whose(modname, src, i, sp if which == "pack_impl" else su, which)))
                    return
                b = behave(cls, PE)
                if b != tb:
                    k = next(j for j in range(len(b)) if j >= len(tb) or b[j] != tb[j])
                    found[0] = (label_prop + ".O2-behaviour", p.label.rstrip("0123456789"),
                                "%s: class #%d of %s: %s gives %r, its declaration alone gives %r" % (
                                    p.label, i, modname, b[k][0], b[k][1], tb[k][1] if k < len(tb) else None))
                    return
        # twins need a world of their own: compute them before swapping the process in
        for (modname, src, i, cls) in proc.classes:
            self.twin(modname, src, proc.optimize, proc.fileless)

        def observing(p):
            SEAM.inside = True          # probing is observation, not part of the experiment
            try:
                prog(p)
            finally:
                SEAM.inside = False
        world.run_alone(proc, observing)
        return found[0]

    # ---- fidelity: the process stub against a real python process -------------------------
    def fidelity_check(self, world, bytecode, out):
        """copy the directory as it is now twice (mtimes kept); let a fresh *simulated* process define defs.py on
        one copy and a *real* python process on the other; both must report the same outcome per class
        (definition raised?, behaviour digest, code digests) and leave the same generated sources behind"""
        import hashlib
        import json
        import subprocess

        def h(x):
            return hashlib.sha256(repr(x).encode()).hexdigest()[:16]
        saved = SEAM.save()
        clock = SEAM.clock
        try:
            copies = []
            for tag in ("fs", "fr"):
                dst = os.path.join(self.wdir, "p-" + tag)
                shutil.rmtree(dst, ignore_errors=True)
                shutil.copytree(world.root, dst, copy_function=shutil.copy2)
                copies.append(dst)
            simdir, realdir = copies
            # simulated
            from .chooser import Chooser
            o2 = Outcome()
            w2 = World(self, Chooser(replay=[]), o2, simdir, concurrent=False)
            w2.clock_faults = False
            SEAM.clock = clock + 5.0          # a later moment, as for the real process
            lp = w2.spawn("fid", bytecode=bytecode)
            w2.run_alone(lp, lambda p: w2.define_run(p, "defs"))
            pred = {"define_error": None, "classes": []}
            if lp.define_errors:
                pred["define_error"] = lp.define_errors[0].split(":")[0]

            def prog(p):
                PE = sys.modules["bisturi.packet"].PacketError
                Packet = sys.modules["bisturi.packet"].Packet
                SEAM.inside = True
                try:
                    for (_, _, i, cls) in p.classes:
                        pred["classes"].append([h(behave(cls, PE)), h(code_sig(cls.pack_impl, Packet.pack_impl)),
                                                h(code_sig(cls.unpack_impl, Packet.unpack_impl))])
                finally:
                    SEAM.inside = False
            w2.run_alone(lp, prog)
        finally:
            SEAM.restore(saved)
        # real: it lives on the real clock, so every mtime of its copy (and the source mtime recorded in each .pyc
        # header) is shifted by a whole number of seconds such that ages relative to "now" are what they are in
        # the simulation (an implementation that prunes by age must prune the same files in both)
        import time as _t
        delta = int(_t.time()) - int(clock + 5.0)
        for dpath, _, fns in os.walk(realdir):
            for fn in fns:
                fp = os.path.join(dpath, fn)
                try:
                    st = REAL["stat"](fp)
                    if fn.endswith(".pyc"):
                        with REAL_IO_OPEN(fp, "rb") as f:
                            b = f.read()
                        if len(b) >= 16 and b[4:8] == b"\x00\x00\x00\x00":
                            m = (int.from_bytes(b[8:12], "little") + delta) & 0xFFFFFFFF
                            with REAL_IO_OPEN(fp, "wb") as f:
                                f.write(b[:8] + m.to_bytes(4, "little") + b[12:])
                    REAL["utime"](fp, (st.st_mtime + delta, st.st_mtime + delta))
                except OSError:
                    pass
        env = dict(os.environ, PYTHONHASHSEED="0")
        env.pop("PYTHONDONTWRITEBYTECODE", None)
        r = subprocess.run([sys.executable, os.path.join(os.path.dirname(os.path.dirname(os.path.abspath(__file__))), "tools", "realproc.py"),
                            self.tree, realdir, "defs", "1" if bytecode else "0"], capture_output=True, text=True, env=env, timeout=120)
        line = [l for l in r.stdout.splitlines() if l.startswith("REALPROC ")]
        if not line:
            raise RuntimeError("fidelity: the real process failed: %s" % (r.stderr[-600:],))
        real = json.loads(line[-1][9:])
        same_files = self._sources_of(simdir) == self._sources_of(realdir)
        out.stats["fidelity-runs"] += 1
        if pred != real or not same_files:
            out.stats["fidelity-mismatch"] += 1
            out.events.append("FIDELITY MISMATCH simulated=%r real=%r same_sources=%s" % (pred, real, same_files))
            return False
        return True

    def _sources_of(self, root):
        res = []
        base = os.path.join(root, "__pkts__")
        try:
            for fn in sorted(REAL["listdir"](base)):
                if fn.endswith(".py"):
                    with REAL_IO_OPEN(os.path.join(base, fn), "rb") as f:
                        import re
                        # paths of the two copies and whatever is hashed from them (the cookie) legitimately differ
                        res.append((fn, re.sub(rb"[0-9a-f]{40}", b"<sha1>", _norm_const(f.read()))))
        except OSError:
            pass
        return res

    def twin_cached(self, modname, src):
        return self.twins[(modname, src)]

    def _whose(self, modname, src, i, sig, which):
        """name the declaration whose generated code this is, if it is one of the family"""
        idx = 1 if which == "pack_impl" else 2
        for v in VNAMES:
            tw = self.twins.get(("defs", defs_text([("Foo", v)]), 0, False))
            if tw and tw[0][idx] == sig:
                return " (it is the code of variant %s)" % v
        return ""


def _write_defs(world, modname, spec):
    text = defs_text(spec)
    with REAL_IO_OPEN(os.path.join(world.root, modname + ".py"), "w") as f:
        f.write(text)
    return text


def _draw_spec(ch, label="defs"):
    """1-2 same-named definitions (sometimes 3), optionally the colliding x_Foo"""
    n = 1 + ch.weighted(label + "-n-classes", [5, 3, 1])
    spec = [("Foo", _draw_variant(ch, label)) for _ in range(n)]
    if ch.chance(label + "-with-x_Foo", 1, 6):
        spec.append(("x_Foo", _draw_variant(ch, label + "-x")))
    return spec


SAME_SIZE = ["v1", "v2", "v3", "v4", "v5"]      # their generated modules have the same length: the most confusable
GROUPS = [SAME_SIZE, ["v15", "v16", "v17"], ["v1", "v6", "v7", "v8", "v9", "v10"], VNAMES, PARAMS, MIRRORED]
HOME = [None]          # the group this run favours (drawn once per run by _home_group)


def _home_group(ch):
    """swarm style: a run concentrates on one set of mutually confusable declarations"""
    HOME[0] = GROUPS[ch.weighted("home-group", [5, 2, 1, 3, 3, 1])]


def _draw_variant(ch, label):
    g = HOME[0] if (HOME[0] is not None and ch.chance(label + "-from-home-group", 3, 4)) else VNAMES
    return g[ch.draw(label + "-variant", len(g))]


def _pkts_listing(root):
    """state digest of the cache directory: names, sizes, mtimes (seconds), content hashes"""
    import hashlib
    out = []
    base = os.path.join(root, "__pkts__")
    for d, _, files in sorted(os.walk(base)):
        for fn in sorted(files):
            p = os.path.join(d, fn)
            try:
                st = REAL["stat"](p)
                with REAL_IO_OPEN(p, "rb") as f:
                    h = hashlib.sha256(f.read()).hexdigest()[:8]
                out.append((os.path.relpath(p, root) if ".tmp" not in fn and fn.count(".") < 3 else "<tmp>", st.st_size, h))
            except OSError:
                pass
    return tuple(out)


# ---------------------------------------------------------------------------------------
@register
class CacheSeqEngine(CacheEngineBase):
    prop = "C15"
    name = "cachesim-seq"
    tiers = {"quick": 8000, "thorough": 300000}
    chunks = {"quick": 20, "thorough": 250}
    rule = ("each case is a Chooser-generated history of 2..8 steps over one scratch project: DEFINE (a fresh simulated process, or "
            "one that is still alive, executes defs.py / defs_x.py as it is on disk; bytecode caching on or off per process), EDIT "
            "(defs.py rewritten to 1-3 same-named declarations out of a family of 36 confusable variants, optionally the colliding "
            "x_Foo), TICK (storage clock stays / +1..3 s / steps back), JANITOR (delete .py only, .pyc only, the whole __pkts__, touch, "
            "restore an older copy with its old mtime); every mutating file call additionally draws a clock tie / step. distinct = "
            "digest of the abstract step list; non-trivial = at least two DEFINEs of different declaration lists and a cache file "
            "present before the last DEFINE")
    assumptions = ["a class is correct iff its probes behave as, and its installed code equals, the same defining module executed by a "
                   "pristine process on an empty cache (clean twin), or it runs the generic Packet methods",
                   "code identity ignores file names and line numbers (a module differing only in comments is the same code)",
                   "the defining modules themselves (defs.py) are inputs, not part of the cache protocol"]
    expected_probes = ["cache-hit", "cache-rewrite", "pyc-accepted", "pyc-rejected", "orphan-pyc-at-load", "same-process-redefine",
                       "name-collision-file", "janitor-restore", "janitor-mixed-restore", "bytecode-on", "bytecode-off", "fileless-module", "process-under-python-O"]

    def execute(self, scenario, ch):
        out = Outcome()
        st = out.stats
        root = project.fresh_dir(os.path.join(self.wdir, "p15"))
        world = World(self, ch, out, root, concurrent=False)
        ev = out.events.append
        nsteps = 2 + ch.draw("n-steps", 7)
        _home_group(ch)
        spec = _draw_spec(ch)
        text = _write_defs(world, "defs", spec)
        xspec = None
        ev("defs.py := %s" % (spec,))
        history = [("EDIT", tuple(spec))]
        live = []
        backups = []
        defines = 0
        specs_defined = set()
        had_cache_before_last = False
        violation = None
        for step in range(nsteps):
            # DEFINE EDIT TICK JANITOR; what comes next leans on what just happened: an edit is usually followed by a
            # run, a run by an edit or by something that disturbs the cache it has just left behind
            prev = history[-1][0]
            k = ch.weighted("step", {"EDIT": [10, 1, 1, 2], "EDITX": [10, 1, 1, 2], "DEFINE": [3, 4, 1, 5], "JANITOR": [8, 1, 1, 2],
                                     "TICK": [6, 3, 1, 3]}[prev]) if defines else 0
            if step == nsteps - 1:
                k = 0
            if k == 0:
                which_mod = "defs"
                if xspec is not None and ch.chance("define-defs_x", 1, 3):
                    which_mod = "defs_x"
                if live and ch.chance("reuse-live-process", 1, 3):
                    proc = live[ch.draw("which-live", len(live))]
                    st["probe:same-process-redefine"] += 1
                else:
                    proc = world.spawn("p%d" % len(world.procs), bytecode=ch.chance("bytecode-on", 1, 2))
                    if ch.chance("fileless-module", 1, 8):
                        proc.fileless = True
                        st["probe:fileless-module"] += 1
                    if ch.chance("python -O", 1, 6):
                        proc.optimize = 1
                        st["probe:process-under-python-O"] += 1
                    st["probe:bytecode-on" if not proc.dont_write_bytecode else "probe:bytecode-off"] += 1
                    live.append(proc)
                    if len(live) > 3:
                        live.pop(0)
                had_cache_before_last = bool(_pkts_listing(root))
                self._probe_state(world, st, root)
                ev("%s DEFINE %s (bytecode %s%s)" % (proc.label, which_mod, "off" if proc.dont_write_bytecode else "on", (", module without __file__" if proc.fileless else "") + (", python -O" if proc.optimize else "")))
                mark = len(out.events)
                world.run_alone(proc, lambda p: world.define_run(p, which_mod))
                self._define_probes(out.events[mark:], st)
                defines += 1
                specs_defined.add(tuple(spec) if which_mod == "defs" else tuple(xspec))
                history.append(("DEFINE", which_mod, proc.label, not proc.dont_write_bytecode))
                violation = self.check_proc(world, proc, "C15")
                if violation:
                    break
                backups.append(self._backup(root))          # what a backup / VCS / rsync -t could bring back later
                if len(backups) > 3:
                    backups.pop(0)
            elif k == 1:
                if ch.chance("edit-defs_x", 1, 5):
                    xspec = [("Foo", _draw_variant(ch, "x"))]
                    _write_defs(world, "defs_x", xspec)
                    ev("defs_x.py := %s" % (xspec,))
                    history.append(("EDITX", tuple(xspec)))
                else:
                    spec = _draw_spec(ch)
                    text = _write_defs(world, "defs", spec)
                    ev("defs.py := %s" % (spec,))
                    history.append(("EDIT", tuple(spec)))
            elif k == 2:
                d = [0.0, 1.0, 3.0, -2.0, 0.4][ch.weighted("tick", [2, 3, 2, 1, 2])]
                SEAM.clock += d
                ev("TICK %+.1fs" % d)
                history.append(("TICK", d))
            else:
                j = ch.weighted("janitor", [3, 2, 1, 2, 5, 6])
                desc = self._janitor(world, root, j, backups, ch, st)
                ev("JANITOR %s" % desc)
                history.append(("JANITOR", desc))
            out.state_sigs += (digest(_pkts_listing(root)),)
        if violation is None and scenario.get("fidelity"):
            if not self.fidelity_check(world, bool(scenario["fidelity"] - 1), out):
                raise RuntimeError("fidelity cross-check failed: the simulated process and a real python process disagree on the "
                                   "same directory state:\n" + out.events[-1])
        if violation:
            out.violation = {"oracle": violation[0], "actor": violation[1], "detail": violation[2]}
            ev("VIOLATION %s: %s" % (violation[0], violation[2]))
        out.case_sig = digest(tuple(history))
        out.nontrivial = defines >= 2 and len(specs_defined) >= 2 and had_cache_before_last
        out.sample = [list(map(str, h)) for h in history]
        out.sim_time = SEAM.clock - world.t0
        out.steps = world.steps
        SEAM.current = None
        SEAM.root = None
        return out

    def _define_probes(self, evs, st):
        wrote_py = any((" write " in e or " replace " in e) and ".pyc" not in e and "->" not in e for e in evs)
        read_py = any(" read-file " in e and e.split(" ")[2].endswith(".py") and "->" not in e for e in evs)
        read_pyc = [i for i, e in enumerate(evs) if " read-file " in e and e.split(" ")[2].endswith(".pyc") and "->" not in e]
        if not wrote_py and (read_py or read_pyc):
            st["probe:cache-hit"] += 1
        if wrote_py:
            st["probe:cache-rewrite"] += 1
        for i in read_pyc:
            nxt = [e for e in evs[i + 1:i + 3] if " read-file " in e and e.split(" ")[2].endswith(".py")]
            if not nxt:
                st["probe:pyc-accepted"] += 1
            else:
                st["probe:pyc-rejected"] += 1

    def _probe_state(self, world, st, root):
        base = os.path.join(root, "__pkts__")
        try:
            names = REAL["listdir"](base)
        except OSError:
            return
        for fn in names:
            if fn.endswith(".py"):
                pyc = os.path.join(base, "__pycache__", fn[:-3] + ".%s.pyc" % sys.implementation.cache_tag)
                try:
                    REAL["stat"](pyc)
                except OSError:
                    continue
        try:
            pycs = REAL["listdir"](os.path.join(base, "__pycache__"))
        except OSError:
            pycs = []
        for fn in pycs:
            src = fn.split(".")[0] + ".py"
            if fn.endswith(".pyc") and src not in names:
                st["probe:orphan-pyc-at-load"] += 1
        if "defs_x_Foo.py" in names:
            st["probe:name-collision-file"] += 1

    def _backup(self, root):
        files = []
        base = os.path.join(root, "__pkts__")
        for d, _, fns in os.walk(base):
            for fn in fns:
                p = os.path.join(d, fn)
                try:
                    st = REAL["stat"](p)
                    with REAL_IO_OPEN(p, "rb") as f:
                        files.append((os.path.relpath(p, root), f.read(), st.st_mtime))
                except OSError:
                    pass
        return files

    def _janitor(self, world, root, j, backups, ch, st):
        base = os.path.join(root, "__pkts__")
        if j == 0:      # delete the generated .py files only (make clean that forgets __pycache__)
            n = 0
            try:
                for fn in REAL["listdir"](base):
                    if fn.endswith(".py"):
                        REAL["remove"](os.path.join(base, fn))
                        n += 1
            except OSError:
                pass
            return "delete .py only (%d)" % n
        if j == 1:      # delete the bytecode only
            shutil.rmtree(os.path.join(base, "__pycache__"), ignore_errors=True)
            return "delete __pycache__"
        if j == 2:
            shutil.rmtree(base, ignore_errors=True)
            return "delete __pkts__"
        if j == 3:      # touch
            n = 0
            try:
                for fn in REAL["listdir"](base):
                    if fn.endswith(".py"):
                        REAL["utime"](os.path.join(base, fn), (SEAM.clock, SEAM.clock))
                        n += 1
            except OSError:
                pass
            return "touch .py (%d)" % n
        if not backups:
            return "restore: no backup yet"
        if j == 5 and len(backups) >= 2:
            # a sloppy restore from two backup generations: generated sources from one copy, bytecode from another,
            # each with its old mtime (the most confusable state a cache directory can be brought into)
            st["probe:janitor-mixed-restore"] += 1
            a = ch.draw("py-from-backup", len(backups))
            b = (a + 1 + ch.draw("pyc-from-backup", len(backups) - 1)) % len(backups)
            n = 0
            for files, suffix in ((backups[a], ".py"), (backups[b], ".pyc")):
                for rel, data, mtime in files:
                    if not rel.endswith(suffix):
                        continue
                    p = os.path.join(root, rel)
                    os.makedirs(os.path.dirname(p), exist_ok=True)
                    with REAL_IO_OPEN(p, "wb") as f:
                        f.write(data)
                    REAL["utime"](p, (mtime, mtime))
                    n += 1
            return "restore .py from copy %d and .pyc from copy %d (%d files, old mtimes)" % (a, b, n)
        st["probe:janitor-restore"] += 1
        # prefer a copy whose generated module is not the one on disk now (the interesting restores)
        cur = {rel: data for rel, data, _ in self._backup(root) if rel.endswith(".py")}
        differing = [b for b in backups if {rel: data for rel, data, _ in b if rel.endswith(".py")} != cur]
        pool_ = differing if differing and ch.chance("restore-differing", 3, 4) else backups
        files = pool_[ch.draw("which-backup", len(pool_))]
        what = ch.weighted("restore-what", [2, 2, 3])      # everything / .py only / .pyc only
        n = 0
        for rel, data, mtime in files:
            if what == 1 and not rel.endswith(".py"):
                continue
            if what == 2 and not rel.endswith(".pyc"):
                continue
            p = os.path.join(root, rel)
            os.makedirs(os.path.dirname(p), exist_ok=True)
            with REAL_IO_OPEN(p, "wb") as f:
                f.write(data)
            REAL["utime"](p, (mtime, mtime))
            n += 1
        return "restore older copy (%s, %d files, old mtimes)" % (["all", ".py", ".pyc"][what], n)


# ---------------------------------------------------------------------------------------
@register
class CacheConcEngine(CacheEngineBase):
    prop = "C16"
    name = "cachesim-conc"
    tiers = {"quick": 8000, "thorough": 400000}
    chunks = {"quick": 20, "thorough": 250}
    rule = ("each case is one simulated run: a drawn prior cache state (empty, or left by a fault-free process that defined another "
            "declaration list, with or without bytecode), then 2-3 simulated processes executing defs.py (1-3 same-named "
            "declarations out of 36 confusable variants) concurrently - every file-system call is a yield point where the Chooser "
            "picks who runs next, whether the clock ties/steps, whether the process dies there (<=2 deaths, writes cut at "
            "chosen byte offsets so that death leaves torn files) and, in a quarter of the runs, whether the call fails with an "
            "errno it can meet on a healthy system (<=3 failing calls: ENOSPC/EDQUOT/EIO/EACCES/EMFILE/EROFS/ENOLCK) - then 1-2 later fault-free processes, possibly after an edit. "
            "distinct = digest of (declaration lists, process set, kill points); non-trivial = at least two processes really "
            "interleaved (>=2 switches) or a process died after its first mutating call")
    assumptions = CacheSeqEngine.assumptions + [
        "the process that was itself killed is the only one allowed not to define its class - and a process some of whose own "
        "file-system calls were made to fail (the statement does not speak about it; whatever it did define is checked in full)",
        "process death loses nothing that was already written (a dying process is not a power cut): fsync is a no-op",
        "nothing is required of which process's file ends up on disk"]
    expected_probes = ["concurrent-updates", "two-writers-one-name", "read-a-file-another-process-wrote",
                       "pyc-written-after-source-changed", "death-after-mutation", "torn-file-left-behind",
                       "later-process-hit-cache", "later-process-rewrote-cache", "prior-state-nonempty", "edit-between-process-starts",
                       "run-with-failing-calls"]

    def execute(self, scenario, ch):
        if scenario.get("mode") == "enum":
            return self._execute_enum(scenario, ch)
        out = Outcome()
        st = out.stats
        ev = out.events.append
        root = project.fresh_dir(os.path.join(self.wdir, "p16"))
        world = World(self, ch, out, root, concurrent=False)
        _home_group(ch)
        # ---- prior state
        if ch.chance("prior-state", 2, 3):
            pspec = _draw_spec(ch, "prior")
            _write_defs(world, "defs", pspec)
            prior = world.spawn("prior", bytecode=ch.chance("prior-bytecode", 1, 2))
            ev("prior: defs.py := %s (bytecode %s)" % (pspec, "off" if prior.dont_write_bytecode else "on"))
            world.clock_faults = False
            world.run_alone(prior, lambda p: world.define_run(p, "defs"))
            world.clock_faults = True
            st["probe:prior-state-nonempty"] += 1
            if ch.chance("tick-after-prior", 1, 2):
                SEAM.clock += [1.0, 3.0][ch.draw("tick", 2)]
        spec = _draw_spec(ch)
        focus = scenario.get("focus")
        if focus == "colliding-writers":
            # developer aid (./check C16 --focus colliding-writers): every run has two same-size declarations in
            # sequence, colliding process identities, frequent deaths; the draws are still the Chooser's
            spec = [("Foo", SAME_SIZE[ch.draw("focus-a", 5)]), ("Foo", SAME_SIZE[ch.draw("focus-b", 5)])]
        _write_defs(world, "defs", spec)
        ev("defs.py := %s" % (spec,))
        # ---- concurrent phase
        nproc = 2 + ch.weighted("n-procs", [3, 1])
        if focus == "colliding-writers" or ch.chance("colliding-identities", 1, 4):
            # pid namespaces (containers sharing the directory) + a seeded random module: whatever the library
            # derives from pid and random (temporary file names) is the same in every process
            world.same_pid = world.same_random_seed = True
            st["fault:same-pid-and-random-seed"] += 1
        world.max_deaths = ch.weighted("max-deaths", [2, 3, 1])
        world.crash_den = [0, 40, 15][ch.weighted("crash-rate", [1, 2, 2])] if world.max_deaths else 0
        if focus == "failing-calls":
            world.max_deaths, world.crash_den = 0, 0      # developer aid: no process ever dies, calls only fail
        if focus == "colliding-writers":
            world.max_deaths, world.crash_den = 1, 10
        elif focus == "failing-calls" or ch.chance("failing-calls", 1, 4):
            # a quarter of the ordinary runs: some file-system calls FAIL (and the process carries on), see io_errnos_for
            world.max_ioerrs = 1 + ch.draw("max-io-errors", 3)
            world.ioerr_den = [12, 5][ch.draw("io-error-rate", 2)]
            st["probe:run-with-failing-calls"] += 1
        if focus == "colliding-writers" or ch.chance("edit-while-running", 1, 3):
            # same class names as the text the running processes executed (bisturi looks the class up in the file
            # on disk through inspect while defining it; a class that vanished from the file is another matter)
            espec = [("Foo", SAME_SIZE[ch.draw("focus-c", 5)])] if focus == "colliding-writers" else [(c, _draw_variant(ch, "mid")) for c, _ in spec]
            world.edit_plan = (1 + ch.draw("edit-at-step", 14), espec)
        procs = [world.spawn("c%d" % i, bytecode=ch.chance("bytecode-on", 1, 2)) for i in range(nproc)]
        for p in procs:
            if ch.chance("python -O", 1, 8):
                p.optimize = 1
                st["probe:process-under-python-O"] += 1
        if focus != "colliding-writers" and ch.chance("fileless-modules", 1, 10):
            for p in procs:
                p.fileless = True
            st["probe:fileless-module"] += 1
        for p in procs:
            p.program = (lambda pr: world.define_run(pr, "defs"))
        world.concurrent = True
        mark = len(out.events)
        world.run_concurrently(procs)
        world.concurrent = False
        if world.timed_out:
            out.inconclusive = "a simulated process never reached a yield point"
            ev("INCONCLUSIVE")
            out.case_sig = digest(tuple(ch.values()))
            SEAM.current = None
            SEAM.root = None
            return out
        self._phase_probes(out, mark, st, procs)
        violation = None
        for p in procs:
            if p.dead:
                continue
            violation = self.check_proc(world, p, "C16")
            if violation:
                break
        out.state_sigs += (digest(_pkts_listing(root)),)
        # ---- later processes: recovery must take exactly one definition attempt
        later_specs = []
        if violation is None:
            for i in range(1 + ch.draw("n-later", 2)):
                if ch.chance("edit-before-later", 1, 3):
                    spec = _draw_spec(ch, "later")
                    _write_defs(world, "defs", spec)
                    ev("defs.py := %s" % (spec,))
                if ch.chance("tick-before-later", 1, 3):
                    SEAM.clock += [1.0, 3.0][ch.draw("tick", 2)]
                lp = world.spawn("later%d" % i, bytecode=ch.chance("bytecode-on", 1, 2))
                if ch.chance("python -O", 1, 8):
                    lp.optimize = 1
                before = _pkts_listing(root)
                ev("%s DEFINE (bytecode %s)" % (lp.label, "off" if lp.dont_write_bytecode else "on"))
                world.clock_faults = False
                world.run_alone(lp, lambda p: world.define_run(p, "defs"))
                world.clock_faults = True
                after = _pkts_listing(root)
                st["probe:later-process-hit-cache" if [x for x in before if x[0].endswith(".py")] == [x for x in after if x[0].endswith(".py")] else "probe:later-process-rewrote-cache"] += 1
                later_specs.append(tuple(spec))
                violation = self.check_proc(world, lp, "C16")
                out.state_sigs += (digest(after),)
                if violation:
                    break
        if violation is None and scenario.get("fidelity"):
            if not self.fidelity_check(world, bool(scenario["fidelity"] - 1), out):
                raise RuntimeError("fidelity cross-check failed: the simulated process and a real python process disagree on the "
                                   "same directory state:\n" + out.events[-1])
        if violation:
            out.violation = {"oracle": violation[0], "actor": violation[1], "detail": violation[2]}
            ev("VIOLATION %s: %s" % (violation[0], violation[2]))
        switches = sum(1 for a, b in zip(self._owners, self._owners[1:]) if a != b)
        killed = [p.label for p in procs if p.dead]
        out.case_sig = digest((tuple(spec), nproc, tuple(killed), tuple(self._owners[:80]), tuple(later_specs)))
        out.sched_sig = digest(tuple(self._owners))
        out.nontrivial = switches >= 2 or bool(self._death_after_mutation)
        out.sample = {"defs": [list(x) for x in spec], "processes": [p.label + ("(killed)" if p.dead else "") for p in procs],
                      "switches": switches, "first_events": out.events[mark:mark + 14]}
        out.sim_time = SEAM.clock - world.t0
        out.steps = world.steps
        SEAM.current = None
        SEAM.root = None
        return out

    # ---- exhaustive crash-point enumeration of the sequential cache update -------------------
    def chunk(self, tier):
        return self.chunks[tier]

    def enum_pairs(self, tier):
        """(prior variant or None, victim variant, byte level) scenarios"""
        names = VNAMES[:17] + ["v19", "v24"]      # the parameter pairs v18-v32 are represented by two of them
        pri = [None] + names
        pairs = []
        same_size = ["v1", "v2", "v3", "v4", "v5"]
        for a in pri:
            for b in names:
                if b == "v10":
                    continue            # never touches the cache
                level = "stride"
                if tier == "thorough" and (a in (None, "v2") and b in ("v1", "v11", "v13") or (a == "v1" and b == "v2")):
                    level = "all"
                if tier == "quick" and not ((a in (None, "v2", "v8") and b in ("v1", "v11")) or (a == "v1" and b == "v2")):
                    continue
                pairs.append((a, b, level))
        return pairs

    def extra_phase(self, tier, seed, pool, tree, scratch):
        pairs = self.enum_pairs(tier)
        tot = {"crash_points": 0, "failing_calls": 0, "distinct_crash_states": 0, "later_definitions_checked": 0}
        viols = []
        samples = []
        for r in pool.map(_enum_job, [(i, a, b, level) for i, (a, b, level) in enumerate(pairs)]):
            if "harness_error" in r:
                raise RuntimeError(r["harness_error"])
            for k in tot:
                tot[k] += r[k]
            viols.extend(r["violations"])
            if len(samples) < 2 and r.get("sample"):
                samples.append(r["sample"])
        return {"crash_point_enumeration": dict(tot, scenarios=len(pairs), exhaustive_over=(
                    "for each enumerated (prior cache state, declaration) scenario: death before every file-system call of the "
                    "cache update and after every enumerated byte prefix of every write (all prefixes where byte level is 'all', "
                    "first/last/middle/every 97th otherwise), and FAILURE of every such call with every errno it can meet (writes: also after "
                    "1, half and all but one of their bytes; the victim then carries on and is checked too), each followed by a fresh "
                    "fault-free process per later declaration (the same, the prior one, a same-size sibling)"), samples=samples),
                "exhaustive_crash_points": True, "violations": viols}

    def enum_pair(self, idx, a, b, level):
        """all crash points of: [prior process defines a] ; victim defines b and dies at point p ; later process defines c"""
        res = {"crash_points": 0, "failing_calls": 0, "distinct_crash_states": 0, "later_definitions_checked": 0, "violations": [], "sample": None}
        base = {"mode": "enum", "prior": a, "prior_bytecode": bool(idx % 2), "victim": b}
        # learn the victim's file-system calls from an undisturbed run
        out = Outcome()
        world, _ = self._enum_world(out, base, None)
        ops = [o for o in world.oplog if o[0] == "victim"]
        points = []
        for k, (_, kind, rel, info) in enumerate(ops):
            points.append((k, 0))
            if kind == "write":
                L = int(info.split("B")[0])
                js = range(1, L) if level == "all" else sorted({1, L - 1, L // 2} | set(range(97, L, 97)))
                points.extend((k, j) for j in js if 0 < j < L)
        # ... and every way each of those calls can FAIL instead (the victim then carries on through its error handling)
        for k, (_, kind, rel, info) in enumerate(ops):
            for e in io_errnos_for(kind):
                points.append((k, 0, e))
                if kind == "write":
                    L = int(info.split("B")[0])
                    points.extend((k, j, e) for j in sorted({1, L // 2, L - 1}) if 0 < j < L)
        later = [b] + ([a] if a and a != b else []) + ([{"v1": "v2", "v2": "v1", "v3": "v2", "v4": "v1", "v5": "v1"}.get(b)] if b in ("v1", "v2", "v3", "v4", "v5") else [])
        seen_states = set()
        for pt in points:
            k, j = pt[0], pt[1]
            res["crash_points" if len(pt) == 2 else "failing_calls"] += 1
            out = Outcome()
            sc = dict(base, kill_at=list(pt))
            world, vic = self._enum_world(out, sc, None)
            if len(pt) == 3:
                # the victim itself went on: whatever it defined must be its own declaration's code (it may have failed to define)
                v = self.check_proc(world, vic, "C16")
                if v is not None:
                    res["violations"].append({"run": idx, "scenario": sc, "draws": {}, "violation": {"oracle": v[0], "actor": v[1], "detail": v[2]},
                                              "events": out.events[-100:], "event_digest": out.event_digest()})
                    return res
            state = (_pkts_listing(world.root), self._mtimes(world.root))
            if state in seen_states:
                continue                 # same directory state as an earlier crash point: same continuations
            seen_states.add(state)
            res["distinct_crash_states"] += 1
            snap = self._snapshot(world.root)
            clock = SEAM.clock
            for c in later:
                sc = dict(base, kill_at=list(pt), later=c)
                out2 = Outcome()
                v = self._enum_later(out2, sc, snap, clock)
                res["later_definitions_checked"] += 1
                if v is not None:
                    res["violations"].append({"run": idx, "scenario": sc, "draws": {}, "violation": {"oracle": v[0], "actor": v[1], "detail": v[2]},
                                              "events": out2.events[-100:], "event_digest": out2.event_digest()})
                    if len(res["violations"]) >= 3:
                        return res
            if res["sample"] is None and j > 0:
                res["sample"] = {"scenario": sc, "victim_calls": len(ops)}
        return res

    def _mtimes(self, root):
        out = []
        for d, _, files in sorted(os.walk(os.path.join(root, "__pkts__"))):
            for fn in sorted(files):
                try:
                    out.append(int(REAL["stat"](os.path.join(d, fn)).st_mtime))
                except OSError:
                    pass
        return tuple(out)

    def _snapshot(self, root):
        files = []
        for d, dirs, fns in os.walk(os.path.join(root, "__pkts__")):
            for dn in dirs:
                files.append((os.path.relpath(os.path.join(d, dn), root), None, 0))
            for fn in fns:
                p = os.path.join(d, fn)
                with REAL_IO_OPEN(p, "rb") as f:
                    files.append((os.path.relpath(p, root), f.read(), REAL["stat"](p).st_mtime))
        return files

    def _enum_world(self, out, sc, snap):
        """prior process (if any) then the victim, killed at sc['kill_at'] if given; returns the world"""
        root = project.fresh_dir(os.path.join(self.wdir, "p16e"))
        from .chooser import Chooser
        world = World(self, Chooser(replay=[]), out, root, concurrent=False)
        world.clock_faults = False
        world.oplog = []
        if sc["prior"]:
            _write_defs(world, "defs", [("Foo", sc["prior"])])
            pr = world.spawn("prior", bytecode=sc["prior_bytecode"])
            world.run_alone(pr, lambda p: world.define_run(p, "defs"))
            SEAM.clock += 0.5
        _write_defs(world, "defs", [("Foo", sc["victim"])])
        vic = world.spawn("victim", bytecode=True)
        if sc.get("kill_at") is not None:
            world.kill_target, world.kill_at = "victim", tuple(sc["kill_at"])
        world.run_alone(vic, lambda p: world.define_run(p, "defs"))
        world.kill_at = None
        return world, vic

    def _enum_later(self, out, sc, snap, clock):
        """a fresh fault-free process defines sc['later'] on the directory state left by the crash"""
        if snap is None:
            world, _ = self._enum_world(out, sc, None)
            root = world.root
            world.out = out
        else:
            root = project.fresh_dir(os.path.join(self.wdir, "p16l"))
            from .chooser import Chooser
            world = World(self, Chooser(replay=[]), out, root, concurrent=False)
            world.clock_faults = False
            for rel, data, mtime in sorted(snap, key=lambda x: (x[1] is not None, x[0])):
                p = os.path.join(root, rel)
                if data is None:
                    os.makedirs(p, exist_ok=True)
                else:
                    os.makedirs(os.path.dirname(p), exist_ok=True)
                    with REAL_IO_OPEN(p, "wb") as f:
                        f.write(data)
                    REAL["utime"](p, (mtime, mtime))
            SEAM.clock = clock
        SEAM.clock += 0.3
        _write_defs(world, "defs", [("Foo", sc["later"])])
        lp = world.spawn("later", bytecode=True)
        world.run_alone(lp, lambda p: world.define_run(p, "defs"))
        v = self.check_proc(world, lp, "C16")
        SEAM.current = None
        SEAM.root = None
        return v

    def _execute_enum(self, scenario, ch):
        out = Outcome()
        if "later" not in scenario:
            # a victim whose call was made to fail and who carried on: it is the one checked
            world, vic = self._enum_world(out, scenario, None)
            world.out = out
            v = self.check_proc(world, vic, "C16")
            SEAM.current = None
            SEAM.root = None
        else:
            v = self._enum_later(out, scenario, None, None)
        if v is not None:
            out.violation = {"oracle": v[0], "actor": v[1], "detail": v[2]}
            out.events.append("VIOLATION %s: %s" % (v[0], v[2]))
        out.case_sig = digest(sorted(scenario.items(), key=str))
        out.nontrivial = True
        return out

    def _phase_probes(self, out, mark, st, procs):
        """reach probes computed from the event log of the concurrent phase (implementation agnostic:
        they look at who touched which final name when, not at how the library organises its writes)"""
        evs = out.events[mark:]
        owners = []
        mutated = {}              # proc -> number of mutating calls so far
        finished = set()
        last_writer = {}          # final path -> proc that last changed it (write / replace / remove)
        read_src_at = {}          # proc -> (path, version counter) of the last source it read
        version = {}
        open_paths = {}           # proc -> set of paths it has open for writing
        self._death_after_mutation = False
        concurrent_updates = False
        for e in evs:
            parts = e.split(" ")
            who, kind = parts[0], parts[1] if len(parts) > 1 else ""
            path = parts[2] if len(parts) > 2 else ""
            if kind == "KILLED":
                if mutated.get(who):
                    st["probe:death-after-mutation"] += 1
                    self._death_after_mutation = True
                if open_paths.get(who):
                    st["probe:torn-file-left-behind"] += 1
                finished.add(who)
                continue
            if kind == "definition":
                continue
            owners.append(who)
            failed = "->" in parts
            is_mut = kind.startswith("open") and kind.endswith("-w") or kind in ("write", "replace", "rename", "remove", "truncate", "ftruncate", "link")
            if is_mut and not failed:
                mutated[who] = mutated.get(who, 0) + 1
                if kind.startswith("open"):
                    open_paths.setdefault(who, set()).add(path)
                if kind != "remove" or path.endswith(".py"):
                    if path.endswith(".py") or path.endswith(".pyc"):
                        if last_writer.get(path) not in (None, who):
                            st["probe:two-writers-one-name"] += 1
                        last_writer[path] = who
                        version[path] = version.get(path, 0) + 1
                if kind == "replace" and path.endswith(".pyc"):
                    src = read_src_at.get(who)
                    if src and version.get(src[0], 0) != src[1]:
                        st["probe:pyc-written-after-source-changed"] += 1
                others = [w for w in mutated if w != who and mutated[w] and w not in finished]
                if others and not concurrent_updates:
                    concurrent_updates = True
                    st["probe:concurrent-updates"] += 1
            elif kind == "close":
                open_paths.get(who, set()).discard(path)
            elif kind == "read-file" and not failed:
                if path.endswith(".py"):
                    read_src_at[who] = (path, version.get(path, 0))
                if last_writer.get(path) not in (None, who):
                    st["probe:read-a-file-another-process-wrote"] += 1
                writers = [w for w, pths in open_paths.items() if w != who and path in pths]
                if writers:
                    st["probe:reader-saw-file-being-written"] += 1
        self._owners = owners


def _enum_job(args):
    from .runner import _W
    idx, a, b, level = args
    eng = _W["eng"]
    import faulthandler
    faulthandler.dump_traceback_later(1800, exit=True)
    try:
        return eng.enum_pair(idx, a, b, level)
    except Exception:
        return {"harness_error": "crash-point enumeration (%s,%s): %s" % (a, b, traceback.format_exc())}
    finally:
        faulthandler.cancel_dump_traceback_later()
