"""The file-system seam: every file operation a simulated process performs under the scratch
project root goes through here.  Each call is (1) a yield point of the process scheduler,
(2) a possible fault site (process death before the call; a write may be cut into pieces with
yield points - and therefore crash points - between them), (3) an event in the log, and (4) for
mutating calls a tick of the simulated storage clock, which is stamped on the file with utime so
that mtimes (and the .pyc headers derived from them) carry simulated time.

The directory itself is real (tmpfs): truncate / rename / O_TRUNC-with-stale-offset semantics are
the kernel's.  Nothing here changes /repo: bisturi reaches the file system through `os`, `open`
and `importlib.machinery.SourceFileLoader`, all patched from outside while a worker lives, and all
passing straight through for paths outside the root or when no simulated process is current.
"""
import builtins
import importlib.machinery
import importlib.util
import importlib._bootstrap as _bootstrap
import io
import linecache
import os
import sys
import errno as _errno
import re
import time as _time

REAL = {}
for _n in ("getcwd", "stat", "lstat", "open", "write", "read", "close", "fsync", "replace", "rename", "remove", "unlink",
           "mkdir", "makedirs", "rmdir", "listdir", "utime", "getpid", "link", "truncate", "ftruncate", "access", "chmod",
           "lseek", "fstat", "scandir"):
    REAL[_n] = getattr(os, _n)
REAL_OPEN = builtins.open
REAL_IO_OPEN = io.open
REAL_SFL = importlib.machinery.SourceFileLoader


class SimCrash(BaseException):
    """the simulated process has been killed (kill -9): nothing it does afterwards has any effect"""


class Seam:
    def __init__(self):
        self.root = None           # only paths under this prefix are simulated
        self.current = None        # the simulated process that holds the baton (None: pass through)
        self.sched = None          # object with .before_op(proc, kind, path, info) -> directive
        self.clock = 0.0
        self.fds = {}              # fd -> [path, proc]
        self.events = None         # list to append log lines to
        self.names = {}            # path component normalisation for the log
        self.inside = False        # True while the seam itself does real I/O (audit hook ignores it)
        self.unsimulated = 0
        self.installed = False
        self.stats = None
        self.flocks = {}           # path -> {"ex": proc or None, "sh": set of procs}: advisory locks (flock / lockf / fcntl) between simulated processes

    # ---- life cycle -------------------------------------------------------------------
    def install(self):
        if self.installed:
            return
        self.installed = True
        s = self
        def path_fn(kind, name, mut=False, stamp=False, post=None):
            real = REAL[name]

            def f(path, *a, **k):
                rel = s._sim(path) if not k.get("dir_fd") else None
                if rel is None:
                    return real(path, *a, **k)
                ap = os.path.join(s.root, rel)
                fn = (lambda: real(ap, *a, **k)) if post is None else (lambda: post(real(ap, *a, **k)))
                return s._do(s.current, kind, rel, fn, mut=mut, stamp_path=ap if stamp else None)
            return f

        def two_path_fn(kind, name):
            real = REAL[name]

            def f(src, dst, *a, **k):
                r1, r2 = s._sim(src), s._sim(dst)
                if r1 is None and r2 is None:
                    return real(src, dst, *a, **k)
                a1 = os.path.join(s.root, r1) if r1 is not None else src
                a2 = os.path.join(s.root, r2) if r2 is not None else dst
                # rename keeps the file's mtime: no stamp
                return s._do(s.current, kind, r2 if r2 is not None else r1, lambda: real(a1, a2, *a, **k), mut=True,
                             info="from %s" % s.norm(r1 if r1 is not None else str(src)))
            return f

        os.stat = path_fn("stat", "stat")
        os.lstat = path_fn("lstat", "lstat")
        os.access = path_fn("access", "access")
        os.listdir = path_fn("listdir", "listdir", post=sorted)
        os.remove = path_fn("remove", "remove", mut=True)
        os.unlink = path_fn("remove", "unlink", mut=True)
        os.rmdir = path_fn("rmdir", "rmdir", mut=True)
        os.mkdir = path_fn("mkdir", "mkdir", mut=True)
        os.makedirs = path_fn("makedirs", "makedirs", mut=True)
        os.chmod = path_fn("chmod", "chmod", mut=True)
        os.truncate = path_fn("truncate", "truncate", mut=True, stamp=True)
        os.utime = path_fn("utime", "utime", mut=True)
        os.replace = two_path_fn("replace", "replace")
        os.rename = two_path_fn("rename", "rename")
        os.link = two_path_fn("link", "link")
        os.open = s._os_open
        os.write = s._os_write
        os.read = s._os_read
        os.close = s._os_close
        os.fsync = s._os_fsync
        os.ftruncate = s._os_ftruncate
        os.getpid = lambda: s.current.pid if s.current is not None else REAL["getpid"]()
        os.getcwd = lambda: s.current.cwd if (s.current is not None and not s.inside) else REAL["getcwd"]()
        # wall-clock time as a simulated process sees it is the storage clock (whatever compares "now" with an mtime)
        real_time, real_time_ns = _time.time, _time.time_ns
        _time.time = lambda: s.clock if (s.current is not None and not s.inside) else real_time()
        _time.time_ns = lambda: int(s.clock * 1e9) if (s.current is not None and not s.inside) else real_time_ns()
        real_sleep = _time.sleep

        def sleep(seconds):
            # a simulated process that sleeps (a polling loop around a lock file, a back-off) lets simulated time
            # pass and gives the other processes a turn; it never stalls the simulation for real
            if s.current is None or s.inside:
                return real_sleep(seconds)
            proc = s.current
            s.clock += max(0.0, float(seconds))
            s.sched.before_op(proc, "sleep", "", "%.3fs" % seconds)
        _time.sleep = sleep
        try:
            import fcntl as _fcntl
            real_flock, real_lockf, real_fcntl = _fcntl.flock, _fcntl.lockf, _fcntl.fcntl

            def _fd(f):
                return f if isinstance(f, int) else f.fileno()

            def flock(f, op):
                r = s._lock_request(_fd(f), bool(op & _fcntl.LOCK_EX), bool(op & _fcntl.LOCK_UN), bool(op & _fcntl.LOCK_NB))
                return None if r else real_flock(f, op)

            def lockf(f, cmd, *a):
                r = s._lock_request(_fd(f), bool(cmd & _fcntl.LOCK_EX), bool(cmd & _fcntl.LOCK_UN), bool(cmd & _fcntl.LOCK_NB))
                return None if r else real_lockf(f, cmd, *a)
            _fcntl.flock, _fcntl.lockf = flock, lockf
        except ImportError:
            pass
        builtins.open = s._open
        io.open = s._open
        importlib.machinery.SourceFileLoader = SimSourceFileLoader
        sys.addaudithook(self._audit)

    def reset(self, root, sched, events, stats, clock=1700000000.0):
        self.root = root.rstrip(os.sep) + os.sep
        self.sched = sched
        self.events = events
        self.stats = stats
        self.clock = clock
        self.names = {}
        self.current = None
        self.fds = {}
        self.flocks = {}
        self.unsimulated = 0

    def close_all(self):
        for fd in list(self.fds):
            try:
                REAL["close"](fd)
            except OSError:
                pass
        self.fds = {}

    def save(self):
        return (self.root, self.sched, self.events, self.stats, self.clock, self.names, self.fds, self.current, self.flocks)

    def restore(self, saved):
        (self.root, self.sched, self.events, self.stats, self.clock, self.names, self.fds, self.current, self.flocks) = saved

    # ---- helpers ----------------------------------------------------------------------
    def _sim(self, path):
        """is this path simulated right now?  returns the path relative to the root, or None"""
        if self.current is None or self.root is None or self.inside:
            return None
        try:
            p = os.fspath(path)
        except TypeError:
            return None
        if isinstance(p, bytes):
            p = os.fsdecode(p)
        if not isinstance(p, str):
            return None
        if not p.startswith("/"):
            p = os.path.join(self.current.cwd, p)
        p = os.path.normpath(p)
        if (p + os.sep).startswith(self.root) or p.startswith(self.root):
            rel = p[len(self.root):]
            # the defining modules themselves are read-only inputs, not part of the cache protocol
            if os.sep not in rel and rel.endswith(".py"):
                return None
            return rel
        return None

    def _audit(self, event, args):
        if self.current is None or self.inside or self.root is None:
            return
        if event in ("open", "os.remove", "os.rename", "os.mkdir", "os.rmdir", "os.truncate", "os.utime", "os.link"):
            try:
                p = args[0]
                if isinstance(p, (str, bytes)) and os.fsdecode(p).startswith(self.root):
                    rel = os.fsdecode(p)[len(self.root):]
                    if os.sep in rel or not rel.endswith(".py"):
                        self.unsimulated += 1
            except Exception:
                pass

    _KEEP = re.compile(r"^(defs\w*\.py|defs\w*\.cpython-\d+\.pyc|defs\w*\.pyc|__pkts__|__pycache__|__main__\w*\.py|)$")

    def norm(self, rel):
        """stable names for the log: temp-file names (pids, ids, random suffixes) are numbered"""
        parts = []
        for comp in rel.split(os.sep):
            if self._KEEP.match(comp):
                parts.append(comp)
            else:
                if comp not in self.names:
                    self.names[comp] = "<tmp%d>" % (len(self.names) + 1)
                parts.append(self.names[comp])
        return os.sep.join(parts)

    def log(self, proc, text):
        if self.events is not None:
            self.events.append("%s %s" % (proc.label, text))

    def tick(self):
        """advance the storage clock for one mutating call; the scheduler decides how far"""
        self.clock += self.sched.clock_delta()
        return self.clock

    def _do(self, proc, kind, rel, fn, mut=False, stamp_path=None, stamp_fd=None, info=""):
        """the common path of every simulated call"""
        self.sched.before_op(proc, kind, rel, info)       # yield point; raises SimCrash if the process dies here
        self.inside = True
        try:
            try:
                res = fn()
                err = None
            except OSError as e:
                res, err = None, e
            if mut and err is None and (stamp_path is not None or stamp_fd is not None):
                t = self.tick()
                try:
                    REAL["utime"](stamp_fd if stamp_fd is not None else stamp_path, (t, t))
                except OSError:
                    pass
        finally:
            self.inside = False
        nm = self.norm(rel)
        if err is not None:
            self.log(proc, "%s %s %s-> %s" % (kind, nm, info + " " if info else "", _errno.errorcode.get(err.errno, err.errno)))
            raise err
        self.log(proc, "%s %s %s" % (kind, nm, info))
        if self.stats is not None:
            self.stats["seam-op:" + kind] += 1
        return res

    # ---- fd operations ------------------------------------------------------------------
    def _os_open(self, path, flags, mode=0o777, *, dir_fd=None):
        rel = self._sim(path) if dir_fd is None else None
        if rel is None:
            return REAL["open"](path, flags, mode, dir_fd=dir_fd)
        proc = self.current
        ap = os.path.join(self.root, rel)
        creates = bool(flags & (os.O_CREAT | os.O_TRUNC))
        what = "open" + ("-trunc" if flags & os.O_TRUNC else "") + ("-creat" if flags & os.O_CREAT else "") + ("-excl" if flags & os.O_EXCL else "") + (
            "-append" if flags & os.O_APPEND else "") + ("-w" if flags & (os.O_WRONLY | os.O_RDWR) else "-r")
        existed = [False]

        def do():
            try:
                st = REAL["stat"](ap)
                existed[0] = True
                size = st.st_size
            except OSError:
                size = 0
            fd = REAL["open"](ap, flags, mode)
            # only a create or an effective truncate changes the file's mtime
            fd_changed[0] = (not existed[0] and bool(flags & os.O_CREAT)) or (bool(flags & os.O_TRUNC) and size > 0) or (bool(flags & os.O_TRUNC) and existed[0])
            return fd
        fd_changed = [False]
        self.sched.before_op(proc, what, rel, "")
        self.inside = True
        try:
            try:
                fd = do()
            except OSError as e:
                self.log(proc, "%s %s -> %s" % (what, self.norm(rel), _errno.errorcode.get(e.errno, e.errno)))
                raise
            if fd_changed[0]:
                t = self.tick()
                REAL["utime"](fd, (t, t))
        finally:
            self.inside = False
        self._serial = getattr(self, "_serial", 0) + 1
        self.fds[fd] = [rel, proc, self._serial]
        self.log(proc, "%s %s" % (what, self.norm(rel)))
        if self.stats is not None:
            self.stats["seam-op:open"] += 1
        return fd

    def _os_write(self, fd, data):
        ent = self.fds.get(fd)
        if ent is None or self.current is None or self.inside:
            return REAL["write"](fd, data)
        rel, proc = ent[0], ent[1]
        data = bytes(data)
        total = len(data)
        done = 0
        first = True
        while True:
            rest = total - done
            # the scheduler may cut this write: only the first `n` bytes reach the file now, and the
            # remainder is a new call (hence a new yield point and crash point)
            n = self.sched.write_chunk(proc, rel, rest, done, first)
            n = max(0, min(rest, n))
            piece = data[done:done + n]
            off = [0]

            def do():
                off[0] = REAL["lseek"](fd, 0, os.SEEK_CUR)
                k = 0
                while k < len(piece):
                    k += REAL["write"](fd, piece[k:])
                return k
            self._do(proc, "write", rel, do, mut=True, stamp_fd=fd, info="%dB%s" % (n, "" if n == rest and first else " (piece of %dB)" % total))
            done += n
            first = False
            if done >= total:
                return total

    def _os_read(self, fd, n):
        ent = self.fds.get(fd)
        if ent is None or self.current is None or self.inside:
            return REAL["read"](fd, n)
        rel, proc = ent[0], ent[1]
        return self._do(proc, "read", rel, lambda: REAL["read"](fd, n), info="<=%dB" % n)

    def _os_close(self, fd):
        if self.current is not None and getattr(self.current, "dead", False) and not self.inside:
            raise SimCrash()           # a dead process closes nothing: the kernel did it, the number may be reused
        ent = self.fds.get(fd)
        if ent is None or self.current is None or self.inside:
            self.fds.pop(fd, None)
            return REAL["close"](fd)
        rel, proc = ent[0], ent[1]
        try:
            return self._do(proc, "close", rel, lambda: REAL["close"](fd))
        finally:
            if not proc.dead:
                self.fds.pop(fd, None)
            self._release_locks_of(proc, rel)

    def _os_fsync(self, fd):
        ent = self.fds.get(fd)
        if ent is None or self.current is None or self.inside:
            return REAL["fsync"](fd)
        rel, proc = ent[0], ent[1]
        return self._do(proc, "fsync", rel, lambda: REAL["fsync"](fd))

    def _os_ftruncate(self, fd, length):
        ent = self.fds.get(fd)
        if ent is None or self.current is None or self.inside:
            return REAL["ftruncate"](fd, length)
        rel, proc = ent[0], ent[1]
        return self._do(proc, "ftruncate", rel, lambda: REAL["ftruncate"](fd, length), mut=True, stamp_fd=fd, info="to %d" % length)

    def read_whole(self, path):
        """one atomic read of a whole file (used by the loader's get_data)"""
        rel = self._sim(path)
        if rel is None:
            with REAL_IO_OPEN(path, "rb") as f:
                return f.read()
        proc = self.current
        ap = os.path.join(self.root, rel)

        def do():
            with REAL_IO_OPEN(ap, "rb") as f:
                return f.read()
        data = self._do(proc, "read-file", rel, do)
        return data

    # ---- advisory file locks ---------------------------------------------------------------
    # Simulated processes are threads of ONE operating-system process: POSIX record locks (lockf / fcntl) would
    # never conflict between them and a blocking flock would stall the whole simulation, so both families are
    # emulated per simulated process on a table keyed by path: exclusive / shared, non-blocking requests fail with
    # BlockingIOError, blocking ones wait cooperatively (the waiter yields until the holder unlocks, closes or dies).
    def _lock_request(self, fd, exclusive, unlock, nonblocking):
        ent = self.fds.get(fd)
        if ent is None or self.current is None or self.inside:
            return None
        rel, proc = ent[0], ent[1]
        spins = 0
        while True:
            spins += 1
            if spins > 20000:
                raise RuntimeError("seam: %s waits for a file lock on %s that nobody will ever release" % (proc.label, rel))
            self.sched.before_op(proc, "unlock" if unlock else ("lock-ex" if exclusive else "lock-sh"), rel, "")
            st = self.flocks.setdefault(rel, {"ex": None, "sh": set()})
            if st["ex"] is not None and st["ex"].dead:
                st["ex"] = None
            st["sh"] = {p for p in st["sh"] if not p.dead}
            if unlock:
                if st["ex"] is proc:
                    st["ex"] = None
                st["sh"].discard(proc)
                self.log(proc, "unlock %s" % self.norm(rel))
                return True
            others_sh = st["sh"] - {proc}
            free = (st["ex"] in (None, proc)) and (not exclusive or not others_sh)
            if free:
                if exclusive:
                    st["ex"] = proc
                    st["sh"].discard(proc)
                else:
                    if st["ex"] is proc:
                        st["ex"] = None
                    st["sh"].add(proc)
                self.log(proc, "%s %s" % ("lock-ex" if exclusive else "lock-sh", self.norm(rel)))
                return True
            if nonblocking:
                self.log(proc, "lock %s -> EAGAIN" % self.norm(rel))
                raise BlockingIOError(_errno.EAGAIN, "Resource temporarily unavailable")
            proc.blocked_on_lock = rel         # wait: the scheduler should run somebody else
            if self.stats is not None:
                self.stats["probe:waited-for-a-file-lock"] += 1

    def _release_locks_of(self, proc, rel=None):
        for r, st in self.flocks.items():
            if rel is not None and r != rel:
                continue
            if st["ex"] is proc:
                st["ex"] = None
            st["sh"].discard(proc)

    def kill_fds_of(self, proc):
        """the kernel closes the descriptors of a dead process"""
        self._release_locks_of(proc)
        for fd, ent in list(self.fds.items()):
            if ent[1] is proc:
                try:
                    REAL["close"](fd)
                except OSError:
                    pass
                del self.fds[fd]

    # ---- open() -------------------------------------------------------------------------
    def _open(self, file, mode="r", buffering=-1, encoding=None, errors=None, newline=None, closefd=True, opener=None):
        if self.current is None or self.inside:
            return REAL_IO_OPEN(file, mode, buffering, encoding, errors, newline, closefd, opener)
        if isinstance(file, int):
            if file not in self.fds:
                return REAL_IO_OPEN(file, mode, buffering, encoding, errors, newline, closefd, opener)
            return ProxyFile(self, file, mode, encoding, errors, newline, name=self.fds[file][0], closefd=closefd)
        rel = self._sim(file)
        if rel is None:
            return REAL_IO_OPEN(file, mode, buffering, encoding, errors, newline, closefd, opener)
        m = mode.replace("b", "").replace("t", "")
        plus = "+" in m
        m = m.replace("+", "")
        if m == "r":
            flags = os.O_RDWR if plus else os.O_RDONLY
        elif m == "w":
            flags = (os.O_RDWR if plus else os.O_WRONLY) | os.O_CREAT | os.O_TRUNC
        elif m == "x":
            flags = (os.O_RDWR if plus else os.O_WRONLY) | os.O_CREAT | os.O_EXCL
        elif m == "a":
            flags = (os.O_RDWR if plus else os.O_WRONLY) | os.O_CREAT | os.O_APPEND
        else:
            raise ValueError("invalid mode: %r" % mode)
        flags |= getattr(os, "O_CLOEXEC", 0)
        if opener is not None:
            fd = opener(file, flags)
            if fd not in self.fds:
                return REAL_IO_OPEN(fd, mode, buffering, encoding, errors, newline, True)
        else:
            fd = self._os_open(file, flags, 0o666)
        return ProxyFile(self, fd, mode, encoding, errors, newline, name=os.fspath(file), closefd=True)


class ProxyFile:
    """an unbuffered stand-in for the object open() returns, living entirely on seam calls"""

    def __init__(self, seam, fd, mode, encoding, errors, newline, name, closefd):
        self._seam, self._fd, self.mode, self.name = seam, fd, mode, name
        self._binary = "b" in mode
        if encoding in (None, "locale"):
            import locale
            encoding = locale.getencoding() if hasattr(locale, "getencoding") else "utf-8"
        self._enc = encoding
        self._errors = errors or "strict"
        self._closefd = closefd
        self.closed = False
        self._rbuf = None
        ent = seam.fds.get(fd)
        self._serial = ent[2] if ent is not None and len(ent) > 2 else None

    def fileno(self):
        return self._fd

    def writable(self):
        return any(c in self.mode for c in "wxa+")

    def readable(self):
        return "r" in self.mode or "+" in self.mode

    def seekable(self):
        return True

    def isatty(self):
        return False

    def write(self, s):
        if self.closed:
            raise ValueError("I/O operation on closed file.")
        data = bytes(s) if self._binary else s.encode(self._enc, self._errors)
        if data:
            os.write(self._fd, data)
        return len(s)

    def writelines(self, lines):
        for l in lines:
            self.write(l)

    def _readall(self):
        chunks = []
        while True:
            b = os.read(self._fd, 1 << 20)
            if not b:
                break
            chunks.append(b)
        return b"".join(chunks)

    def read(self, n=-1):
        if self.closed:
            raise ValueError("I/O operation on closed file.")
        if n is None or n < 0:
            data = self._readall()
        else:
            data = os.read(self._fd, n)
        return data if self._binary else data.decode(self._enc, self._errors)

    def readline(self):
        if self._rbuf is None:
            whole = self.read()
            self._rbuf = whole.splitlines(True)
        return self._rbuf.pop(0) if self._rbuf else (b"" if self._binary else "")

    def readlines(self):
        out = []
        while True:
            l = self.readline()
            if not l:
                return out
            out.append(l)

    def __iter__(self):
        return iter(self.readlines())

    def flush(self):
        pass

    def seek(self, pos, whence=0):
        return REAL["lseek"](self._fd, pos, whence)

    def tell(self):
        return REAL["lseek"](self._fd, 0, os.SEEK_CUR)

    def truncate(self, size=None):
        os.ftruncate(self._fd, self.tell() if size is None else size)

    def close(self):
        if not self.closed:
            self.closed = True
            if self._closefd:
                ent = self._seam.fds.get(self._fd)
                if ent is not None and len(ent) > 2 and ent[2] != self._serial:
                    return             # the number belongs to a later open by now
                os.close(self._fd)

    def __enter__(self):
        return self

    def __exit__(self, *exc):
        self.close()
        return False

    def __del__(self):
        # a dropped file object closes its descriptor in CPython; do it quietly and for real
        if not self.closed and self._closefd:
            self.closed = True
            try:
                # only if the descriptor number still belongs to this very open: after the owner's death the seam has
                # closed it already and the number may have been handed out again to somebody else
                ent = self._seam.fds.get(self._fd)
                if ent is not None and len(ent) > 2 and ent[2] == self._serial:
                    self._seam.fds.pop(self._fd, None)
                    REAL["close"](self._fd)
            except Exception:
                pass


# ---------------------------------------------------------------------------------------
# the loader
# ---------------------------------------------------------------------------------------
class SimSourceFileLoader(REAL_SFL):
    """SourceFileLoader whose I/O goes through the seam.  get_code (stat source, read and validate
    the .pyc, else read source, compile, write the .pyc) is CPython's own."""

    _tmp_counter = [0]

    def _simulated(self, path):
        return SEAM._sim(path) is not None

    def path_stats(self, path):
        if not self._simulated(path):
            return super().path_stats(path)
        st = os.stat(path)
        return {"mtime": st.st_mtime, "size": st.st_size}

    def get_data(self, path):
        if not self._simulated(path):
            return super().get_data(path)
        return SEAM.read_whole(path)

    def set_data(self, path, data, *, _mode=0o666):
        if not self._simulated(path):
            return super().set_data(path, data, _mode=_mode)
        # as importlib does: make the __pycache__ directory, write to a temp name, rename; any
        # OSError is swallowed (a bytecode cache is optional)
        parent = os.path.dirname(path)
        try:
            try:
                os.stat(parent)
            except OSError:
                os.mkdir(parent)
        except OSError:
            return
        self._tmp_counter[0] += 1
        tmp = "%s.%d" % (path, os.getpid() * 1000 + self._tmp_counter[0] % 1000)
        try:
            fd = os.open(tmp, os.O_EXCL | os.O_CREAT | os.O_WRONLY, _mode & 0o666)
            try:
                os.write(fd, bytes(data))
            finally:
                os.close(fd)
            os.replace(tmp, path)
        except OSError:
            try:
                os.unlink(tmp)
            except OSError:
                pass

    def load_module(self, fullname=None):
        """importlib's deprecated load_module shim without the per-module-name lock (which is
        interpreter wide, so two simulated processes loading the same name would deadlock on it,
        while real processes do not share it).  Semantics kept: an existing sys.modules entry is
        re-executed in place, a new one is removed again if its execution fails."""
        if not self._simulated(self.path):
            return super().load_module(fullname)
        name = self.name
        spec = importlib.util.spec_from_loader(name, self)
        if name in sys.modules:
            module = sys.modules[name]
            _bootstrap._init_module_attrs(spec, module, override=True)
            try:
                self.exec_module(module)
            finally:
                module = sys.modules.pop(name)
                sys.modules[name] = module
            return sys.modules[name]
        module = importlib.util.module_from_spec(spec)
        sys.modules[name] = module
        try:
            self.exec_module(module)
        except BaseException:
            sys.modules.pop(name, None)
            raise
        module = sys.modules.pop(name)
        sys.modules[name] = module
        return module


SEAM = Seam()
