"""bsim - deterministic simulation with fault injection for bisturi (see /verif/DESIGN.md)."""
