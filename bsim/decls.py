"""Declaration pool for threadsim (C13): source text + a generator of valid raw inputs per root class.

Every class name is unique across the pool (the code cache is keyed by module and class name).
`OPT` in the source is the per-run option dict (code generation on/off, vectorize).  Each snippet
registers its classes in REG so that classes defined inside a function (which cannot be pickled by
name, so Prototype clones them with deepcopy instead of pickle) can be looked up by name too.

raw generators take (ch, u): the Chooser and a helper giving fresh, unique byte strings.
"""


class Uniq:
    """fresh, distinguishable values; never contains the delimiters used by the pool (; , CR LF NUL)"""

    def __init__(self, start=0):
        self.i = start

    def bytes(self, n):
        self.i += 1
        return bytes(97 + ((self.i * 3 + k) % 26) for k in range(n))

    def byte(self):
        self.i += 1
        return 1 + (self.i * 7) % 100

    def int(self, hi=100):
        self.i += 1
        return 1 + (self.i * 7) % hi


def _b(*ints):
    return bytes(ints)


POOL = []


def decl(name, src, roots, func=False):
    # "@name" entries of REG are packet INSTANCES the user passed to Ref(...) as prototype and still holds:
    # the library takes its snapshot of them when the class is defined, so mutating them later must not matter
    import re as _re
    protos = sorted(set(_re.findall(r"REG\['(@\w+)'\]", src)))
    POOL.append(dict(name=name, src=src, roots=roots, func=func, protos=protos))


# 1 ---------------------------------------------------------------------------------------
decl("ints", """
class I1(Packet):
    __bisturi__ = OPT
    a = Int(1)
    b = Int(2)
    c = Int(4)
    d = Int(8, default=3)
REG['I1'] = I1
""", {"I1": lambda ch, u: u.bytes(15)})

# 2
decl("oddints", """
class I2(Packet):
    __bisturi__ = dict(OPT, endianness='little')
    a = Int(3)
    b = Int(1, signed=True)
    c = Int(5, endianness='big')
    d = Int(2, signed=True, default=-2)
REG['I2'] = I2
""", {"I2": lambda ch, u: u.bytes(11)})

# 3
decl("datasized", """
class D1(Packet):
    __bisturi__ = OPT
    n = Int(1)
    fixed = Data(3)
    byfield = Data(n)
    byexpr = Data(n + 1)
REG['D1'] = D1
""", {"D1": lambda ch, u: (lambda n: _b(n) + u.bytes(3) + u.bytes(n) + u.bytes(n + 1))(ch.draw("n", 4))})

# 4
decl("databytesmarker", """
class D2(Packet):
    __bisturi__ = OPT
    kept = Data(until_marker=b';', include_delimiter=True)
    dropped = Data(until_marker=b'\\r\\n')
    t = Int(1)
REG['D2'] = D2
""", {"D2": lambda ch, u: u.bytes(ch.draw("n", 4)) + b";" + u.bytes(ch.draw("m", 4)) + b"\r\n" + _b(u.byte())})

# 5  (regex delimiter that is not kept: the delimiter actually matched must be remembered per packet)
decl("dataregex", """
class R1(Packet):
    __bisturi__ = OPT
    d = Data(until_marker=re.compile(b'[;,]'))
    t = Int(1)
REG['R1'] = R1
""", {"R1": lambda ch, u: u.bytes(1 + ch.draw("n", 3)) + [b";", b","][ch.draw("delim", 2)] + _b(u.byte())})

# 6
decl("readtoend", """
class E1(Packet):
    __bisturi__ = OPT
    t = Int(1)
    rest = Data(until_marker=re.compile(b'$'))
REG['E1'] = E1
""", {"E1": lambda ch, u: _b(u.byte()) + u.bytes(ch.draw("n", 5))})

# 7
decl("bits", """
class B1(Packet):
    __bisturi__ = OPT
    x = Bits(4)
    y = Bits(12)
    z = Bits(1)
    w = Bits(7, default=5)
    a = Int(1)
REG['B1'] = B1
""", {"B1": lambda ch, u: u.bytes(4)})

# 8
decl("refpacket", """
class Pt8(Packet):
    __bisturi__ = OPT
    x = Int(1)
    y = Int(1)

origin8 = Pt8(x=1, y=2)

class L8(Packet):
    __bisturi__ = OPT
    begin = Ref(Pt8)
    end = Ref(origin8)
    n = Int(1)
REG['Pt8'] = Pt8
REG['L8'] = L8
REG['@origin8'] = origin8
""", {"L8": lambda ch, u: u.bytes(5)})

# 9  (the documented SOCKS pattern: a chooses table holding field and packet instances)
decl("refchooses", """
class DN9(Packet):
    __bisturi__ = OPT
    length = Int(1)
    name = Data(length)

class SOCKS9(Packet):
    __bisturi__ = OPT
    type = Int(1, default=1)
    address = Ref(type.chooses({1: Data(4), 4: Data(16), 3: DN9()}), default=b'\\x00\\x00\\x00\\x00')
    port = Int(2)
REG['DN9'] = DN9
REG['SOCKS9'] = SOCKS9
""", {"SOCKS9": lambda ch, u: [lambda: _b(1) + u.bytes(4), lambda: _b(3) + (lambda n: _b(n) + u.bytes(n))(1 + ch.draw("n", 4)),
                               lambda: _b(4) + u.bytes(16), lambda: _b(3) + (lambda n: _b(n) + u.bytes(n))(1 + ch.draw("n", 4))][ch.draw("kind", 4)]() + u.bytes(2)})

# 10
decl("reflambda", """
class Pt10(Packet):
    __bisturi__ = OPT
    x = Int(1)
    y = Int(1)

class DN10(Packet):
    __bisturi__ = OPT
    length = Int(1)
    name = Data(length)

class V10(Packet):
    __bisturi__ = OPT
    type = Int(1)
    body = Ref(lambda pkt, **k: Pt10() if pkt.type == 1 else DN10(), default=Pt10(x=4))
REG['Pt10'] = Pt10
REG['DN10'] = DN10
REG['V10'] = V10
""", {"V10": lambda ch, u: (_b(1) + u.bytes(2)) if ch.draw("kind", 2) == 0 else (_b(2) + (lambda n: _b(n) + u.bytes(n))(ch.draw("n", 4)))})

# 11
decl("repeatcount", """
class S11(Packet):
    __bisturi__ = OPT
    n = Int(1)
    fixed = Int(2).repeated(2)
    byfield = Int(1).repeated(n)
    byexpr = Data(2).repeated(n + 1)
REG['S11'] = S11
""", {"S11": lambda ch, u: (lambda n: _b(n) + u.bytes(4) + u.bytes(n) + u.bytes(2 * (n + 1)))(ch.draw("n", 4))})

# 12
decl("repeatuntil", """
class Bag12(Packet):
    __bisturi__ = OPT
    num = Int(1)
    objs = Int(1).repeated(num)

class Box12(Packet):
    __bisturi__ = OPT
    bags = Ref(Bag12).repeated(until=lambda pkt, **k: pkt.bags[-1].num == 0)
    t = Int(1)
REG['Bag12'] = Bag12
REG['Box12'] = Box12
""", {"Box12": lambda ch, u: b"".join((lambda n: _b(n) + u.bytes(n))(1 + ch.draw("n", 3)) for _ in range(ch.draw("bags", 3))) + _b(0) + _b(u.byte())})

# 13
decl("repeatdefaults", """
class Pt13(Packet):
    __bisturi__ = OPT
    x = Int(1)
    y = Int(1)

class S13(Packet):
    __bisturi__ = OPT
    items = Ref(Pt13).repeated(2, default=[Pt13(x=1), Pt13(x=2)], aligned=4)
    nums = Int(1).repeated(3, default=[7, 8, 9])
    tail = Int(1)
REG['Pt13'] = Pt13
REG['S13'] = S13
""", {"S13": lambda ch, u: u.bytes(2) + b".." + u.bytes(2) + u.bytes(3) + _b(u.byte())})

# 14
decl("optional", """
class Pt14(Packet):
    __bisturi__ = OPT
    x = Int(1)
    y = Int(1)

class O14(Packet):
    __bisturi__ = OPT
    t = Int(1)
    opt = Int(2).when(t)
    optp = Ref(Pt14).when(t == 2, default=Pt14(x=9))
    lst = Int(1).repeated(2, when=t == 3)
    end = Int(1)
REG['Pt14'] = Pt14
REG['O14'] = O14
""", {"O14": lambda ch, u: [lambda: _b(0), lambda: _b(1) + u.bytes(2), lambda: _b(2) + u.bytes(4), lambda: _b(3) + u.bytes(4)][ch.draw("t", 4)]() + _b(u.byte())})

# 15
decl("moves", """
class M15(Packet):
    __bisturi__ = OPT
    off = Int(1, default=2)
    a = Int(1).at(off)
    b = Int(2).aligned(4)
    c = Int(1).shift(1)
REG['M15'] = M15
""", {"M15": lambda ch, u: (lambda off: _b(off) + b"." * (off - 1) + _b(u.byte()) + b"." * ((-(off + 1)) % 4) + u.bytes(2) + b"." + _b(u.byte()))(1 + ch.draw("off", 4))})

# 16
decl("classalign", """
class M16(Packet):
    __bisturi__ = dict(OPT, align=2)
    a = Int(1)
    b = Int(1)
    c = Data(3)
    tail = Em()
REG['M16'] = M16
""", {"M16": lambda ch, u: _b(u.byte()) + b"." + _b(u.byte()) + b"." + u.bytes(3) + b"."})

# 17
decl("autolength", """
class A17(Packet):
    __bisturi__ = OPT
    length = Int(1).describe(AutoLength('d'))
    d = Data(length)
    t = Int(1)
REG['A17'] = A17
""", {"A17": lambda ch, u: (lambda n: _b(n) + u.bytes(n) + _b(u.byte()))(ch.draw("n", 5))})

# 18
decl("nest3", """
class In18(Packet):
    __bisturi__ = OPT
    v = Int(1).repeated(2)

class Mid18(Packet):
    __bisturi__ = OPT
    n = Int(1)
    ins = Ref(In18).repeated(n)

class Out18(Packet):
    __bisturi__ = OPT
    m = Int(1)
    mids = Ref(Mid18).repeated(m)
    t = Int(1)
REG['In18'] = In18
REG['Mid18'] = Mid18
REG['Out18'] = Out18
""", {"Out18": lambda ch, u: (lambda m: _b(m) + b"".join((lambda n: _b(n) + u.bytes(2 * n))(ch.draw("n", 3)) for _ in range(m)))(ch.draw("m", 3)) + _b(u.byte())})

# 19  related classes: one sub-packet class and one prototype instance shared by two outer classes
decl("related", """
class Sub19(Packet):
    __bisturi__ = OPT
    k = Int(1)
    body = Data(k)

proto19 = Sub19(k=2, body=b'hi')

class RA19(Packet):
    __bisturi__ = OPT
    head = Int(1)
    sub = Ref(proto19)

class RB19(Packet):
    __bisturi__ = OPT
    sub = Ref(proto19)
    items = Ref(Sub19).repeated(2)
REG['Sub19'] = Sub19
REG['RA19'] = RA19
REG['RB19'] = RB19
REG['@proto19'] = proto19
""", {"RA19": lambda ch, u: _b(u.byte()) + (lambda n: _b(n) + u.bytes(n))(ch.draw("n", 4)),
      "RB19": lambda ch, u: b"".join((lambda n: _b(n) + u.bytes(n))(ch.draw("n", 4)) for _ in range(3))})

# 20  the same shapes defined inside a function: Prototype falls back from pickle to deepcopy
decl("funclevel", """
def make20():
    class Pt20(Packet):
        __bisturi__ = OPT
        x = Int(1)
        y = Int(1)

    class Bag20(Packet):
        __bisturi__ = OPT
        num = Int(1)
        objs = Int(1).repeated(num)

    origin20 = Pt20(x=5)
    bag20 = Bag20(num=2, objs=[1, 2])

    class F20(Packet):
        __bisturi__ = OPT
        t = Int(1)
        p = Ref(origin20)
        b = Ref(bag20)
        bags = Ref(Bag20).repeated(2, default=[Bag20(num=1, objs=[4]), Bag20()])
        opt = Ref(Pt20).when(t == 1, default=Pt20(y=6))
    REG['Pt20'] = Pt20
    REG['Bag20'] = Bag20
    REG['F20'] = F20
    REG['@origin20'] = origin20
    REG['@bag20'] = bag20
make20()
""", {"F20": lambda ch, u: (lambda x: _b(x) + u.bytes(2) + (lambda n: _b(n) + u.bytes(n))(ch.draw("n", 3)) + b"".join((lambda n: _b(n) + u.bytes(n))(ch.draw("n", 3)) for _ in range(2)) + (u.bytes(2) if x == 1 else b""))(1 + ch.draw("x", 2))}, func=True)

# 21
decl("searchwindow", """
class D21(Packet):
    __bisturi__ = dict(OPT, search_buffer_length=8)
    d = Data(until_marker=b'\\x00')
    t = Int(1)
REG['D21'] = D21
""", {"D21": lambda ch, u: u.bytes(ch.draw("n", 7)) + b"\x00" + _b(u.byte())})

# 22
decl("noconsume", """
class D22(Packet):
    __bisturi__ = OPT
    d = Data(until_marker=b';', consume_delimiter=False)
    sep = Data(1)
    t = Int(1)
REG['D22'] = D22
""", {"D22": lambda ch, u: u.bytes(ch.draw("n", 4)) + b";" + _b(u.byte())})

# 23
decl("callables", """
class C23(Packet):
    __bisturi__ = OPT
    n = Int(1)
    d = Data(lambda pkt, **k: pkt.n)
    items = Int(1).repeated(lambda pkt, **k: pkt.n)
REG['C23'] = C23
""", {"C23": lambda ch, u: (lambda n: _b(n) + u.bytes(2 * n))(ch.draw("n", 4))})

# 24
decl("exprs", """
class X24(Packet):
    __bisturi__ = OPT
    a = Int(1)
    b = Int(1)
    d = Data((a > b).if_true_then_else(a - b, b - a))
    e = Data(((a + b) * 2) % 3 + 1)
REG['X24'] = X24
""", {"X24": lambda ch, u: (lambda a, b: _b(a, b) + u.bytes(abs(a - b)) + u.bytes(((a + b) * 2) % 3 + 1))(ch.draw("a", 5), ch.draw("b", 5))})

# 25  regex delimiter inside a repeated sub-packet and behind an optional
decl("regexnested", """
class Line25(Packet):
    __bisturi__ = OPT
    text = Data(until_marker=re.compile(b'\\r?\\n'))

class Doc25(Packet):
    __bisturi__ = OPT
    n = Int(1)
    lines = Ref(Line25).repeated(n)
    last = Data(until_marker=re.compile(b'[;,]')).when(n)
    t = Int(1)
REG['Line25'] = Line25
REG['Doc25'] = Doc25
""", {"Doc25": lambda ch, u: (lambda n: _b(n) + b"".join(u.bytes(1 + ch.draw("len", 3)) + [b"\n", b"\r\n"][ch.draw("eol", 2)] for _ in range(n)) + ((u.bytes(2) + [b";", b","][ch.draw("delim", 2)]) if n else b""))(ch.draw("n", 3)) + _b(u.byte())})


# 26  mutable defaults at depth two: the classes that own an optional default object / a default list are
#     themselves cloned as prototypes of a Ref (and of a repeated Ref) of an outer class; one feature per
#     class, so that a shortcut taken for "simple" classes meets each feature alone
def _opt26(ch, u):
    f = ch.draw("flag", 2)
    return _b(f) + (_b(u.byte()) if f else b"")


def _lst26(ch, u):
    f = ch.draw("count", 3)
    return _b(f) + bytes(u.byte() for _ in range(f)) + u.bytes(2)


_SRC26 = """
class In26(Packet):
    __bisturi__ = OPT
    v = Int(1)

class Opt26(Packet):
    __bisturi__ = OPT
    flag = Int(1)
    extra = Ref(In26).when(flag, default=In26(v=5))

class Lst26(Packet):
    __bisturi__ = OPT
    count = Int(1)
    lst = Ref(In26).repeated(count, default=[In26(v=1), In26(v=2)])
    nums = Int(1).repeated(2, default=[3, 4])

class Top26(Packet):
    __bisturi__ = OPT
    id = Int(1)
    opt = Ref(Opt26)
    opt1 = Ref(Opt26(flag=1))
    lst = Ref(Lst26)
    many = Ref(Opt26).repeated(1, default=[Opt26()])
REG['In26'] = In26
REG['Opt26'] = Opt26
REG['Lst26'] = Lst26
REG['Top26'] = Top26
"""
decl("deepdefaults", _SRC26, {"Top26": lambda ch, u: _b(u.byte()) + _opt26(ch, u) + _opt26(ch, u) + _lst26(ch, u) + _opt26(ch, u),
                              "Opt26": _opt26, "Lst26": _lst26})

# 27  the same inside a function (deepcopy-based prototypes)
decl("deepdefaultsfunc", "def make27():\n" + "".join("    " + l + "\n" if l else "\n" for l in _SRC26.replace("26", "27").split("\n")) + "make27()\n",
     {"Top27": lambda ch, u: _b(u.byte()) + _opt26(ch, u) + _opt26(ch, u) + _lst26(ch, u) + _opt26(ch, u)}, func=True)

# 28  a repeated Ref whose selector returns a field for some packets and a packet for others
decl("mixedseq", """
class E28(Packet):
    __bisturi__ = OPT
    k = Int(1)
    v = Data(k)

class Mix28(Packet):
    __bisturi__ = OPT
    type = Int(1, default=1)
    n = Int(1)
    items = Ref(type.chooses({1: Int(1), 2: E28(), 3: Data(2)}), default=0).repeated(n)
    t = Int(1)
REG['E28'] = E28
REG['Mix28'] = Mix28
""", {"Mix28": lambda ch, u: (lambda ty, n: _b(ty, n) + b"".join(
        (_b(u.byte()) if ty == 1 else (lambda k: _b(k) + u.bytes(k))(ch.draw("k", 3)) if ty == 2 else u.bytes(2)) for _ in range(n)) + _b(u.byte()))(
            1 + ch.draw("type", 3), ch.draw("n", 3))})

# 29  a user-written field (docs/reference/10_field_in_deep.md) whose Python object is a dict, also behind when()
def _opts29(ch, u):
    return b"".join(_b(1 + ch.draw("tag", 9)) + (lambda n: _b(n) + u.bytes(n))(ch.draw("vlen", 3)) for _ in range(ch.draw("nopts", 3))) + b"\x00"


decl("userfield", """
class Opts29(Field):
    def __init__(self, default=None):
        Field.__init__(self)
        self.default = {} if default is None else default

    def unpack(self, pkt, raw, offset=0, **k):
        d = {}
        while True:
            tag = raw[offset]
            offset += 1
            if tag == 0:
                break
            n = raw[offset]
            v = raw[offset + 1:offset + 1 + n]
            if len(v) != n:
                raise Exception("short option")
            d[tag] = v
            offset += 1 + n
        setattr(pkt, self.field_name, d)
        return offset

    def pack(self, pkt, fragments, **k):
        d = getattr(pkt, self.field_name)
        fragments.append(b"".join(bytes([t, len(v)]) + v for t, v in sorted(d.items())) + b"\\x00")
        return fragments

class U29(Packet):
    __bisturi__ = OPT
    kind = Int(1)
    opts = Opts29()
    more = Opts29().when(kind, default={7: b'!'})
    tail = Int(1)
REG['U29'] = U29
""", {"U29": lambda ch, u: (lambda kind: _b(kind) + _opts29(ch, u) + (_opts29(ch, u) if kind else b"") + _b(u.byte()))(ch.draw("kind", 2))})

# 30  defaults given as a tuple of packets (a user may well write a tuple where the docs write a list)
decl("tupledefault", """
class Pt30(Packet):
    __bisturi__ = OPT
    x = Int(1)
    y = Int(1)

class Seg30(Packet):
    __bisturi__ = OPT
    ends = Ref(Pt30).repeated(2, default=(Pt30(x=1, y=2), Pt30(x=3, y=4)))
    t = Int(1)
REG['Pt30'] = Pt30
REG['Seg30'] = Seg30
""", {"Seg30": lambda ch, u: u.bytes(5)})

# 31  the same field OBJECTS used in the bodies of two classes (a helper that returns ready-made fields)
decl("sharedfields", """
hdr31 = [Int(1), Data(until_marker=re.compile(b'[;,]')), Int(2).repeated(2)]

class A31(Packet):
    __bisturi__ = OPT
    kind = hdr31[0]
    name = hdr31[1]
    pair = hdr31[2]

class B31(Packet):
    __bisturi__ = OPT
    kind = hdr31[0]
    name = hdr31[1]
    pair = hdr31[2]
    extra = Int(1)
REG['A31'] = A31
REG['B31'] = B31
""", {"A31": lambda ch, u: _b(u.byte()) + u.bytes(1 + ch.draw("n", 3)) + [b";", b","][ch.draw("delim", 2)] + u.bytes(4),
      "B31": lambda ch, u: _b(u.byte()) + u.bytes(1 + ch.draw("n", 3)) + [b";", b","][ch.draw("delim", 2)] + u.bytes(4) + _b(u.byte())})

# 32  callables that look at the raw buffer, the offset and the root packet
decl("rawcallables", """
class In32(Packet):
    __bisturi__ = OPT
    v = Int(1).repeated(lambda pkt, root, **k: root.n)

class C32(Packet):
    __bisturi__ = OPT
    n = Int(1)
    d = Data(lambda pkt, raw, offset, **k: raw[offset - 1] + 1)
    inner = Ref(In32)
    rest = Data(lambda pkt, raw, offset, **k: len(raw) - offset)
REG['In32'] = In32
REG['C32'] = C32
""", {"C32": lambda ch, u: (lambda n: _b(n) + u.bytes(n + 1) + u.bytes(n) + u.bytes(ch.draw("rest", 4)))(ch.draw("n", 4))})

# 33  a class with constant positioning relative to the innermost packet, used standalone, nested at another offset
#     and as the element of a sequence (so one Move object serves packets that start at different offsets)
def _rec33(ch, u):
    n = ch.draw("n", 6)
    return _b(n) + u.bytes(n) + b"." * (7 - n) + u.bytes(2) + b"." * ((-(10)) % 4) + u.bytes(1)


decl("positionednested", """
class Rec33(Packet):
    __bisturi__ = OPT
    n = Int(1)
    name = Data(n)
    body = Data(2).at(8)
    tail = Data(1).aligned(4, 'innermost-pkt')

class Framed33(Packet):
    __bisturi__ = OPT
    magic = Data(2)
    rec = Ref(Rec33)
    t = Int(1)

class Seq33(Packet):
    __bisturi__ = OPT
    k = Int(1)
    recs = Ref(Rec33).repeated(k)
REG['Rec33'] = Rec33
REG['Framed33'] = Framed33
REG['Seq33'] = Seq33
""", {"Rec33": _rec33,
      "Framed33": lambda ch, u: u.bytes(2) + _rec33(ch, u) + _b(u.byte()),
      "Seq33": lambda ch, u: (lambda k: _b(k) + b"".join(_rec33(ch, u) for _ in range(k)))(ch.draw("k", 3))})

# 34  embed=True (the docs call it experimental): the embedded Ref is not set by unpack on the pinned tree; whatever an
#     implementation decides to put there must not be an object shared between packets
decl("embedded", """
class Pt34(Packet):
    __bisturi__ = OPT
    x = Int(1)
    y = Int(1)

class P34(Packet):
    __bisturi__ = OPT
    point_2d = Ref(Pt34(x=1, y=2), embed=True)
    z = Int(1)
REG['Pt34'] = Pt34
REG['P34'] = P34
""", {"P34": lambda ch, u: u.bytes(3)})

# 35  layouts decided by field VALUES, possibly backwards (docs/reference/11: `.at(field)`, negative `.shift`): the field
#     packed last is then not the one lying furthest, and the packets have holes; whatever buffers serialisation keeps
#     between calls, one packet's bytes must never show through another packet's holes
def _sec35(ch, u):
    offs = [(2, 5), (2, 9), (6, 2), (9, 2), (4, 7), (8, 3), (2, 4), (7, 4)][ch.draw("offsets", 8)]
    buf = bytearray(b"." * (max(offs) + 2))
    buf[0], buf[1] = offs
    buf[offs[0]:offs[0] + 2] = u.bytes(2)
    buf[offs[1]:offs[1] + 2] = u.bytes(2)
    return bytes(buf)


decl("sections", """
class S35(Packet):
    __bisturi__ = OPT
    off_a = Int(1, default=2)
    off_b = Int(1, default=6)
    a = Data(2).at(off_a)
    b = Data(2).at(off_b)

class B35(Packet):
    __bisturi__ = OPT
    i = Int(1).at(4)
    d = Data(4).shift(-4 - 1)

class G35(Packet):
    __bisturi__ = OPT
    k = Int(1)
    body = Data(2).at(6)
    tail = Int(1).aligned(4)
REG['S35'] = S35
REG['B35'] = B35
REG['G35'] = G35
""", {"S35": _sec35,
      "B35": lambda ch, u: u.bytes(4) + _b(u.byte()),
      "G35": lambda ch, u: _b(u.byte()) + b"." * 5 + u.bytes(2) + _b(u.byte())})

# 36  one chooses-table of field instances shared by the Refs of two classes whose options differ (endianness): whatever
#     a table entry learns when it is first used must not depend on which class used it first
def _sh36(ch, u):
    k = 1 + ch.draw("kind", 3)
    return _b(k) + (u.bytes([2, 4, 3][k - 1]) if k != 3 else u.bytes(2) + b";") + _b(u.byte())


decl("sharedtable", """
SIZES36 = {1: Int(2), 2: Int(4), 3: Data(until_marker=b';')}

class Big36(Packet):
    __bisturi__ = OPT
    kind = Int(1, default=1)
    value = Ref(kind.chooses(SIZES36), default=0)
    t = Int(1)

class Little36(Packet):
    __bisturi__ = dict(OPT, endianness='little')
    kind = Int(1, default=1)
    value = Ref(kind.chooses(SIZES36), default=0)
    t = Int(1)
REG['Big36'] = Big36
REG['Little36'] = Little36
""", {"Big36": _sh36, "Little36": _sh36})


BY_NAME = {d["name"]: d for d in POOL}

HEADER = """from bisturi.packet import Packet
from bisturi.field import Int, Data, Bits, Ref, Em, Field
from bisturi.descriptor import Auto, AutoLength
import re
REG = {}
"""


def source_for(names, opt):
    return HEADER + "OPT = %r\n" % (opt,) + "".join(BY_NAME[n]["src"] for n in names)
