"""Fork pool, per-run seeds, exit codes, evidence writer, replay files, known-findings matcher.

Exit codes:  0 held on everything explored / 1 VIOLATION (not a listed finding) / 2 HARNESS-ERROR.
"""
import array
import atexit
import collections
import concurrent.futures
import faulthandler
import hashlib
import json
import multiprocessing
import os
import shutil
import subprocess
import sys
import tempfile
import time
import traceback

from .chooser import Chooser, run_seed
from .shrink import shrink, shrink_streams

VERIF = os.path.dirname(os.path.dirname(os.path.abspath(__file__)))
REPO = os.environ.get("BSIM_REPO", "/repo")
PY = sys.executable

_SCRATCH = None
_OWNER_PID = None


# ---------------------------------------------------------------------------------------
# scratch + snapshot of the tree under test
# ---------------------------------------------------------------------------------------
def scratch_root():
    """per-check scratch directory on tmpfs, removed at exit by the process that made it"""
    global _SCRATCH, _OWNER_PID
    if _SCRATCH is None:
        base = "/dev/shm" if os.path.isdir("/dev/shm") and os.access("/dev/shm", os.W_OK) else tempfile.gettempdir()
        # fixed-length names everywhere below: path lengths end up in .pyc sizes (co_filename), hence in the
        # simulated write sizes, so they must not depend on how many digits a pid has
        _SCRATCH = os.path.join(base, "bsim-%07d" % os.getpid())
        shutil.rmtree(_SCRATCH, ignore_errors=True)
        os.makedirs(_SCRATCH)
        _OWNER_PID = os.getpid()
        atexit.register(_cleanup)
    return _SCRATCH


def _cleanup():
    if _SCRATCH and os.getpid() == _OWNER_PID:
        shutil.rmtree(_SCRATCH, ignore_errors=True)


def snapshot_tree():
    """copy /repo/bisturi (current working tree) into scratch; that copy is what every run imports.
    Returns (path to put on sys.path, digest of the sources)."""
    dst = os.path.join(scratch_root(), "tree")
    pkg = os.path.join(dst, "bisturi")
    if os.path.isdir(pkg):
        shutil.rmtree(pkg)
    os.makedirs(pkg)
    h = hashlib.sha256()
    src = os.path.join(REPO, "bisturi")
    for fn in sorted(os.listdir(src)):
        if fn.endswith(".py"):
            data = open(os.path.join(src, fn), "rb").read()
            h.update(fn.encode() + b"\0" + data + b"\0")
            with open(os.path.join(pkg, fn), "wb") as f:
                f.write(data)
    # byte-compile the snapshot once, so that the per-run "fresh import of bisturi" costs ~1 ms
    import compileall
    compileall.compile_dir(pkg, quiet=2, workers=1)
    return dst, h.hexdigest()[:16]


def purge_modules(prefixes):
    for name in [m for m in sys.modules if any(m == p or m.startswith(p + ".") or (p.endswith("_") and m.startswith(p)) for p in prefixes)]:
        del sys.modules[name]


class _OptimisingFinder:
    """meta-path finder that loads bisturi from the snapshot compiled as `python -O` would (asserts and
    `if __debug__` blocks removed): the simulated process runs under another optimisation level"""

    def __init__(self, tree, optimize):
        self.tree, self.optimize = tree, optimize

    def find_spec(self, name, path=None, target=None):
        if name != "bisturi" and not name.startswith("bisturi."):
            return None
        import importlib.machinery
        import importlib.util
        rel = name.split(".")
        base = os.path.join(self.tree, *rel)
        optimize = self.optimize

        class Loader(importlib.machinery.SourceFileLoader):
            def get_code(self, fullname):
                with open(self.path, "rb") as f:
                    return compile(f.read(), self.path, "exec", dont_inherit=True, optimize=optimize)
        from . import fsseam
        real = fsseam.REAL_SFL
        Loader.__bases__ = (real,)
        if os.path.isdir(base):
            fn = os.path.join(base, "__init__.py")
            return importlib.util.spec_from_file_location(name, fn, loader=Loader(name, fn), submodule_search_locations=[base])
        fn = base + ".py"
        if os.path.exists(fn):
            return importlib.util.spec_from_file_location(name, fn, loader=Loader(name, fn))
        return None


def import_fresh_bisturi(tree, optimize=0):
    """a brand-new copy of the bisturi package imported from the snapshot"""
    if not sys.path or sys.path[0] != tree:
        if tree in sys.path:
            sys.path.remove(tree)
        sys.path.insert(0, tree)
    purge_modules(["bisturi"])
    import importlib
    importlib.invalidate_caches()
    finder = None
    if optimize:
        finder = _OptimisingFinder(tree, optimize)
        sys.meta_path.insert(0, finder)
    try:
        import bisturi  # noqa
        import bisturi.packet, bisturi.field  # noqa
        for extra in ("bisturi.structural_fields", "bisturi.descriptor", "bisturi.fragments"):
            try:
                importlib.import_module(extra)
            except ImportError:
                pass                     # a tree organised differently; the engines import what they need by name
    finally:
        if finder is not None:
            sys.meta_path.remove(finder)
    assert bisturi.__file__.startswith(tree), (bisturi.__file__, tree)
    return sys.modules["bisturi"]


# ---------------------------------------------------------------------------------------
class Outcome:
    """what one simulated run produced"""
    __slots__ = ("violation", "events", "stats", "case_sig", "sched_sig", "state_sigs", "nontrivial",
                 "sample", "sim_time", "steps", "inconclusive", "replay_scenario")

    def __init__(self):
        self.violation = None      # None or dict(oracle=..., actor=..., detail=...)
        self.events = []           # human readable, deterministic event log
        self.stats = collections.Counter()   # faults fired, probes hit
        self.case_sig = None       # digest of the abstract case (history); distinctness measure
        self.sched_sig = None      # digest of schedule decisions (interleaving)
        self.state_sigs = ()       # digests of states reached
        self.nontrivial = False
        self.sample = None
        self.sim_time = 0.0
        self.steps = 0
        self.inconclusive = None
        self.replay_scenario = None   # set when the run found a smaller scenario that reproduces its violation

    def event_digest(self):
        return hashlib.sha256("\n".join(self.events).encode()).hexdigest()[:16]

    def vclass(self):
        v = self.violation
        return None if v is None else (v["oracle"], v.get("actor", ""))


class HarnessError(Exception):
    pass


def _h64(s):
    return int.from_bytes(hashlib.blake2b(s.encode() if isinstance(s, str) else s, digest_size=8).digest(), "big")


# ---------------------------------------------------------------------------------------
# worker side
# ---------------------------------------------------------------------------------------
_W = {}


def _worker_init(engine_name, tree, scratch):
    from . import engines
    faulthandler.enable()
    eng = engines.get(engine_name)
    wdir = os.path.join(scratch, "w%07d" % os.getpid())
    os.makedirs(wdir, exist_ok=True)
    eng.init_worker(tree, wdir)
    _W["eng"] = eng


def _work(job):
    tier, seed, start, stop, watchdog, sample_idx = job
    eng = _W["eng"]
    res = {"n": 0, "stats": collections.Counter(), "cases": array.array("Q"), "scheds": array.array("Q"),
           "states": array.array("Q"), "violations": [], "samples": [], "sim_time": 0.0, "steps": 0,
           "inconclusive": 0, "trivial": 0, "digests": {}}
    for idx in range(start, stop):
        faulthandler.dump_traceback_later(watchdog, exit=True)
        sc = eng.scenario(tier, idx)
        ch = Chooser(seed=run_seed(eng.prop, seed, idx))
        try:
            out = eng.execute(sc, ch)
        except Exception:
            faulthandler.cancel_dump_traceback_later()
            return {"harness_error": "run %d of %s: %s" % (idx, eng.prop, traceback.format_exc()), "draws": ch.values(), "scenario": sc}
        faulthandler.cancel_dump_traceback_later()
        res["n"] += 1
        if idx in sample_idx:
            res["digests"][idx] = out.event_digest() + ":" + hashlib.sha256(repr(ch.values()).encode()).hexdigest()[:8]
        res["stats"].update(out.stats)
        res["sim_time"] += out.sim_time
        res["steps"] += out.steps
        if out.inconclusive:
            res["inconclusive"] += 1
        if out.nontrivial and out.case_sig is not None:
            res["cases"].append(_h64(out.case_sig))
        else:
            res["trivial"] += 1
        if out.sched_sig is not None:
            res["scheds"].append(_h64(out.sched_sig))
        for s in out.state_sigs:
            res["states"].append(_h64(s))
        if len(res["samples"]) < 1 and out.nontrivial and out.sample is not None:
            res["samples"].append({"run": idx, "case": out.sample})
        if out.violation is not None:
            res["violations"].append({"run": idx, "scenario": out.replay_scenario or sc, "draws": ch.values(), "violation": out.violation,
                                      "events": out.events[-200:], "event_digest": out.event_digest()})
    # local dedup of states (few distinct values, many repeats)
    res["states"] = array.array("Q", set(res["states"]))
    return res


def _distinct(arr):
    buckets = [[] for _ in range(256)]
    for v in arr:
        buckets[v & 0xFF].append(v)
    return sum(len(set(b)) for b in buckets)


# ---------------------------------------------------------------------------------------
# replay of one recorded case in this interpreter
# ---------------------------------------------------------------------------------------
def replay_values(eng, scenario, values):
    ch = Chooser(replay=values)
    out = eng.execute(scenario, ch)
    return out, ch.values()


def load_known_findings():
    p = os.path.join(VERIF, "known_findings.json")
    if not os.path.exists(p):
        return []
    return json.load(open(p))["findings"]


# ---------------------------------------------------------------------------------------
def run_check(eng, tier, jobs=None, runs=None, quiet=False):
    t0 = time.time()
    seed = int(os.environ.get("VERIF_SEED", "0") or 0)
    jobs = jobs or int(os.environ.get("BSIM_JOBS", "0") or 0) or min(16, os.cpu_count() or 1)
    total = runs if runs is not None else eng.runs(tier)
    tree, tree_digest = snapshot_tree()
    scratch = scratch_root()
    print("check %s tier=%s VERIF_SEED=%d runs=%d workers=%d engine=%s tree=%s" % (eng.prop, tier, seed, total, jobs, eng.name, tree_digest), flush=True)

    agg = {"n": 0, "stats": collections.Counter(), "cases": array.array("Q"), "scheds": array.array("Q"),
           "states": array.array("Q"), "violations": [], "samples": [], "sim_time": 0.0, "steps": 0, "inconclusive": 0,
           "trivial": 0}
    harness_error = None
    # determinism prefix: a sample of the runs is recomputed in a fresh interpreter under another
    # PYTHONHASHSEED while the pool works; the event-log digests must agree
    nsample = 0 if os.environ.get("BSIM_NO_DETERMINISM_PREFIX") else min(total, 10 if tier == "quick" else 40)
    sample_idx = frozenset((i * total) // nsample for i in range(nsample)) if nsample else frozenset()
    fresh = None
    if sample_idx:
        fresh = subprocess.Popen([PY, os.path.join(VERIF, "check"), "digest", eng.prop, "--tier", tier, "--seed", str(seed),
                                  "--indices", ",".join(str(i) for i in sorted(sample_idx))], stdout=subprocess.PIPE, stderr=subprocess.PIPE,
                                 text=True, env=dict(os.environ, PYTHONHASHSEED="1", BSIM_KEEP_HASHSEED="1", BSIM_REPO=REPO))
    pool_digests = {}
    chunk = eng.chunk(tier)
    wave = chunk * jobs * 4
    watchdog = eng.watchdog_s
    ctx = multiprocessing.get_context("fork")
    extra = {}
    try:
        with concurrent.futures.ProcessPoolExecutor(max_workers=jobs, mp_context=ctx, initializer=_worker_init,
                                                    initargs=(eng.name, tree, scratch)) as pool:
            pos = 0
            while pos < total and not agg["violations"] and harness_error is None:
                end = min(total, pos + wave)
                jobs_list = [(tier, seed, s, min(end, s + chunk), watchdog, sample_idx) for s in range(pos, end, chunk)]
                for r in pool.map(_work, jobs_list):
                    if "harness_error" in r:
                        harness_error = r
                        break
                    agg["n"] += r["n"]
                    pool_digests.update(r["digests"])
                    agg["stats"].update(r["stats"])
                    agg["cases"].extend(r["cases"])
                    agg["scheds"].extend(r["scheds"])
                    agg["states"].extend(r["states"])
                    agg["violations"].extend(r["violations"])
                    agg["sim_time"] += r["sim_time"]
                    agg["steps"] += r["steps"]
                    agg["inconclusive"] += r["inconclusive"]
                    agg["trivial"] += r["trivial"]
                    if len(agg["samples"]) < 3:
                        agg["samples"].extend(r["samples"])
                pos = end
            if harness_error is None and not agg["violations"]:
                extra = eng.extra_phase(tier, seed, pool, tree, scratch) or {}
                agg["violations"].extend(extra.pop("violations", []))
    except concurrent.futures.process.BrokenProcessPool as e:
        harness_error = {"harness_error": "worker died (watchdog or crash): %r" % (e,)}

    determinism = None
    if fresh is not None:
        try:
            so, se = fresh.communicate(timeout=600)
            other = {int(k): v for k, v in json.loads(so.strip().splitlines()[-1]).items()} if fresh.returncode == 0 else None
        except Exception as e:
            fresh.kill()
            other, se = None, repr(e)
        if harness_error is None and not agg["violations"]:
            if other is None:
                harness_error = {"harness_error": "determinism prefix: the fresh interpreter failed: %s" % (se or "")[-600:]}
            else:
                bad = [i for i in sorted(pool_digests) if other.get(i) != pool_digests[i]]
                determinism = {"runs_recomputed_in_fresh_interpreter": len(pool_digests), "other_PYTHONHASHSEED": 1, "digest_mismatches": len(bad)}
                if bad:
                    harness_error = {"harness_error": "determinism prefix: runs %s have different event-log digests in a fresh interpreter "
                                                      "(PYTHONHASHSEED=1) than in the worker pool: the simulation is not a pure function of the seed" % bad[:10]}
    if harness_error is not None:
        print("HARNESS-ERROR property=%s %s" % (eng.prop, harness_error["harness_error"]), flush=True)
        if "draws" in harness_error:
            print("  scenario=%r\n  draws=%r" % (harness_error["scenario"], harness_error["draws"]))
        return 2

    # ---- violations: minimise, write replay, attribute -------------------------------
    eng.init_worker(tree, os.path.join(scratch, "wMAIN000"))
    reported = []
    known = [k for k in load_known_findings() if k["property"] == eng.prop]
    open_known = [k for k in known if k.get("status") == "open"]
    known_hits = collections.Counter()
    agg["violations"].sort(key=lambda v: v["run"])
    seen_classes = set()
    for v in agg["violations"]:
        cls = (v["violation"]["oracle"], v["violation"].get("actor", ""))
        if cls in seen_classes:
            continue
        seen_classes.add(cls)
        if len(seen_classes) > 4:
            break
        rp = minimise_and_write(eng, v, seed, tier, tree_digest)
        kf = eng.attribute(rp, open_known) if open_known else None
        if kf is not None:
            known_hits[kf["id"]] += 1
        else:
            reported.append(rp)

    wall = time.time() - t0
    distinct_cases = _distinct(agg["cases"])
    distinct_scheds = _distinct(agg["scheds"])
    distinct_states = _distinct(agg["states"])
    cov = {
        "evaluations": agg["n"],
        "distinct_nontrivial": distinct_cases,
        "rule": eng.rule,
        "samples": agg["samples"][:3],
        "exhaustive": False,
        "runs_per_hour": int(agg["n"] / wall * 3600) if wall > 0 else 0,
        "seeds": {"VERIF_SEED": seed, "run_indices": [0, agg["n"] - 1], "derivation": "sha256(property|VERIF_SEED|run index)"},
        "distinct_interleavings": distinct_scheds,
        "distinct_states": distinct_states,
        "simulated_time_s": round(agg["sim_time"], 3),
        "scheduler_steps": agg["steps"],
        "faults_fired": {k[6:]: v for k, v in sorted(agg["stats"].items()) if k.startswith("fault:")},
        "probes_hit": {k[6:]: v for k, v in sorted(agg["stats"].items()) if k.startswith("probe:")},
        "counters": {k: v for k, v in sorted(agg["stats"].items()) if not k.startswith(("fault:", "probe:"))},
        "inconclusive_runs": agg["inconclusive"],
        "trivial_runs": agg["trivial"],
        "real_components": eng.real_components,
        "stub_components": eng.stub_components,
        "tree_digest": tree_digest,
        "workers": jobs,
        "known_findings_matched": dict(known_hits),
        "determinism_check": determinism,
    }
    zero = [p for p in eng.expected_probes if agg["stats"].get("probe:" + p, 0) == 0]
    cov["reach_warnings"] = zero
    if agg["stats"].get("fidelity-runs"):
        cov["traces_validated_against_impl"] = agg["stats"]["fidelity-runs"]
        cov["fidelity"] = ("%d end states re-run by a REAL python process (tools/realproc.py) and by a fresh simulated process: same outcome per class "
                           "(definition raised?, behaviour digest, code digests) and same generated sources in all of them" % agg["stats"]["fidelity-runs"])
    cov.update(extra)
    if cov.get("exhaustive_part"):
        cov["explanation"] = cov.get("explanation", "")
    ev = {
        "property_id": eng.prop, "tier": tier, "seed": seed, "level": eng.level, "coverage": cov,
        "assumptions": eng.assumptions, "wall_s": round(wall, 2), "violations": len(reported),
    }
    evdir = os.path.join(VERIF, "evidence") if not os.environ.get("BSIM_NO_EVIDENCE") else os.path.join(scratch, "evidence")
    os.makedirs(evdir, exist_ok=True)
    with open(os.path.join(evdir, "%s.json" % eng.prop), "w") as f:
        json.dump(ev, f, indent=1, sort_keys=True, default=str)
        f.write("\n")

    for k in open_known:
        if known_hits.get(k["id"]):
            print("KNOWN-FINDING: property=%s %s" % (eng.prop, k["what"]))
    print("%s: %d runs, %d distinct non-trivial cases, %d interleavings, %d states, faults=%s, %.1fs (%.0f runs/h)" % (
        eng.prop, agg["n"], distinct_cases, distinct_scheds, distinct_states, cov["faults_fired"], wall, cov["runs_per_hour"]), flush=True)
    if zero and not quiet:
        print("reach-warning: probes at zero: %s" % ", ".join(zero))
    if reported:
        for rp in reported:
            print("VIOLATION property=%s replay=%s" % (eng.prop, rp["path"]))
            print("  oracle=%s actor=%s detail=%s" % (rp["violation"]["oracle"], rp["violation"].get("actor"), rp["violation"].get("detail")))
        return 1
    print("OK property=%s" % eng.prop)
    return 0


def minimise_and_write(eng, v, seed, tier, tree_digest, budget=None):
    scenario = v["scenario"]
    want = (v["violation"]["oracle"], v["violation"].get("actor", ""))

    def test(values):
        try:
            out, canon = replay_values(eng, scenario, values)
        except Exception:
            return False, values
        return (out.vclass() == want), canon

    # first make sure the recorded draws reproduce at all in this process
    ok, canon = test(v["draws"])
    minimised = False
    values = v["draws"]
    if ok:
        values, calls = shrink_streams(canon, test, budget or eng.shrink_budget)
        minimised = True
        values, scenario = eng.shrink_scenario(scenario, values, test_factory=lambda sc: (lambda vals: _test_sc(eng, sc, vals, want)))
    out, canon = replay_values(eng, scenario, values)
    canon = {k: v for k, v in ((k, _trim0(v)) for k, v in canon.items()) if v} if isinstance(canon, dict) else canon
    rp = {
        "property": eng.prop, "engine": eng.name, "verif_seed": seed, "tier": tier, "run": v["run"],
        "tree_digest": tree_digest, "scenario": scenario, "draws": canon,
        "labelled_draws": Chooser_labelled(eng, scenario, canon),
        "violation": out.violation if out.violation is not None else v["violation"],
        "event_digest": out.event_digest(), "minimised": minimised, "reproduced_in_process": bool(ok),
        "original_draw_count": sum(len(x) for x in v["draws"].values()), "minimised_draw_count": sum(len(x) for x in canon.values()),
        "events": out.events[-300:],
    }
    rdir = os.environ.get("BSIM_REPLAY_DIR") or (os.path.join(VERIF, "replays") if not os.environ.get("BSIM_NO_EVIDENCE") else os.path.join(scratch_root(), "replays"))
    os.makedirs(rdir, exist_ok=True)
    path = os.path.join(rdir, "%s-%d-%d.json" % (eng.prop, seed, v["run"]))
    with open(path, "w") as f:
        json.dump(rp, f, indent=1, default=str)
        f.write("\n")
    rp["path"] = path
    # the minimised trace must reproduce in a fresh interpreter
    r = subprocess.run([PY, os.path.join(VERIF, "check"), "replay", path, "--quiet"], capture_output=True, text=True,
                       timeout=300, env=dict(os.environ, BSIM_REPO=REPO))
    rp["fresh_process_replay_exit"] = r.returncode
    if r.returncode != 1:
        print("note: fresh-process replay of %s exited %d: %s" % (path, r.returncode, (r.stdout + r.stderr)[-400:]))
    return rp


def _trim0(vs):
    vs = list(vs)
    while vs and vs[-1] == 0:
        vs.pop()
    return vs


def _test_sc(eng, sc, vals, want):
    try:
        out, canon = replay_values(eng, sc, vals)
    except Exception:
        return False, vals
    return (out.vclass() == want), canon


def Chooser_labelled(eng, scenario, values):
    ch = Chooser(replay=values)
    try:
        eng.execute(scenario, ch)
    except Exception:
        pass
    return ch.labelled()


def replay_file(eng_lookup, path, quiet=False):
    rp = json.load(open(path))
    from . import engines
    eng = engines.get(rp["engine"])
    tree, tree_digest = snapshot_tree()
    eng.init_worker(tree, os.path.join(scratch_root(), "wREPLAY0"))
    ch = Chooser(replay=rp["draws"])
    out = eng.execute(rp["scenario"], ch)
    want = (rp["violation"]["oracle"], rp["violation"].get("actor", ""))
    rec_labels = [tuple(x[:2]) for x in rp.get("labelled_draws", [])]
    now_labels = [tuple(x[:2]) for x in ch.record][:len(rec_labels)]
    if rec_labels and rec_labels[:len(now_labels)] != now_labels:
        print("note: the draw labels of this run differ from the recording: either the tree takes another path "
              "(expected after a fix) or the generator changed since the file was written")
    if not quiet:
        for e in out.events:
            print("  | " + e)
    if out.violation is not None:
        same = out.vclass() == want
        same_digest = out.event_digest() == rp.get("event_digest")
        print("VIOLATION property=%s replay=%s" % (rp["property"], os.path.abspath(path)))
        print("  oracle=%s actor=%s detail=%s" % (out.violation["oracle"], out.violation.get("actor"), out.violation.get("detail")))
        print("  same_violation_class=%s same_event_digest=%s tree_digest=%s (recorded %s)" % (same, same_digest, tree_digest, rp.get("tree_digest")))
        return 1
    print("NOT-REPRODUCED property=%s replay=%s (tree %s, recorded on %s)" % (rp["property"], path, tree_digest, rp.get("tree_digest")))
    return 0
