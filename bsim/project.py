"""Scratch projects: defining packet classes from source text in a throw-away directory.

A "project" is a directory holding small defining modules (and, beside them, the __pkts__ cache that
bisturi's code generator writes).  Modules are executed directly (compile + exec into a fresh module
object registered in sys.modules) instead of `import`, so that no importlib per-module lock is ever
held while a simulated process is parked in the middle of a class definition.
"""
import linecache
import os
import shutil
import sys
import types


def fresh_dir(path):
    shutil.rmtree(path, ignore_errors=True)
    os.makedirs(path)
    return path


def write_source(directory, modname, source):
    path = os.path.join(directory, modname + ".py")
    with open(path, "w") as f:
        f.write(source)
    linecache.cache.pop(path, None)
    return path


def exec_module(directory, modname, source=None, extra_globals=None):
    """define module `modname` from `directory/modname.py` (written first if source is given)"""
    path = os.path.join(directory, modname + ".py")
    if source is not None:
        write_source(directory, modname, source)
    else:
        with open(path) as f:
            source = f.read()
        linecache.cache.pop(path, None)
    mod = types.ModuleType(modname)
    mod.__file__ = path
    if extra_globals:
        mod.__dict__.update(extra_globals)
    sys.modules[modname] = mod
    code = compile(source, path, "exec", dont_inherit=True)
    exec(code, mod.__dict__)
    return mod


def purge(prefixes):
    """forget modules (and their linecache entries) whose name starts with one of the prefixes"""
    for name in [m for m in sys.modules if m.startswith(tuple(prefixes))]:
        mod = sys.modules.pop(name)
        f = getattr(mod, "__file__", None)
        if f:
            linecache.cache.pop(f, None)


HEADER = """from bisturi.packet import Packet
from bisturi.field import Int, Data, Bits, Ref, Em
from bisturi.descriptor import Auto, AutoLength
import re
"""


def visible_fields(pkt):
    """names of the value-bearing attributes of a packet, found without relying on bisturi internals: the public
    names in __slots__ along the MRO, plus class-level data descriptors that are not slot members (fields replaced by
    an Auto-like descriptor). Falls back to get_fields() for classes without __slots__."""
    cls = type(pkt)
    names = []
    seen = set()
    found_slots = False
    for k in reversed(cls.__mro__):
        sl = k.__dict__.get("__slots__")
        if sl is None:
            continue
        found_slots = True
        for n in ([sl] if isinstance(sl, str) else sl):
            if not n.startswith("_") and n not in seen:
                seen.add(n)
                names.append(n)
    if not found_slots:
        return [n for n, *_ in pkt.get_fields() if not n.startswith("_")]
    for k in reversed(cls.__mro__):
        if k is object:
            continue
        for n, v in k.__dict__.items():
            if n.startswith("_") or n in seen or isinstance(v, (types.MemberDescriptorType, types.FunctionType, classmethod, staticmethod, property)):
                continue
            tv = type(v)
            if hasattr(tv, "__get__") and hasattr(tv, "__set__"):
                seen.add(n)
                names.append(n)
    return names
