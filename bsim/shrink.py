"""Choice-sequence reduction.

`test(values) -> (same_violation: bool, canonical_values: list)` re-runs the engine with a
replaying Chooser.  A candidate is kept iff it yields the same violation class.  0 is always the
simplest draw, so the order of passes is: cut the tail, delete chunks, zero chunks, lower values.
"""


def _trim(vs):
    vs = list(vs)
    while vs and vs[-1] == 0:
        vs.pop()
    return vs


def shrink(values, test, budget=400):
    calls = [0]
    best = _trim(values)
    seen = set()

    def attempt(cand):
        cand = _trim(cand)
        key = tuple(cand)
        if key in seen or calls[0] >= budget:
            return None
        seen.add(key)
        calls[0] += 1
        ok, canon = test(cand)
        if not ok:
            return None
        canon = _trim(canon)
        # only accept candidates that are not worse than what we have
        if (len(canon), sum(canon)) > (len(cand), sum(cand)):
            canon = cand
        return canon

    def better(a, b):
        return (len(a), sum(a), a) < (len(b), sum(b), b)

    improved = True
    while improved and calls[0] < budget:
        improved = False
        # 1. cut the tail (binary search on the prefix length)
        lo, hi = 0, len(best)
        while lo < hi and calls[0] < budget:
            mid = (lo + hi) // 2
            r = attempt(best[:mid])
            if r is not None and better(r, best):
                best = r
                hi = min(mid, len(best))
                improved = True
            else:
                lo = mid + 1
        # 2. delete chunks
        size = max(1, len(best) // 2)
        while size >= 1 and calls[0] < budget:
            i = 0
            while i < len(best) and calls[0] < budget:
                r = attempt(best[:i] + best[i + size:])
                if r is not None and better(r, best):
                    best = r
                    improved = True
                else:
                    i += size
            size //= 2
        # 3. zero chunks, then single values
        size = max(1, len(best) // 2)
        while size >= 1 and calls[0] < budget:
            i = 0
            while i < len(best) and calls[0] < budget:
                if any(best[i:i + size]):
                    r = attempt(best[:i] + [0] * len(best[i:i + size]) + best[i + size:])
                    if r is not None and better(r, best):
                        best = r
                        improved = True
                i += size
            size //= 2
        # 4. lower single values
        for i in range(len(best)):
            if calls[0] >= budget:
                break
            if i < len(best) and best[i] > 1:
                for nv in (1, best[i] // 2, best[i] - 1):
                    if i < len(best) and nv < best[i]:
                        r = attempt(best[:i] + [nv] + best[i + 1:])
                        if r is not None and better(r, best):
                            best = r
                            improved = True
                            break
    return best, calls[0]


def shrink_streams(values, test, budget=400):
    """values: {stream: [ints]}; test(values_dict) -> (same_violation, canonical_values_dict)"""
    best = {k: _trim(v) for k, v in values.items()}
    used = 0
    improved = True
    rounds = 0
    while improved and used < budget and rounds < 3:
        improved = False
        rounds += 1
        # decisions about scheduling and time first: most of them are usually irrelevant
        for name in sorted(best, key=lambda k: (k == "main", k)):
            if used >= budget:
                break

            def t(vs, name=name):
                cand = dict(best)
                cand[name] = vs
                ok, canon = test(cand)
                return ok, (canon.get(name, []) if ok else vs)
            before = list(best[name])
            new, calls = shrink(best[name], t, max(20, (budget - used) // 2))
            used += calls
            if new != before:
                # re-validate the combination (the canonical form of the other streams may have moved)
                cand = dict(best)
                cand[name] = new
                ok, canon = test(cand)
                used += 1
                if ok:
                    best = {k: _trim(v) for k, v in canon.items()}
                    for k in cand:
                        best.setdefault(k, [])
                    improved = True
    return best, used
