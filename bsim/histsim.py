"""histsim - seeded search over operation histories against small reference models.

FragmentsEngine (C11): insert/append/extend histories on bisturi.fragments.Fragments vs. a sparse
                       byte array.
AutoEngine      (C17): set/delete/construct/unpack/pack histories on packets with Auto/AutoLength
                       described fields vs. a {explicit, tracked} model (see histsim_auto.py).
"""
import sys

from .chooser import digest
from .engines import Engine, register
from .runner import Outcome, import_fresh_bisturi


# ---------------------------------------------------------------------------------------
# C11: Fragments machine
# ---------------------------------------------------------------------------------------
POS_MAX = 40
FILLS = [b".", b".", b".", b"\x00", b"#"]
# per-run bounds (swarm style): (max ops, max position, chunk lengths, weights)
PROFILES = [
    ("small", 12, 40, [1, 2, 3, 4, 5, 6, 0], [6, 6, 6, 4, 2, 2, 3]),
    ("long", 90, 300, [1, 2, 3, 4, 8, 17, 0], [6, 6, 4, 3, 2, 1, 2]),
    ("far", 14, (1 << 16) + 7, [1, 2, 3, 9, 33, 150, 0], [5, 4, 3, 2, 2, 1, 2]),
    # a bulk prefix of fragments reaching just below a power of two (256, 1024, 4096, 8192), then ordinary
    # operations: behaviour that changes past a size threshold (re-balancing, merging, another index)
    ("bulk", 24, 0, [1, 2, 3, 4, 5, 6, 0], [6, 6, 4, 3, 2, 2, 2]),
]


def _cells(model):
    runs = model.fragments()
    s = ",".join("%d-%d" % (b, e) for b, e in runs[:12])
    return "[%s%s]" % (s, "" if len(runs) <= 12 else ", ... %d runs" % len(runs))


def _short(b):
    return repr(b) if len(b) <= 120 else "<%d bytes, sha %s>" % (len(b), digest(b))


class SparseModel:
    """the reference: a sparse byte array"""

    def __init__(self, fill):
        self.cells = {}
        self.extent = 0
        self.fill = fill
        self.empties = set()      # positions of successful empty inserts (for probes only)

    def occupied(self, p, L):
        return any((q in self.cells) for q in range(p, p + L))

    def store(self, p, chunk):
        for i, b in enumerate(chunk):
            self.cells[p + i] = b
        if not chunk:
            self.empties.add(p)
        self.extent = max(self.extent, p + len(chunk))

    def render(self):
        out = []
        pos = 0
        for b, e in self.fragments():
            out.append(self.fill * (b - pos))
            out.append(bytes(self.cells[q] for q in range(b, e)))
            pos = e
        out.append(self.fill * (self.extent - pos))
        return b"".join(out)

    def copy(self):
        m = SparseModel(self.fill)
        m.cells = dict(self.cells)
        m.extent = self.extent
        m.empties = set(self.empties)
        return m

    def fragments(self):
        """maximal runs [b, e) of occupied cells"""
        runs = []
        for q in sorted(self.cells):
            if runs and runs[-1][1] == q:
                runs[-1][1] = q + 1
            else:
                runs.append([q, q + 1])
        return runs


class _Bytes:
    """byte values that do not repeat within 254 consecutive bytes, never the fill byte"""

    def __init__(self, fill):
        self.pool = [b for b in range(1, 256) if b != fill[0]]
        self.i = 0

    def take(self, n):
        out = bytes(self.pool[(self.i + k) % len(self.pool)] for k in range(n))
        self.i += n
        return out


@register
class FragmentsEngine(Engine):
    prop = "C11"
    name = "histsim-fragments"
    tiers = {"quick": 60000, "thorough": 6000000}
    chunks = {"quick": 500, "thorough": 20000}
    rule = ("each case is a Chooser-generated history of 1..12 insert/append/extend/cursor-assignment operations on one Fragments "
            "object or two interleaved live ones (profile small: <=12 operations, positions 0..40, chunks 0..6 bytes; long: <=90 operations, "
            "positions 0..300, chunks <=17; far: positions up to 2^16, chunks <=150; bulk (1 run in 56): a prefix of up to 8192 one-byte fragments ending just below 256/1024/4096/8192, then <=24 operations; positions biased to the edges of existing fragments, "
            "fill byte drawn), checked step by step against a sparse-array model; distinct = digest of the abstract "
            "operation list; non-trivial = at least two operations and at least one of them interacts with bytes "
            "already stored (collision, adjacency, hole fit, insert before an existing fragment, empty chunk)")
    assumptions = ["Fragments is driven directly through insert/append/extend/tobytes/current_offset as listed in the "
                   "property's observe_at; no schedule, clock or I/O exists for this component, so only the "
                   "reference-model half of the technique applies",
                   "an empty chunk may raise or not (the statement is silent); if it does not raise it only extends the extent",
                   "after a failed insert only tobytes() is required to be unchanged; the cursor is re-read from the object"]
    real_components = ["bisturi.fragments.Fragments (snapshot of /repo working tree)"]
    stub_components = []
    expected_probes = ["insert-before-first", "between-adjacent", "exact-fit-hole", "overlap-pred", "overlap-succ",
                       "overlap-both", "empty-at-occupied", "nonempty-over-earlier-empty", "op-after-failed-op",
                       "backwards-insert", "extend-partial", "two-live-buffers", "cursor-assigned", "profile-long", "profile-far", "profile-bulk", "chunk-contains-fill-byte"]

    def init_worker(self, tree, wdir):
        import_fresh_bisturi(tree)
        self.Fragments = sys.modules["bisturi.fragments"].Fragments

    # -- generation ------------------------------------------------------------------
    def _position(self, ch, model, L):
        POS_MAX = self._prof[2]
        runs = model.fragments()
        if runs and ch.chance("pos-near-edge", 5, 8):
            b, e = ch.pick("which-fragment", runs)
            cands = [b - L, b - L + 1, b - 1, b, b + 1, e - 1, e, e + 1, e - L]
            if model.empties:
                q = sorted(model.empties)[ch.draw("which-empty", len(model.empties))]
                cands += [q, q - 1, q - L + 1]
            p = ch.pick("edge-offset", cands)
            return min(max(p, 0), POS_MAX)
        return ch.draw("pos", POS_MAX + 1)

    def _content(self, ch, uniq, L, model, p, last):
        """mostly unique bytes (every output byte attributable to one insert); now and then contents that a
        content-sensitive implementation could confuse: the fill byte, the bytes already stored at the target, the
        previous chunk again"""
        if L == 0:
            return b""
        k = ch.weighted("content", [12, 1, 1, 1])
        if k == 1:
            return model.fill * L
        if k == 2 and p is not None:
            have = bytes(model.cells.get(q, model.fill[0]) for q in range(p, p + L))
            return have
        if k == 3 and last[0] and len(last[0]) >= 1:
            return (last[0] * (L // len(last[0]) + 1))[:L]
        return uniq.take(L)

    def _len(self, ch):
        return self._prof[3][ch.weighted("chunk-len", self._prof[4])]

    # -- one run ---------------------------------------------------------------------
    def execute(self, scenario, ch):
        out = Outcome()
        ev = out.events.append
        st = out.stats
        # one buffer, or (a quarter of the runs) two live buffers whose operations interleave: state
        # shared between Fragments objects must show as interference
        self._prof = PROFILES[ch.weighted("profile", [40, 10, 5, 1])]
        st["probe:profile-" + self._prof[0]] += 1
        nbuf = 2 if ch.chance("two-buffers", 1, 4) else 1
        bufs = []
        for b in range(nbuf):
            fill = FILLS[ch.draw("fill", len(FILLS))]
            f = self.Fragments(fill=fill) if fill != b"." else self.Fragments()
            bufs.append([f, SparseModel(fill), _Bytes(fill), False])
            ev("buffer %d fill=%r" % (b, fill))
        if nbuf == 2:
            st["probe:two-live-buffers"] += 1
        nops = 1 + ch.draw("n-ops", self._prof[1])
        history = []
        interacting = 0
        last = [b""]

        def violation(oracle, detail):
            out.violation = {"oracle": oracle, "actor": "", "detail": detail}
            ev("VIOLATION %s: %s" % (oracle, detail))

        if self._prof[0] == "bulk":
            import random as _random
            target = [256, 1024, 4096, 8192][ch.weighted("bulk-threshold", [2, 2, 3, 1])] - ch.draw("bulk-short-by", 13)
            layout = _random.Random(ch.draw("bulk-layout", 1 << 16))
            f, model, uniq, _ = bufs[0]
            pos = 0
            for i in range(target):
                if layout.random() < 0.35:
                    pos += 1 + (layout.random() < 0.3)          # a hole of one or two bytes
                b = uniq.take(1)
                try:
                    f.insert(pos, b)
                except Exception as e:
                    return self._finish(out, history, interacting, violation, "C11.raise-iff-occupied",
                                        "bulk insert #%d at free position %d raised %s" % (i, pos, str(e)[:60]))
                model.store(pos, b)
                pos += 1
            self._prof = self._prof[:2] + (pos + 4,) + self._prof[3:]
            history.append(("bulk", target, pos))
            ev("bulk: %d one-byte fragments up to position %d" % (target, pos))
            st["probe:profile-bulk"] += 1
            if f.tobytes() != model.render() or f.current_offset != pos:
                return self._finish(out, history, interacting, violation, "C11.render", "after the bulk prefix the bytes or the cursor differ from the model")

        for step in range(nops):
            bi = ch.draw("buffer", nbuf)
            f, model, uniq, failed_before = bufs[bi]
            kind = ch.weighted("op", [6, 3, 1, 1])       # insert / append / extend / seek
            before = f.tobytes()
            cur = f.current_offset
            if before != model.render():
                return self._finish(out, history, interacting, violation, "C11.render",
                                    "buffer %d changed while another buffer was operated on: %s, model says %s" % (bi, _short(before), _short(model.render())))
            if kind == 3:
                # the way Move / aligned sequences drive the buffer: the cursor is assigned directly, then appended at
                p = self._position(ch, model, 1)
                f.current_offset = p
                history.append((bi, "seek", p))
                st["probe:cursor-assigned"] += 1
                ev("[%d] seek(%d)" % (bi, p))
                if f.tobytes() != before:
                    return self._finish(out, history, interacting, violation, "C11.render", "assigning the cursor changed the bytes")
                continue
            if failed_before:
                st["probe:op-after-failed-op"] += 1
            if kind == 2:
                chunks = [self._content(ch, uniq, self._len(ch), model, None, last) for _ in range(2 + ch.draw("extend-n", 2))]
                p = cur
                opdesc = ("extend", p, tuple(len(c) for c in chunks))
            else:
                L = self._len(ch)
                p = self._position(ch, model, L) if kind == 0 else cur
                chunk = self._content(ch, uniq, L, model, p, last)
                chunks = [chunk]
                opdesc = ("insert" if kind == 0 else "append", p, len(chunk))
            if chunks[-1]:
                last[0] = chunks[-1]
            if any(c and (c == model.fill * len(c) or not set(c).isdisjoint(model.fill)) for c in chunks):
                st["probe:chunk-contains-fill-byte"] += 1
            history.append((bi,) + opdesc)

            # ---- probes on the model, before the operation
            inter = self._probes(st, model, p, chunks, kind, cur)
            interacting += inter

            # ---- the operation on the real object
            raised = None
            try:
                if kind == 0:
                    f.insert(p, chunks[0])
                elif kind == 1:
                    f.append(chunks[0])
                else:
                    f.extend(chunks)
            except Exception as e:      # Fragments raises plain Exception on collision
                raised = e
            after = f.tobytes()
            cur_after = f.current_offset

            # ---- the model: candidates for where the operation may legitimately have stopped
            # walk the chunks; a non-empty chunk must raise iff occupied; an empty chunk may raise
            m = model.copy()
            q = p
            must_raise = False
            may_stop = []          # model states at which a raise is acceptable
            for c in chunks:
                if c:
                    if m.occupied(q, len(c)):
                        must_raise = True
                        may_stop.append(m.copy())
                        break
                    m.store(q, c)
                    q += len(c)
                else:
                    may_stop.append(m.copy())   # raising on an empty chunk is not forbidden
                    m.store(q, c)
            ev("[%d] %s%r -> %s cursor=%r bytes=%s" % (bi, opdesc[0], opdesc[1:], "raised" if raised else "ok", cur_after, _short(after)))
            if raised is not None:
                st["fault:collision-raised"] += 1
                bufs[bi][3] = True
                ok = [s_ for s_ in may_stop if s_.render() == after]
                if not must_raise and (not any(not c for c in chunks) or not ok):
                    return self._finish(out, history, interacting, violation, "C11.raise-iff-occupied",
                                        "%s%r raised (%s) although no byte of the range is occupied; model cells=%r" % (
                                            opdesc[0], opdesc[1:], str(raised)[:60], _cells(model)))
                if not ok:
                    return self._finish(out, history, interacting, violation, "C11.failed-op-intact",
                                        "after the failed %s%r tobytes()=%s, expected %s" % (opdesc[0], opdesc[1:], _short(after), _short(may_stop[-1].render())))
                if len(chunks) > 1 and ok[-1].cells != model.cells:
                    st["probe:extend-partial"] += 1
                model = ok[-1]
            else:
                if must_raise:
                    return self._finish(out, history, interacting, violation, "C11.raise-iff-occupied",
                                        "%s%r did not raise although a byte of the range is occupied; model cells=%r bytes now %r" % (
                                            opdesc[0], opdesc[1:], _cells(model), _short(after)))
                model = m
                total = sum(len(c) for c in chunks)
                if total > 0 and cur_after != p + total:
                    return self._finish(out, history, interacting, violation, "C11.cursor",
                                        "%s%r left the cursor at %r, expected %r" % (opdesc[0], opdesc[1:], cur_after, p + total))
                if after != model.render():
                    return self._finish(out, history, interacting, violation, "C11.render",
                                        "after %s%r tobytes()=%s, model says %s" % (opdesc[0], opdesc[1:], _short(after), _short(model.render())))
            bufs[bi][1] = model
            out.state_sigs += (digest((tuple(map(tuple, model.fragments())), model.extent)),)
        for bi, (f, model, _, _) in enumerate(bufs):
            if f.tobytes() != model.render():
                return self._finish(out, history, interacting, violation, "C11.render",
                                    "at the end buffer %d holds %s, model says %s" % (bi, _short(f.tobytes()), _short(model.render())))
        return self._finish(out, history, interacting, None, None, None)

    def _finish(self, out, history, interacting, violation, oracle, detail):
        if violation is not None:
            violation(oracle, detail)
        out.case_sig = digest(tuple(history))
        out.nontrivial = len(history) >= 2 and interacting > 0
        out.sample = [list(h) for h in history]
        out.steps = len(history)
        return out

    def _probes(self, st, model, p, chunks, kind, cur):
        """classify how this operation meets what is already stored; returns 1 if it interacts"""
        inter = 0
        runs = model.fragments()
        q = p
        for c in chunks:
            L = len(c)
            if L == 0:
                if q in model.cells:
                    st["probe:empty-at-occupied"] += 1
                inter = 1
                continue
            if runs and q < runs[0][0]:
                st["probe:insert-before-first"] += 1
                inter = 1
            if kind == 0 and q < cur:
                st["probe:backwards-insert"] += 1
            pred = [r for r in runs if r[0] <= q < r[1]]
            succ = [r for r in runs if q < r[0] < q + L]
            if pred and succ:
                st["probe:overlap-both"] += 1
            elif pred:
                st["probe:overlap-pred"] += 1
            elif succ:
                st["probe:overlap-succ"] += 1
            if pred or succ:
                inter = 1
            left = any(r[1] == q for r in runs)
            right = any(r[0] == q + L for r in runs)
            if left and right and not pred and not succ:
                st["probe:exact-fit-hole"] += 1
                inter = 1
            elif (left or right) and not pred and not succ:
                st["probe:between-adjacent"] += 1 if (left and any(r[0] > q for r in runs)) or right else 0
                inter = 1
            if any(q < e < q + L for e in model.empties) and not model.occupied(q, L):
                st["probe:nonempty-over-earlier-empty"] += 1
                inter = 1
            q += L
        return inter
