"""threadsim (C13) - packets are independent; pack/unpack are observationally pure.

A run has two phases.
 1. Script generation, which is also the *solo twin*: for every packet of the run a pristine world
    (fresh bisturi import, freshly defined declarations) is created and the packet's operations are
    generated lazily against the packet's current structure and executed there, alone, single
    threaded.  The observations made are what the packet must show in any history and schedule.
 2. The disturbed run: 1-3 actor threads (real threading.Thread objects, baton-passed: exactly one
    runs at any time, and *which* one is decided by the Chooser) execute those scripts in one shared
    world.  Inside an operation an actor is pre-empted at sys.settrace line (or opcode) events that
    occur in bisturi frames, in the generated modules and in the declaration module; between
    operations it always reports back to the scheduler.
    mode "random": switches at operation boundaries and at <=4 Chooser-placed events inside operations
    mode "duel"  : two actors, same class; the victim's last operation is pre-empted at *every* event
                   index in turn (a systematic sweep), each time letting the aggressor run one whole
                   conflicting operation in the gap.
Oracles:
  N  non-interference: what is observed on packet X equals what its solo twin observed
  A  no aliasing: no list / nested packet reachable from two live packets or by two paths
  P  purity: pack() twice returns equal bytes and leaves the declared fields unchanged
"""
import os
import re
import sys
import threading

from .chooser import digest
from .engines import Engine, register
from .runner import Outcome, import_fresh_bisturi
from . import project, decls

import enum


class Kind(enum.IntEnum):
    ONE = 1
    TWO = 2
    THREE = 3


RAWS_SEEN = {}          # per run (cleared in execute): root class -> raw inputs generated so far
BIG = [False]           # per run (1 in 16): values may be large (lists of hundreds of elements, byte strings of kilobytes)
VALUES_SEEN = {}        # per run: ints / byte strings handed out so far (re-used now and then: equal values)
WATCHDOG_S = 20.0
MAX_EVENTS_PER_RUN = 400000
DUEL_MAX_POINTS = 160


# ---------------------------------------------------------------------------------------
# observation helpers (harness code: never traced, never pre-empted)
# ---------------------------------------------------------------------------------------
KNOBS = [0, 0]       # [the small value this run gives to every size bound of the library (0: leave them), how many it found]
_KNOB_NAME = re.compile(r"(^|_)(MAX|MAXSIZE|LIMIT|CAPACITY|BOUND)(_|$)|CACHE_?(SIZE|LEN|LENGTH|ENTRIES)|POOL_?SIZE", re.I)


def shrink_knobs(small):
    """tuning knobs: a module-level integer of the library whose NAME says it bounds a cache or a pool (_MAX_..., ..._LIMIT,
    ..._CACHE_SIZE) is set to 1 or 2, in the twin worlds and in the simulated world alike, so that eviction and "cache
    full" paths - which a fresh process would reach only after hundreds of distinct inputs - run all the time. How much a
    cache holds is not behaviour: every oracle compares worlds that run under the same bounds."""
    n = 0
    for name, mod in list(sys.modules.items()):
        if name == "bisturi" or name.startswith("bisturi."):
            for attr, val in list(vars(mod).items()):
                if type(val) is int and val >= 8 and attr.upper() == attr and _KNOB_NAME.search(attr):
                    setattr(mod, attr, small)
                    n += 1
    return n


class Env:
    """one pristine world: a fresh bisturi import plus freshly defined declarations"""

    def __init__(self, tree, pdir, modname, source, write):
        import_fresh_bisturi(tree)
        project.purge(["c13_"])
        if KNOBS[0]:
            KNOBS[1] = shrink_knobs(KNOBS[0])
        self.Packet = sys.modules["bisturi.packet"].Packet
        self.PacketError = sys.modules["bisturi.packet"].PacketError
        self.mod = project.exec_module(pdir, modname, source if write else None)
        self.REG = self.mod.REG
        self.prefixes = (os.path.join(tree, "bisturi") + os.sep, pdir + os.sep)

    def visible_fields(self, pkt):
        """names of the declared, value-bearing attributes of a packet"""
        return project.visible_fields(pkt)

    def snap(self, v):
        """deep conversion to plain data"""
        if isinstance(v, self.Packet):
            out = ["pkt", type(v).__name__]
            for n in self.visible_fields(v):
                try:
                    out.append((n, self.snap(getattr(v, n))))
                except AttributeError:
                    out.append((n, "<unset>"))
                except Exception as e:
                    out.append((n, "<%s>" % type(e).__name__))
            return tuple(out)
        if isinstance(v, list):
            return ("list",) + tuple(self.snap(x) for x in v)
        if isinstance(v, tuple):
            return ("tuple",) + tuple(self.snap(x) for x in v)
        if isinstance(v, dict):
            return ("dict",) + tuple(sorted(((repr(k), self.snap(x)) for k, x in v.items())))
        if isinstance(v, (bytearray, set, frozenset)):
            return (type(v).__name__, repr(sorted(v) if not isinstance(v, bytearray) else bytes(v)))
        if type(v) in (bytes, int, str, type(None), float):
            return v
        if isinstance(v, (int, float, bytes, str)):
            return ("%s:%s" % (type(v).__module__.split(".")[-1], type(v).__name__), repr(v))     # bool, IntEnum, subclasses: the type is part of the value
        return "<%s>" % type(v).__name__

    def walk_mutables(self, root, acc, rootid, path=()):
        """collect id -> [(root, path)] for every list / Packet reachable through declared fields"""
        if isinstance(root, self.Packet):
            acc.setdefault(id(root), []).append((rootid, path))
            if len(acc[id(root)]) > 1:
                return
            for n in self.visible_fields(root):
                try:
                    v = getattr(root, n)
                except Exception:
                    continue
                self.walk_mutables(v, acc, rootid, path + (n,))
        elif isinstance(root, (list, tuple)):
            if isinstance(root, list) or root:          # the empty tuple is a singleton, and immutable
                acc.setdefault(id(root), []).append((rootid, path))
                if len(acc[id(root)]) > 1 and isinstance(root, list):
                    return
            for i, x in enumerate(root):
                self.walk_mutables(x, acc, rootid, path + (i,))
        elif isinstance(root, dict):
            acc.setdefault(id(root), []).append((rootid, path))
            if len(acc[id(root)]) > 1:
                return
            for k, x in root.items():
                self.walk_mutables(x, acc, rootid, path + (("k", k),))
        elif isinstance(root, (bytearray, set)):
            acc.setdefault(id(root), []).append((rootid, path))

    def locations(self, pkt, path=(), depth=0, out=None):
        """mutable locations of a packet: (path, kind, current value)"""
        if out is None:
            out = []
        if depth > 3:
            return out
        for n in self.visible_fields(pkt):
            try:
                v = getattr(pkt, n)
            except Exception:
                continue
            p = path + (n,)
            if isinstance(v, self.Packet):
                out.append((p, "pkt", v))
                self.locations(v, p, depth + 1, out)
            elif isinstance(v, list):
                out.append((p, "list", v))
                for i, x in enumerate(v[:4]):
                    if isinstance(x, self.Packet):
                        out.append((p + (i,), "pkt", x))
                        self.locations(x, p + (i,), depth + 1, out)
                    elif isinstance(x, (int, bytes)) and not isinstance(x, bool):
                        out.append((p + (i,), "int" if isinstance(x, int) else "bytes", x))
            elif isinstance(v, dict):
                out.append((p, "dict", v))
                for k2, x in sorted(v.items(), key=repr)[:3]:
                    if isinstance(x, (int, bytes)) and not isinstance(x, bool):
                        out.append((p + (("k", k2),), "int" if isinstance(x, int) else "bytes", x))
            elif isinstance(v, tuple):
                for i, x in enumerate(v[:4]):
                    if isinstance(x, self.Packet):
                        out.append((p + (i,), "pkt-in-tuple", x))
                        self.locations(x, p + (i,), depth + 1, out)
            elif isinstance(v, bool):
                pass
            elif isinstance(v, int):
                out.append((p, "int", v))
            elif isinstance(v, bytes):
                out.append((p, "bytes", v))
        return out

    def resolve(self, pkt, path):
        obj = pkt
        for step in path:
            obj = obj[step] if isinstance(step, int) else obj[step[1]] if isinstance(step, tuple) else getattr(obj, step)
        return obj

    def assign(self, pkt, path, value):
        parent = self.resolve(pkt, path[:-1])
        if isinstance(path[-1], int):
            parent[path[-1]] = value
        elif isinstance(path[-1], tuple):
            parent[path[-1][1]] = value
        else:
            setattr(parent, path[-1], value)

    def build(self, spec):
        """instantiate a value spec freshly"""
        if isinstance(spec, tuple) and spec and spec[0] == "newpkt":
            return self.REG[spec[1]](**{k: self.build(v) for k, v in spec[2]})
        if isinstance(spec, tuple) and spec and spec[0] == "newlist":
            return [self.build(x) for x in spec[1]]
        if isinstance(spec, tuple) and spec and spec[0] == "newtuple":
            return tuple(self.build(x) for x in spec[1])
        if isinstance(spec, tuple) and spec and spec[0] == "newdict":
            return {k: self.build(x) for k, x in spec[1]}
        if isinstance(spec, tuple) and spec and spec[0] == "typed-int":
            return bool(spec[2]) if spec[1] == "bool" else Kind(spec[2])
        return spec


def value_spec_like(v, env, ch, u, depth=0):
    """a fresh value of the same shape as v (never an existing object)"""
    if isinstance(v, env.Packet):
        name = type(v).__name__
        if name not in env.REG:
            return None
        kw = ()
        if depth < 1 and ch.chance("nested-kwargs", 1, 2):
            kws = []
            for n in env.visible_fields(v):
                try:
                    cur = getattr(v, n)
                except Exception:
                    continue
                if isinstance(cur, (int, bytes)) and not isinstance(cur, bool) and ch.chance("kw?", 1, 2):
                    kws.append((n, value_spec_like(cur, env, ch, u, depth + 1)))
            kw = tuple(kws)
        return ("newpkt", name, kw)
    if isinstance(v, list):
        if not v:
            return ("newlist", ())
        n = ch.draw("list-len", 4) if not BIG[0] else [0, 1, 2, 3, 17, 260, 700][ch.weighted("list-len", [2, 2, 2, 2, 2, 2, 1])]
        items = []
        for i in range(n):
            s = value_spec_like(v[i % len(v)], env, ch, u, depth + 1)
            if s is None:
                return None
            items.append(s)
        return ("newlist", tuple(items))
    if isinstance(v, tuple):
        items = [value_spec_like(x, env, ch, u, depth + 1) for x in v]
        return None if any(i is None for i in items) else ("newtuple", tuple(items))
    if isinstance(v, dict):
        items = []
        for i in range(ch.draw("dict-len", 3)):
            items.append((u.int(20), u.bytes(ch.draw("bytes-len", 4))))
        return ("newdict", tuple(items))
    if isinstance(v, bool):
        return None
    if isinstance(v, int):
        odd = ch.weighted("odd-int", [14, 1, 1])
        if odd == 1:
            # does not fit most fields: the pack of this packet fails midway (a failed operation is a fault like
            # any other: whatever it leaves behind must not reach the next operation)
            return [300, 70000, -1, 1 << 40][ch.draw("unfit-int", 4)]
        if odd == 2:
            # an int that is not exactly an int: a bool or an IntEnum member must come back as what was stored
            return ("typed-int", ["bool", "enum"][ch.draw("int-type", 2)], ch.draw("typed-value", 2) if False else 1 + ch.draw("typed-value", 3))
        bag = VALUES_SEEN.setdefault("int", [])
        if bag and ch.chance("equal-value-again", 1, 5):
            return bag[ch.draw("which-earlier-value", len(bag))]       # an equal value in another packet must stay harmless
        x = u.int()
        bag.append(x)
        return x
    if isinstance(v, bytes):
        bag = VALUES_SEEN.setdefault("bytes", [])
        if bag and ch.chance("equal-value-again", 1, 5):
            return bag[ch.draw("which-earlier-value", len(bag))]
        n = len(v) if (v and ch.chance("same-length", 3, 4)) else ch.draw("bytes-len", 5)
        if BIG[0] and ch.chance("big-bytes", 1, 2):
            n = [300, 4097, 70000][ch.draw("big-bytes-len", 3)]
        x = u.bytes(n)
        if n < 64:
            bag.append(x)
        return x
    return None


# ---------------------------------------------------------------------------------------
# operations (run both in the solo twins and in the disturbed world)
# ---------------------------------------------------------------------------------------
def perform(env, slot, op):
    """apply one operation to the packet in `slot` (a dict with key 'pkt'); returns the observation"""
    kind = op[0]
    PacketError = env.PacketError
    try:
        if kind == "NEW":
            cls = env.REG[op[1]]
            pkt = cls(**{k: env.build(v) for k, v in op[2]})
            slot["pkt"] = pkt
            return ("new", env.snap(pkt))
        if kind == "ADOPT":
            slot["pkt"] = env.REG[op[1]]       # the very object the user passed to Ref(...) when declaring the class
            return ("adopted", env.snap(slot["pkt"]))
        if kind == "PARSE":
            cls = env.REG[op[1]]
            slot["pkt"] = None
            pkt = cls.unpack(op[2])
            slot["pkt"] = pkt
            return ("parsed", env.snap(pkt))
        pkt = slot.get("pkt")
        if pkt is None:
            return ("absent",)
        if kind == "SET":
            env.assign(pkt, op[1], env.build(op[2]))
            return ("set",)
        if kind == "APPEND":
            env.resolve(pkt, op[1]).append(env.build(op[2]))
            return ("appended",)
        if kind == "DICTADD":
            env.resolve(pkt, op[1])[op[2]] = env.build(op[3])
            return ("dict-added",)
        if kind == "POP":
            lst = env.resolve(pkt, op[1])
            if lst:
                lst.pop()
            return ("popped",)
        if kind == "PACK":
            return ("packed", pkt.pack())
        if kind == "PACK2":
            before = env.snap(pkt)
            a = pkt.pack()
            b = pkt.pack()
            after = env.snap(pkt)
            return ("packed2", a, b, before == after, before if before != after else None, after if before != after else None)
        if kind == "READ":
            return ("read", env.snap(pkt))
        if kind == "CONSIST":
            before = env.snap(pkt)
            ok = pkt.assert_consistency(dont_raise=True)
            return ("consistent", ok, before == env.snap(pkt))
        if kind == "REGEXP":
            before = env.snap(pkt)
            try:
                pat = pkt.as_regular_expression().pattern
            except Exception as e:
                pat = "raised %s" % type(e).__name__
            return ("regexp", pat, before == env.snap(pkt))
        if kind == "EQ":
            try:
                return ("eq", pkt == pkt, repr(pkt) == repr(pkt))
            except Exception as e:
                return ("eq-raised", type(e).__name__)
    except PacketError as e:
        return ("PacketError", "unpack" if e.was_error_found_in_unpacking_phase else "pack")
    except Exception as e:
        return ("raised", type(e).__name__, str(e)[:80])
    raise AssertionError(kind)


def gen_op(env, rec, ch, u, force=None):
    """draw the next operation for this packet from its current structure (in its twin world)"""
    rawgen = decls.BY_NAME[rec["decl"]]["roots"][rec["root"]]
    if force is not None:
        k = force
    elif rec["pkt"] is None and rec.get("adopt") and not rec.get("adopted"):
        rec["adopted"] = True
        return ("ADOPT", rec["adopt"])
    elif rec["pkt"] is None:
        k = ch.weighted("create-op", [1, 1])
    else:
        k = 2 + ch.weighted("op", [8, 4, 8, 4, 4, 2, 2, 2, 1, 1])     # SET APPEND/POP PACK PACK2 READ re-PARSE re-NEW CONSIST REGEXP EQ
    if k == 0 or k == 8:
        kws = []
        if ch.chance("kwargs?", 2, 3):
            template = env.REG[rec["root"]]()
            for n in env.visible_fields(template):
                try:
                    cur = getattr(template, n)
                except Exception:
                    continue
                if ch.chance("kw?", 1, 2):
                    s = value_spec_like(cur, env, ch, u)
                    if s is not None:
                        kws.append((n, s))
        return ("NEW", rec["root"], tuple(kws))
    if k == 1 or k == 7:
        seen = RAWS_SEEN.setdefault(rec["root"], [])
        if seen and ch.chance("same-bytes-again", 1, 5):
            # parse bytes that some packet of this class was parsed from before: equal inputs must
            # still give independent packets
            return ("PARSE", rec["root"], seen[ch.draw("which-earlier-raw", len(seen))])
        raw = rawgen(ch, u)
        dmg = ch.weighted("raw-damage", [5, 2, 1, 1])
        if dmg == 1 and len(raw) > 1:
            raw = raw[:ch.int_between("cut", 1, len(raw) - 1)]
        elif dmg == 2 and raw:
            i = ch.draw("flip-at", len(raw))
            raw = raw[:i] + bytes([raw[i] ^ (1 + ch.draw("flip", 255))]) + raw[i + 1:]
        elif dmg == 3:
            raw = raw + u.bytes(1 + ch.draw("extra", 3))
        seen.append(raw)
        return ("PARSE", rec["root"], raw)
    locs = env.locations(rec["pkt"]) if rec["pkt"] is not None else []
    if k == 2 and locs:
        path, kind, cur = locs[ch.draw("location", len(locs))]
        s = value_spec_like(cur, env, ch, u)
        if s is not None:
            return ("SET", path, s)
    if k == 3:
        dicts = [l for l in locs if l[1] == "dict"]
        if dicts and ch.chance("dict-add?", 1, 2):
            path, _, cur = dicts[ch.draw("dict-location", len(dicts))]
            return ("DICTADD", path, u.int(20), u.bytes(ch.draw("bytes-len", 4)))
        lists = [l for l in locs if l[1] == "list"]
        if lists:
            path, _, cur = lists[ch.draw("list-location", len(lists))]
            if cur and ch.chance("append?", 2, 3):
                s = value_spec_like(cur[0], env, ch, u)
                if s is not None:
                    return ("APPEND", path, s)
            return ("POP", path)
    if k == 5:
        return ("PACK2",)
    if k == 6:
        return ("READ",)
    if k == 9:
        return ("CONSIST",)
    if k == 10:
        return ("REGEXP",)
    if k == 11:
        return ("EQ",)
    return ("PACK",)


# ---------------------------------------------------------------------------------------
import _thread

_REAL_LOCK = _thread.allocate_lock
_REAL_RLOCK = threading.RLock
_ACTORS = {}            # thread ident -> (world, actor) for the simulated threads of the current run


class Baton:
    """a binary signal built directly on a raw interpreter lock (the harness must not use threading.Semaphore /
    Condition here: those would be built from the cooperative locks below). Strictly alternating release/acquire."""

    def __init__(self):
        self._l = _REAL_LOCK()
        self._l.acquire()

    def release(self):
        self._l.release()

    def acquire(self, timeout=None):
        if timeout is None:
            return self._l.acquire()
        return self._l.acquire(True, timeout)


class CoopLock:
    """stands in for threading.Lock / RLock while threadsim runs: a simulated thread that would block on a lock
    held by a parked thread hands the baton back instead (the scheduler then runs somebody who can make
    progress), so that code that protects shared state with locks is scheduled, not dead-locked"""

    def __init__(self, reentrant=False):
        self._real = _REAL_RLOCK() if reentrant else _REAL_LOCK()

    def acquire(self, blocking=True, timeout=-1):
        if self._real.acquire(False):
            return True
        if not blocking:
            return False
        wa = _ACTORS.get(threading.get_ident())
        if wa is None:
            return self._real.acquire(True, timeout)
        world, actor = wa
        while True:
            actor.blocked = True
            world.out.stats["probe:blocked-on-a-lock"] += 1
            world.yield_from(actor, True)
            if self._real.acquire(False):
                actor.blocked = False
                return True

    def release(self):
        self._real.release()

    def locked(self):
        if self._real.acquire(False):
            self._real.release()
            return False
        return True

    def __enter__(self):
        self.acquire()
        return self

    def __exit__(self, *a):
        self.release()

    def _is_owned(self):
        return self._real._is_owned() if hasattr(self._real, "_is_owned") else self.locked()


def install_coop_locks():
    threading.Lock = lambda: CoopLock(False)
    threading.RLock = lambda: CoopLock(True)


class Actor:
    def __init__(self, idx):
        self.idx = idx
        self.go = Baton()
        self.budget = -1
        self.in_op = False
        self.done = False
        self.script = []        # list of (packet record, op index)
        self.pos = 0
        self.thread = None
        self.error = None
        self.where = None
        self.preempted = False
        self.blocked = False


class World:
    """the disturbed run: shared env, actors, baton"""

    def __init__(self, eng, env, out, packets, actors, opcode_level):
        self.eng, self.env, self.out = eng, env, out
        self.packets, self.actors = packets, actors
        self.opcode_level = opcode_level
        self.back = Baton()
        self.events = 0
        self.segments = []
        self.timed_out = False
        self.violation = None
        self.aborted = False
        self._all_blocked_rounds = 0
        self.log = out.events.append

    # ---- runs in actor threads --------------------------------------------------------
    def make_tracer(self, actor):
        prefixes = self.env.prefixes
        opcode_level = self.opcode_level
        world = self

        def local(frame, event, arg):
            if event == "line" or event == "opcode":
                world.events += 1
                actor.budget -= 1
                if actor.budget == 0:
                    actor.where = frame.f_code.co_name
                    world.yield_from(actor, True)
            return local

        def tracer(frame, event, arg):
            if event == "call" and frame.f_code.co_filename.startswith(prefixes):
                if opcode_level:
                    frame.f_trace_opcodes = True
                    frame.f_trace_lines = False
                return local
            return None

        return tracer

    def yield_from(self, actor, preempted):
        actor.preempted = preempted
        self.back.release()
        actor.go.acquire()

    def actor_main(self, a):
        env, st = self.env, self.out.stats
        tracer = self.make_tracer(a)
        _ACTORS[threading.get_ident()] = (self, a)
        a.go.acquire()
        try:
            n = len(a.script)
            for i, (rec, opi) in enumerate(a.script):
                a.pos = i
                op = rec["ops"][opi]
                if self.aborted and op[0] in ("PACK", "PACK2", "READ"):
                    st["probe:aborted-parse-then-bystander-op"] += 1
                a.in_op = True
                sys.settrace(tracer)
                try:
                    obs = perform(env, rec, op)
                finally:
                    sys.settrace(None)
                    a.in_op = False
                rec["obs"][opi] = obs
                self.log("%s %s -> %s" % (rec["label"], _fmt_op(op), _fmt_obs(obs)))
                if op[0] == "PARSE" and obs[0] == "PacketError":
                    st["fault:parse-aborted-midway"] += 1
                    self.aborted = True
                if op[0] in ("PACK", "PACK2", "CONSIST") and obs[0] == "PacketError":
                    st["fault:pack-failed-midway"] += 1
                self.check_after(rec, opi, op, obs)
                if i + 1 < n:
                    a.budget = -1
                    self.yield_from(a, False)       # operation boundary: always report back
        except BaseException:
            import traceback
            a.error = traceback.format_exc()
        finally:
            a.done = True
            _ACTORS.pop(threading.get_ident(), None)
            self.back.release()

    def check_after(self, rec, opi, op, obs):
        if self.violation is not None:
            return
        if obs[0] in ("consistent", "regexp") and obs[2] is False:
            self.violation = ("C13.P-pack-mutates", rec["root"], "%s: %s changed the packet's fields" % (rec["label"], op[0]))
            return
        if obs[0] == "packed2":
            if obs[1] != obs[2]:
                self.violation = ("C13.P-pack-twice", rec["root"], "%s: pack() returned %r then %r" % (rec["label"], obs[1], obs[2]))
                return
            if not obs[3]:
                self.violation = ("C13.P-pack-mutates", rec["root"], "%s: pack() changed the fields: %r -> %r" % (rec["label"], obs[4], obs[5]))
                return
        want = rec["twin"][opi]
        if obs != want:
            self.violation = ("C13.N-interference", rec["root"],
                              "%s op #%d %s: observed %s, but alone (same operations, pristine classes) it is %s" % (
                                  rec["label"], opi, _fmt_op(op), _fmt_obs(obs), _fmt_obs(want)))
            return
        msg = self.aliasing_check("%s %s" % (rec["label"], op[0]))
        if msg:
            self.violation = ("C13.A-aliasing", rec["root"], msg)

    def aliasing_check(self, after):
        acc = {}
        for p in self.packets:
            if p["pkt"] is None:
                continue
            owner = self.actors[p["owner"]] if p["owner"] is not None else None
            if owner is not None and owner.in_op and not owner.done:
                continue           # its owner is parked in the middle of an operation: transient state
            self.env.walk_mutables(p["pkt"], acc, p["label"])
        for oid, refs in acc.items():
            if len(refs) > 1:
                return "after %s the same mutable object is reachable as %s" % (after, " and ".join("%s%s" % (r, list(pth)) for r, pth in refs[:3]))
        return None

    # ---- runs in the scheduler (main) thread ---------------------------------------------
    def start(self):
        for a in self.actors:
            a.thread = threading.Thread(target=self.actor_main, args=(a,), daemon=True, name="actor%d" % a.idx)
            a.thread.start()

    def step(self, actor, budget):
        """let `actor` run until its budget of trace events is used up (budget > 0), or to its next
        operation boundary (budget == -1); returns False on watchdog"""
        actor.budget = budget
        ev0 = self.events
        actor.go.release()
        if not self.back.acquire(timeout=WATCHDOG_S):
            self.timed_out = True
            return False
        self.segments.append((actor.idx, self.events - ev0))
        if self.events > MAX_EVENTS_PER_RUN:
            self.timed_out = True
            return False
        return True

    def run_random(self, ch, max_preempt):
        st = self.out.stats
        current = None
        left = max_preempt
        while True:
            runnable = [a for a in self.actors if not a.done]
            if not runnable:
                return
            order = ([current] + [a for a in runnable if a is not current]) if (current is not None and not current.done) else runnable
            free = [a for a in order if not a.blocked]
            if free:
                order = free
            elif all(a.blocked for a in runnable) and self._all_blocked_rounds > 3 * len(runnable):
                self.timed_out = True          # every thread waits for a lock another one holds: a real deadlock
                return
            self._all_blocked_rounds = self._all_blocked_rounds + 1 if not free else 0
            nxt = order[ch.draw("next-actor", len(order), stream="sched")]          # 0 = stay on the current actor
            if left > 0 and len(runnable) > 1 and ch.chance("preempt?", 1, 2, stream="sched"):
                k = ch.weighted("budget-class", [3, 3, 2], stream="sched")
                budget = 1 + (ch.draw("budget", 6, stream="sched") if k == 0 else 6 + ch.draw("budget", 40, stream="sched") if k == 1
                              else 46 + ch.draw("budget", 400, stream="sched"))
                if self.opcode_level:
                    budget *= 5
            else:
                budget = -1
            if nxt.in_op and any(a.in_op for a in self.actors if a is not nxt and not a.done):
                st["probe:two-ops-in-flight"] += 1
            if not self.step(nxt, budget):
                return
            if nxt.preempted and not nxt.done and not nxt.blocked:
                left -= 1
                st["fault:preempt-inside-operation"] += 1
                st["probe:switch-in:%s" % nxt.where] += 1
            current = nxt

    def finish(self):
        for a in self.actors:
            a.thread.join(WATCHDOG_S)
            if a.error:
                raise RuntimeError("actor %d failed:\n%s" % (a.idx, a.error))


@register
class ThreadEngine(Engine):
    prop = "C13"
    name = "threadsim"
    tiers = {"quick": 4000, "thorough": 250000}
    chunks = {"quick": 20, "thorough": 200}
    watchdog_s = 900
    shrink_budget = 200
    rule = ("each case is one simulated run over 1-3 declarations drawn from a pool of 36 (defined fresh; in a quarter of the runs every module-level size bound of the library - names like _MAX_..., ..._LIMIT, ..._CACHE_SIZE - is set to 1 or 2 in twin and simulated worlds alike; code generation and "
            "vectorize drawn). mode random (3 of 4 runs): 1-3 baton-passed actor threads owning 1-3 packets each (at least two "
            "packets share a class), 1-10 operations per packet generated against the packet's solo twin (NEW, PARSE valid / "
            "malformed, SET, APPEND, POP, PACK, PACK twice, READ + epilogue), thread switches at operation boundaries and at <=4 "
            "Chooser-placed settrace events inside operations. mode duel (1 of 4): two actors on one class; the victim's last "
            "operation is pre-empted at every trace-event index in turn (<=160 points) while the aggressor runs one whole "
            "operation in the gap. distinct = digest of (declarations, options, per-packet operation lists); non-trivial = at "
            "least two packets of one class were operated on and at least one parse and one pack happened")
    assumptions = ["pre-emption granularity is a sys.settrace line event or opcode event (half of the thorough runs, one duel sweep in four of the quick tier) in "
                   "bisturi, generated and declaration-module frames; C code (struct, re, bytes) is atomic, as under the GIL",
                   "the solo twin (same operations, alone, pristine definitions, fresh bisturi import) defines the expected "
                   "observations, so no second implementation of bisturi is embedded in the oracle",
                   "generated values are always fresh objects, so any shared mutable sub-object is the library's doing",
                   "in duel mode the sweep over pre-emption points reuses one world; a violation is re-confirmed in a fresh world "
                   "(single point) and otherwise reported with the whole sweep prefix as its replay"]
    real_components = ["all of bisturi (snapshot of /repo working tree), incl. metaclass, code generator and its cache in a scratch project",
                       "CPython threads (one runnable at a time)"]
    stub_components = ["the OS thread scheduler (replaced by the baton: the Chooser decides every switch)"]
    expected_probes = ["two-ops-in-flight", "same-class-two-threads", "aborted-parse-then-bystander-op", "whole-op-interleaving",
                       "generated-path", "generic-path", "funclevel-decl", "duel-sweeps", "prototype-instance-mutated", "big-values"]

    def init_worker(self, tree, wdir):
        self.tree = tree
        self.wdir = wdir
        os.makedirs(wdir, exist_ok=True)
        threading.stack_size(512 * 1024)
        install_coop_locks()

    def scenario(self, tier, idx):
        # opcode granularity: half of the thorough runs, and one duel sweep in four of the quick tier
        sc = {"mode": "duel" if idx % 4 == 3 else "random", "opcode": bool((tier == "thorough" and idx % 2 == 1) or idx % 16 == 15)}
        if (idx // 4) % 4 == 1:
            sc["knobs"] = 1 + (idx // 16) % 2        # a quarter of the runs of either mode: size bounds of the library shrunk to 1 or 2
        return sc

    # ---------------------------------------------------------------------------------
    def _world_draws(self, ch, st):
        ndecl = 1 + ch.weighted("n-decls", [3, 2, 1])
        names = []
        for i in range(ndecl):
            n = decls.POOL[ch.draw("decl", len(decls.POOL))]["name"]
            if n not in names:
                names.append(n)
        opt = [{}, {"generate_for_pack": False, "generate_for_unpack": False}, {"vectorize": False},
               {"generate_for_unpack": False}][ch.weighted("options", [3, 2, 1, 1])]
        generic = opt.get("generate_for_pack", True) is False and opt.get("generate_for_unpack", True) is False
        st["probe:generic-path" if generic else "probe:generated-path"] += 1
        if any(decls.BY_NAME[n]["func"] for n in names):
            st["probe:funclevel-decl"] += 1
        return names, opt

    def _gen_packet(self, pdir, modname, source, rec, nops, ch, u, last=None):
        """generate the operations of one packet against its solo twin; fills ops / twin"""
        tenv = Env(self.tree, pdir, modname, source, write=False)
        slot = {"pkt": None, "decl": rec["decl"], "root": rec["root"], "adopt": rec.get("adopt")}
        ops, twin = [], []
        for i in range(nops):
            op = gen_op(tenv, slot, ch, u, force=(last if (last is not None and i == nops - 1) else None))
            ops.append(op)
            twin.append(perform(tenv, slot, op))
        for op in (("READ",), ("PACK2",)):          # the epilogue
            ops.append(op)
            twin.append(perform(tenv, slot, op))
        rec["ops"], rec["twin"], rec["obs"], rec["pkt"] = ops, twin, [None] * len(ops), None
        rec["nops"] = nops

    def execute(self, scenario, ch):
        out = Outcome()
        ev = out.events.append
        st = out.stats
        pdir = project.fresh_dir(os.path.join(self.wdir, "p13"))
        RAWS_SEEN.clear()
        VALUES_SEEN.clear()
        KNOBS[0], KNOBS[1] = scenario.get("knobs", 0), 0
        BIG[0] = ch.chance("big-values", 1, 16)
        if BIG[0]:
            st["probe:big-values"] += 1
        names, opt = self._world_draws(ch, st)
        source = decls.source_for(names, opt)
        modname = "c13_run"
        project.write_source(pdir, modname, source)
        roots = [(n, r) for n in names for r in sorted(decls.BY_NAME[n]["roots"])]
        ev("mode=%s decls=%s options=%r opcode=%s" % (scenario.get("mode"), names, opt, scenario.get("opcode", False)))
        u = decls.Uniq()
        if scenario.get("mode") == "duel":
            return self._duel(scenario, ch, out, pdir, modname, source, names, opt, roots, u)

        # ---------------- mode random ----------------
        nact = 1 + ch.weighted("n-actors", [2, 4, 3])
        actors = [Actor(i) for i in range(nact)]
        packets = []
        shared_root = roots[ch.draw("shared-root", len(roots))]
        protos_left = [(n_, pr) for n_ in names for pr in decls.BY_NAME[n_]["protos"]]
        protos_left = [pr for _, pr in protos_left]
        for a in actors:
            mine = []
            for si in range(1 + ch.weighted("n-packets", [3, 2, 1])):
                if len(packets) >= 6 and mine:
                    break
                root = shared_root if (len(packets) < 2 or ch.chance("same-class", 1, 2)) else roots[ch.draw("root", len(roots))]
                rec = {"label": "a%dp%d" % (a.idx, si), "decl": root[0], "root": root[1], "owner": a.idx}
                if protos_left and len(packets) >= 1 and ch.chance("adopt-prototype-instance", 1, 3):
                    # this "packet" is the instance the user passed to Ref(...): it is mutated like any other packet,
                    # and nobody else's defaults may notice
                    rec["adopt"] = protos_left.pop(ch.draw("which-prototype", len(protos_left)))
                    st["probe:prototype-instance-mutated"] += 1
                self._gen_packet(pdir, modname, source, rec, 1 + ch.draw("n-ops", 5 if len(mine) else 8), ch, u)
                packets.append(rec)
                mine.append(rec)
            # the actor's script: an interleaving of its packets' operation lists (epilogue excluded)
            cursors = {id(r): 0 for r in mine}
            while True:
                avail = [r for r in mine if cursors[id(r)] < r["nops"]]
                if not avail:
                    break
                r = avail[ch.draw("which-packet", len(avail))]
                a.script.append((r, cursors[id(r)]))
                cursors[id(r)] += 1
        by_class = {}
        for p in packets:
            by_class.setdefault(p["root"], set()).add(p["owner"])
        if any(len(v) > 1 for v in by_class.values()):
            st["probe:same-class-two-threads"] += 1

        env = Env(self.tree, pdir, modname, source, write=False)
        world = World(self, env, out, packets, actors, scenario.get("opcode", False))
        world.start()
        world.run_random(ch, max_preempt=4)
        if world.timed_out:
            return self._inconclusive(out, names, ch)
        world.finish()
        if len({s[0] for s in world.segments}) > 1:
            st["probe:whole-op-interleaving"] += 1
        self._epilogue(world, packets)
        return self._wrap_up(out, world, names, opt, packets, nact)

    # ---------------------------------------------------------------------------------
    def _epilogue(self, world, packets):
        """main thread, after all actors finished: read everything, pack twice"""
        for p in packets:
            for opi in (len(p["ops"]) - 2, len(p["ops"]) - 1):
                op = p["ops"][opi]
                obs = perform(world.env, p, op)
                p["obs"][opi] = obs
                world.log("epilogue %s %s -> %s" % (p["label"], op[0], _fmt_obs(obs)))
                world.check_after(p, opi, op, obs)
        if world.violation is None:
            msg = world.aliasing_check("the epilogue")
            if msg:
                world.violation = ("C13.A-aliasing", "", msg)

    def _inconclusive(self, out, names, ch):
        out.inconclusive = "an actor never reached a yield point within %.0fs / %d events" % (WATCHDOG_S, MAX_EVENTS_PER_RUN)
        out.events.append("INCONCLUSIVE " + out.inconclusive)
        out.case_sig = digest(("inconclusive", names, tuple(ch.values())))
        return out

    def _wrap_up(self, out, world, names, opt, packets, nact):
        if world.violation is not None:
            v = world.violation
            out.violation = {"oracle": v[0], "actor": v[1], "detail": v[2]}
            out.events.append("VIOLATION %s: %s" % (v[0], v[2]))
        if KNOBS[0]:
            out.stats["probe:run-with-shrunk-size-bounds"] += 1
            if KNOBS[1]:
                out.stats["probe:size-bound-found-and-shrunk"] += 1
        nparse = sum(1 for p in packets for o in p["ops"] if o[0] == "PARSE")
        npack = sum(1 for p in packets for o in p["ops"][:-2] if o[0] in ("PACK", "PACK2"))
        same_class = any(len([q for q in packets if q["root"] == p["root"]]) > 1 for p in packets)
        out.nontrivial = same_class and nparse > 0 and npack > 0
        out.case_sig = digest((tuple(names), sorted(opt.items()), tuple((p["root"], tuple(_abstract(o) for o in p["ops"])) for p in packets)))
        out.sched_sig = digest(tuple(world.segments))
        out.steps = world.events
        out.sample = {"decls": names, "options": opt, "actors": nact, "schedule_segments(actor,events)": world.segments[:12],
                      "packets": [{"label": p["label"], "class": p["root"], "ops": [_fmt_op(o) for o in p["ops"]][:8]} for p in packets]}
        out.state_sigs = tuple(digest((p["root"], tuple(o[0] if o else None for o in p["obs"]))) for p in packets)
        return out

    # ---------------------------------------------------------------------------------
    def _duel(self, scenario, ch, out, pdir, modname, source, names, opt, roots, u):
        """systematic sweep of the pre-emption point inside one operation"""
        st = out.stats
        ev = out.events.append
        root = roots[ch.draw("shared-root", len(roots))]
        same_decl_roots = [r for r in roots if r[0] == root[0]]
        groot = root
        if len(same_decl_roots) >= 2 and ch.chance("aggressor-other-root", 1, 3):
            groot = same_decl_roots[ch.draw("aggressor-root", len(same_decl_roots))]
        # operation kinds that fight: PARSE (1/7) or PACK (4) as the last operation of each side
        vk = [1, 4, 0][ch.weighted("victim-op", [4, 3, 1])]
        gk = [1, 4, 0, 2][ch.weighted("aggressor-op", [4, 3, 1, 1])]
        V = {"label": "victim", "decl": root[0], "root": root[1], "owner": 0}
        G = {"label": "aggressor", "decl": groot[0], "root": groot[1], "owner": 1}
        self._gen_packet(pdir, modname, source, V, 1 + ch.draw("n-ops", 3), ch, u, last=(7 if vk == 1 else 8 if vk == 0 else 4))
        self._gen_packet(pdir, modname, source, G, 1 + ch.draw("n-ops", 3), ch, u, last=(7 if gk == 1 else 8 if gk == 0 else gk))
        packets = [V, G]
        env = Env(self.tree, pdir, modname, source, write=False)
        only = scenario.get("only_point")
        upto = scenario.get("upto_point")
        stride_draw = ch.draw("sweep-offset", 1 << 16)
        st["probe:same-class-two-threads"] += 1

        def one(point, world_env):
            """victim runs up to its last operation; aggressor likewise; then the victim's last
            operation is pre-empted after `point` events (None: not at all) for the aggressor's last one"""
            for p in packets:
                p["pkt"], p["obs"] = None, [None] * len(p["ops"])
            actors = [Actor(0), Actor(1)]
            actors[0].script = [(V, i) for i in range(V["nops"])]
            actors[1].script = [(G, i) for i in range(G["nops"])]
            w = World(self, world_env, out, packets, actors, scenario.get("opcode", False))
            w.start()
            ok = True
            for a in actors:                              # warm-up operations, whole, in turn
                for _ in range(len(a.script) - 1):
                    ok = ok and w.step(a, -1)
            va, ga = actors
            if ok:
                ok = w.step(va, point if point is not None else -1)
            preempted = ok and va.preempted and not va.done
            if ok:
                ok = w.step(ga, -1)                       # the aggressor's whole last operation
            rounds = 0
            while ok and (not va.done or not ga.done) and rounds < 50:
                # normally one more step of the victim; more only when locks make the two wait for each other
                rounds += 1
                for a in (va, ga):
                    if ok and not a.done:
                        ok = w.step(a, -1)
            if not ok or w.timed_out:
                return w, None
            w.finish()
            if preempted:
                st["fault:preempt-inside-operation"] += 1
                st["probe:two-ops-in-flight"] += 1
                st["probe:switch-in:%s" % va.where] += 1
            self._epilogue(w, packets)
            return w, preempted

        # how many events does the victim's last operation take?
        mark = len(out.events)
        w0, _ = one(None, env)
        if w0.timed_out:
            return self._inconclusive(out, names, ch)
        total = w0.segments[V["nops"] + G["nops"] - 2][1] if len(w0.segments) > V["nops"] + G["nops"] - 2 else 0
        world = w0
        if w0.violation is None:
            del out.events[mark:]
        ev("sweep: victim's last operation %s takes %d trace events; aggressor's is %s" % (
            _fmt_op(V["ops"][V["nops"] - 1]), total, _fmt_op(G["ops"][G["nops"] - 1])))
        mark = len(out.events)
        st["probe:duel-sweeps"] += 1
        if world.violation is None and total > 0:
            if only is not None:
                points = [only]
            else:
                stride = max(1, -(-total // DUEL_MAX_POINTS))
                points = list(range(1 + (stride_draw % stride), total + 1, stride))
                if upto is not None:
                    points = [p for p in points if p <= upto]
            for pt in points:
                del out.events[mark:]
                ev("pre-emption point %d of %d" % (pt, total))
                world, pre = one(pt, env)
                if world.timed_out:
                    return self._inconclusive(out, names, ch)
                st["sweep-points"] += 1
                if world.violation is not None:
                    if only is None and upto is None:
                        # re-confirm in a fresh world with this single point
                        fresh = Env(self.tree, pdir, modname, source, write=False)
                        keep = list(out.events)
                        w2, _ = one(pt, fresh)
                        if w2.violation is not None and w2.violation[0] == world.violation[0]:
                            out.replay_scenario = dict(scenario, only_point=pt)
                            world = w2
                        else:
                            out.events[:] = keep
                            out.replay_scenario = dict(scenario, upto_point=pt)
                    break
        return self._wrap_up(out, world, names, opt, packets, 2)


def _abstract(op):
    if op[0] == "PARSE":
        return ("PARSE", len(op[2]))
    if op[0] in ("SET", "APPEND", "POP", "DICTADD"):
        return (op[0], op[1])
    if op[0] == "NEW":
        return ("NEW", tuple(k for k, _ in op[2]))
    if op[0] == "ADOPT":
        return op
    return op


def _fmt_op(op):
    return "%s%r" % (op[0], tuple(op[1:]))


def _fmt_obs(obs):
    s = repr(obs)
    return s if len(s) < 300 else s[:300] + "...(%d chars, %s)" % (len(s), digest(s))
