"""Behaviour-breaking edits used by `check sensitivity` (each applied alone to a scratch copy of the tree).

Each entry: (property, name, file, old, new) or (property, name, [(file, old, new), ...]).
`old` must occur exactly once in the file.
Every mutant still passes the 40 pinned tests (checked by `check sensitivity --with-tests`).
NOFALSE entries are behaviour-preserving edits: the quick check must stay at exit 0 on them.
"""

MUTANTS = [
    # ---------------- the pre-fix trees (reverse patches of the fix: commits) ----------------
    ("C11", "revert-F5", [("patch", "revert-F5.diff", None)]),
    ("C13", "revert-F3", [("patch", "revert-F3.diff", None)]),
    ("C13", "revert-F2", [("patch", "revert-F2.diff", None)]),
    ("C15", "revert-F4-F7", [("patch", "revert-F4.diff", None)]),
    ("C16", "revert-F4-F7", [("patch", "revert-F4.diff", None)]),
    # ---------------- C11 ----------------
    ("C11", "succ-le", "bisturi/fragments.py",
     "if b2 < position + L:", "if b2 <= position + L:"),
    ("C11", "succ-test-dropped", "bisturi/fragments.py",
     "if i + 1 < len(self.begin_of_fragments):", "if False and i + 1 < len(self.begin_of_fragments):"),
    ("C11", "cursor-not-moved", "bisturi/fragments.py",
     "        self.current_offset = position + L\n", "        self.current_offset = max(self.current_offset, position + L)\n"),
    ("C11", "tobytes-insertion-order", "bisturi/fragments.py",
     "for offset, s in sorted(self.fragments.items()):", "for offset, s in self.fragments.items():"),
    ("C11", "end-offset-not-tracked", "bisturi/fragments.py",
     "            self.end_offset = max(self.end_offset, position)\n", ""),
    ("C11", "fragment-stored-before-check", "bisturi/fragments.py",
     "        i = bisect_right(self.begin_of_fragments, position) - 1\n        if self.fragments:",
     "        i = bisect_right(self.begin_of_fragments, position) - 1\n        self.fragments.setdefault(position, string)\n        if len(self.fragments) > 1:"),
    ("C11", "pred-test-off-by-one", "bisturi/fragments.py",
     "if b1 <= position < e1:", "if b1 <= position < e1 - 1:"),
    ("C11", "class-level-append-hint", [
        ("bisturi/fragments.py",
         "        i = bisect_right(self.begin_of_fragments, position) - 1\n        if self.fragments:",
         "        h = Fragments._hint\n        if h is not None and h[0] == position and h[2] == len(self.begin_of_fragments):\n            i = h[1]\n        else:\n            i = bisect_right(self.begin_of_fragments, position) - 1\n        Fragments._hint = (position + L, i + 1, len(self.begin_of_fragments) + 1)\n        if self.fragments:"),
        ("bisturi/fragments.py", "class Fragments:\n", "class Fragments:\n    _hint = None\n")]),
    # ---------------- C13 ----------------
    ("C13", "field-init-no-deepcopy", "bisturi/field.py",
     "            obj = copy.deepcopy(self.default)\n", "            obj = self.default\n"),
    ("C13", "ref-init-caches-clone", "bisturi/field.py",
     "            if self.field_name not in defaults:\n                defaults[self.field_name] = prototype.clone()\n",
     "            if self.field_name not in defaults:\n                if not hasattr(self, '_clone'):\n                    self._clone = prototype.clone()\n                defaults[self.field_name] = self._clone\n"),
    ("C13", "bits-accumulator-on-field", "bisturi/field.py",
     "        I = getattr(pkt, self.I.field_name)\n        setattr(\n            pkt, self.I.field_name,\n            ((getattr(pkt, self.field_name) << self.shift) & self.mask) |\n            (I & (~self.mask))\n        )\n",
     "        I = 0 if self.iam_first else self.I._acc\n        self.I._acc = ((getattr(pkt, self.field_name) << self.shift) & self.mask) | (I & (~self.mask))\n        setattr(pkt, self.I.field_name, self.I._acc)\n"),
    ("C13", "expr-operand-stack-shared", "bisturi/deferred.py",
     "    args = list(args)\n", "    del args[:]\n"),
    ("C13", "data-scratch-on-field", "bisturi/field.py",
     "        byte_count = getattr(pkt, self.byte_count.field_name)\n        next_offset = offset + byte_count\n\n        chunk = raw[offset:next_offset]\n        if len(chunk) != byte_count:",
     "        self._bc = getattr(pkt, self.byte_count.field_name)\n        next_offset = offset + self._bc\n\n        chunk = raw[offset:offset + self._bc]\n        byte_count = self._bc\n        if len(chunk) != byte_count:"),
    ("C13", "sequence-count-scratch-on-field", "bisturi/structural_fields.py",
     "        for _ in range(count_elements):\n", "        self._n = count_elements\n        for _ in range(self._n):\n"),
    ("C13", "prototype-clone-shallow", "bisturi/packet.py",
     "    def _clone_from_live_obj(self):\n        return copy.deepcopy(self.template)\n",
     "    def _clone_from_live_obj(self):\n        return copy.copy(self.template)\n"),
    ("C13", "optional-caches-by-offset", "bisturi/structural_fields.py",
     "            obj = getattr(pkt, opt_elem_field_name)\n\n        setattr(pkt, self.field_name, obj)\n",
     "            obj = getattr(pkt, opt_elem_field_name)\n            if hasattr(obj, 'get_fields'):\n                obj = self.__dict__.setdefault('_last', {}).setdefault(offset, obj)\n\n        setattr(pkt, self.field_name, obj)\n"),
    ("C13", "bits-pack-normalises-in-place", "bisturi/field.py",
     "        if self.iam_last:\n            return self.I.pack(pkt, fragments=fragments, **k)\n",
     "        setattr(pkt, self.field_name, ((getattr(pkt, self.field_name) << self.shift) & self.mask) >> self.shift)\n        if self.iam_last:\n            return self.I.pack(pkt, fragments=fragments, **k)\n"),
    ("C13", "ref-unpack-memo-by-content", "bisturi/field.py",
     "        p = self.proto_class(_initialize_fields=False)\n        setattr(pkt, self.field_name, p)\n        return p.unpack_impl(**k)\n",
     "        memo = self.__dict__.setdefault('_memo', {})\n        key = (k['raw'][k['offset']:k['offset'] + 16], k['offset'])\n        if key in memo:\n            p, end = memo[key]\n            setattr(pkt, self.field_name, p)\n            return end\n        p = self.proto_class(_initialize_fields=False)\n        setattr(pkt, self.field_name, p)\n        end = p.unpack_impl(**k)\n        if len(k['raw']) - k['offset'] <= 16:\n            memo[key] = (p, end)\n        return end\n"),
    # ---------------- C15 ----------------
    ("C15", "cookie-from-pack-code-only", "bisturi/codegen.py",
     "        cookie_hash.update(unpack_code.encode('utf-8'))\n", ""),
    ("C15", "cookie-ignores-struct-format", "bisturi/codegen.py",
     "        cookie_hash.update(pack_code.encode('utf-8'))\n        cookie_hash.update(unpack_code.encode('utf-8'))\n",
     "        import re as _re\n        cookie_hash.update(_re.sub(r'\"[<>][a-zA-Z0-9]+\"', '', pack_code).encode('utf-8'))\n        cookie_hash.update(_re.sub(r'\"[<>][a-zA-Z0-9]+\"', '', unpack_code).encode('utf-8'))\n"),
    ("C15", "pyc-not-removed-and-reload-unvalidated", [
        ("bisturi/codegen.py", "                os.remove(cache_from_source(module_pathname))\n", "                pass\n"),
        ("bisturi/codegen.py", "            self.write_generated_module(folder, module_pathname, source_code)\n            module = self.load_generated_module(\n                module_name, module_pathname, cookie\n            )\n",
         "            self.write_generated_module(folder, module_pathname, source_code)\n            sys.modules.pop(module_name, None)\n            module = SourceFileLoader(module_name, module_pathname).load_module()\n")]),
    # ---------------- C16 ----------------
    ("C16", "reload-unvalidated", "bisturi/codegen.py",
     "            self.write_generated_module(folder, module_pathname, source_code)\n            module = self.load_generated_module(\n                module_name, module_pathname, cookie\n            )\n",
     "            self.write_generated_module(folder, module_pathname, source_code)\n            sys.modules.pop(module_name, None)\n            module = SourceFileLoader(module_name, module_pathname).load_module()\n"),
    ("C16", "no-in-memory-fallback", "bisturi/codegen.py",
     "        if module is None:\n            module = types.ModuleType(module_name)\n            module.__file__ = module_pathname\n            exec(\n                compile(source_code, module_pathname, 'exec'),\n                module.__dict__\n            )\n",
     "        if module is None:\n            sys.modules.pop(module_name, None)\n            module = SourceFileLoader(module_name, module_pathname).load_module()\n"),
    # ---------------- C17 ----------------
    ("C17", "set-does-not-clear-flag", "bisturi/descriptor.py",
     "        setattr(instance, self.iam_enabled_attr_name, False)\n", "        pass\n"),
    ("C17", "delete-noop", "bisturi/descriptor.py",
     "        setattr(instance, self.iam_enabled_attr_name, True)\n", "        pass\n"),
    ("C17", "flag-on-descriptor", "bisturi/descriptor.py",
     "        iam_enabled = getattr(instance, self.iam_enabled_attr_name, True)\n",
     "        iam_enabled = getattr(self, '_last_enabled', True) if not hasattr(instance, self.iam_enabled_attr_name) else getattr(instance, self.iam_enabled_attr_name)\n        self._last_enabled = iam_enabled\n"),
    ("C17", "generated-sync-dropped", "bisturi/codegen.py",
     "        if not sync_methods:\n            return \"\"\n", "        if not sync_methods or sync_for_pack:\n            return \"\"\n"),
    ("C17", "ctor-ignores-described-keyword", "bisturi/packet.py",
     "                    setattr(self, descriptor_name, default_value)\n", "                    pass\n"),
    ("C17", "sync-copies-real-into-visible", "bisturi/descriptor.py",
     "        val = self.__get__(instance, type(instance))\n", "        val = getattr(instance, self.real_field_name, None) or self.__get__(instance, type(instance))\n"),
    ("C17", "sync-disables-auto", "bisturi/descriptor.py",
     "        # we only care that the real field has the same value\n        setattr(instance, self.real_field_name, val)\n",
     "        # we only care that the real field has the same value\n        self.__set__(instance, val)\n"),
]

# weakened but still correct under the property (atomicity or validation alone suffices): must NOT alarm
NOFALSE = [
    # the cache update serialised by an advisory lock file (flock): between simulated processes such locks are emulated
    # and waited for cooperatively
    ("C16", "flock-around-the-cache-update", "bisturi/codegen.py",
     "    def write_generated_module(self, folder, module_pathname, source_code):\n",
     "    def write_generated_module(self, folder, module_pathname, source_code):\n        import fcntl\n        try:\n            os.makedirs(folder, exist_ok=True)\n            lock_file = open(os.path.join(folder, '.lock'), 'a')\n        except OSError:\n            return self._write_generated_module(folder, module_pathname, source_code)\n        with lock_file:\n            fcntl.flock(lock_file, fcntl.LOCK_EX)\n            try:\n                return self._write_generated_module(folder, module_pathname, source_code)\n            finally:\n                fcntl.flock(lock_file, fcntl.LOCK_UN)\n\n    def _write_generated_module(self, folder, module_pathname, source_code):\n"),
    ("C15", "flock-around-the-cache-update", "bisturi/codegen.py",
     "    def write_generated_module(self, folder, module_pathname, source_code):\n",
     "    def write_generated_module(self, folder, module_pathname, source_code):\n        import fcntl\n        try:\n            os.makedirs(folder, exist_ok=True)\n            lock_file = open(os.path.join(folder, '.lock'), 'a')\n        except OSError:\n            return self._write_generated_module(folder, module_pathname, source_code)\n        with lock_file:\n            fcntl.flock(lock_file, fcntl.LOCK_EX)\n            try:\n                return self._write_generated_module(folder, module_pathname, source_code)\n            finally:\n                fcntl.flock(lock_file, fcntl.LOCK_UN)\n\n    def _write_generated_module(self, folder, module_pathname, source_code):\n"),
    # the path of the defining file ends up in the generated code (an error message): the twin lives elsewhere
    ("C15", "defining-path-in-generated-code", [
        ("bisturi/codegen.py", "def unpack_impl(pkt, raw, offset, **k):\n   k['innermost-pkt-pos'] = offset\n",
         "def unpack_impl(pkt, raw, offset, **k):\n   k['innermost-pkt-pos'] = offset\n   k.setdefault('defined-in', %(defined_in)r)\n"),
        ("bisturi/codegen.py", "                    'blocks_of_code':\n                    indent(\"\\n\".join([c[1] for c in codes]), level=2),\n",
         "                    'defined_in': getattr(sys.modules.get(self.pkt_class.__module__), '__file__', '?'),\n                    'blocks_of_code':\n                    indent(\"\\n\".join([c[1] for c in codes]), level=2),\n")]),
    # a lock added around shared state is scheduled (cooperative locks), not dead-locked, and raises no alarm
    ("C13", "lock-around-expression-evaluation", "bisturi/deferred.py",
     "def exec_compiled_expr(pkt, args, ops, *vargs, **kargs):\n",
     "import threading\n_EXPR_LOCK = threading.Lock()\n\n\ndef exec_compiled_expr(pkt, args, ops, *vargs, **kargs):\n    with _EXPR_LOCK:\n        return _exec_compiled_expr(pkt, args, ops, *vargs, **kargs)\n\n\ndef _exec_compiled_expr(pkt, args, ops, *vargs, **kargs):\n"),
    # the shared operand stack (a MUTANT on its own) made safe again by a lock: the property holds, no alarm
    ("C13", "shared-operand-stack-under-a-lock", [
        ("bisturi/deferred.py", "    args = list(args)\n", "    del args[:]\n"),
        ("bisturi/deferred.py", "def exec_compiled_expr(pkt, args, ops, *vargs, **kargs):\n",
         "import threading\n_EXPR_LOCK = threading.Lock()\n\n\ndef exec_compiled_expr(pkt, args, ops, *vargs, **kargs):\n    with _EXPR_LOCK:\n        return _exec_compiled_expr(pkt, args, ops, *vargs, **kargs)\n\n\ndef _exec_compiled_expr(pkt, args, ops, *vargs, **kargs):\n")]),
    ("C13", "rlock-around-sequence-unpack", "bisturi/structural_fields.py",
     "    def unpack(self, pkt, raw, offset=0, **k):\n        sequence = []\n",
     "    def unpack(self, pkt, raw, offset=0, **k):\n        import threading\n        lock = self.__dict__.setdefault('_lock', threading.RLock())\n        with lock:\n            return self._unpack_locked(pkt, raw, offset, **k)\n\n    def _unpack_locked(self, pkt, raw, offset=0, **k):\n        sequence = []\n"),
    # harmless since the temporary file is created exclusively (8926dad): the second writer falls back to memory
    ("C16", "tmp-name-shared", "bisturi/codegen.py",
     "        tmp_pathname = \"%s.%i.%08x.tmp\" % (\n            module_pathname, os.getpid(), random.getrandbits(32)\n        )\n",
     "        tmp_pathname = module_pathname + '.tmp'\n"),
    ("C16", "only-importerror-tolerated", "bisturi/codegen.py",
     "        except Exception:\n            # half written, truncated, deleted in the meantime, ...\n            return None\n",
     "        except ImportError:\n            return None\n"),
    ("C15", "tmp-naming-scheme", "bisturi/codegen.py",
     "        tmp_pathname = \"%s.%i.%08x.tmp\" % (\n            module_pathname, os.getpid(), random.getrandbits(32)\n        )\n",
     "        tmp_pathname = os.path.join(folder, \".%08x-%i-%s\" % (random.getrandbits(32), os.getpid(), os.path.basename(module_pathname)))\n"),
    ("C16", "tmp-naming-scheme", "bisturi/codegen.py",
     "        tmp_pathname = \"%s.%i.%08x.tmp\" % (\n            module_pathname, os.getpid(), random.getrandbits(32)\n        )\n",
     "        tmp_pathname = os.path.join(folder, \".%08x-%i-%s\" % (random.getrandbits(32), os.getpid(), os.path.basename(module_pathname)))\n"),
    ("C16", "never-use-the-cache", "bisturi/codegen.py",
     "        module = self.load_generated_module(\n            module_name, module_pathname, cookie\n        )\n\n        # If no previously",
     "        module = None\n\n        # If no previously"),
    ("C15", "generic-fallback-instead-of-generated", "bisturi/packet_builder.py",
     "        generate_by_default = True if not self.am_in_debug_mode else False\n", "        generate_by_default = False\n"),
    ("C13", "generic-fallback-instead-of-generated", "bisturi/packet_builder.py",
     "        generate_by_default = True if not self.am_in_debug_mode else False\n", "        generate_by_default = False\n"),
    ("C13", "sequence-local-rename", "bisturi/structural_fields.py",
     "        append = sequence.append\n", "        append = lambda x, _s=sequence: _s.append(x)\n"),
    ("C11", "rename-local", "bisturi/fragments.py", "        L = len(string)\n        if L == 0:", "        L = len(string)\n        if not string:"),
    ("C17", "getattr-default-explicit", "bisturi/descriptor.py",
     "        iam_enabled = getattr(instance, self.iam_enabled_attr_name, True)\n",
     "        try:\n            iam_enabled = getattr(instance, self.iam_enabled_attr_name)\n        except AttributeError:\n            iam_enabled = True\n"),
]


def edits(entry):
    if len(entry) == 3:
        return entry[0], entry[1], list(entry[2])
    prop, name, fn, old, new = entry
    return prop, name, [(fn, old, new)]

# mutants that need a rare conjunction (e.g. a 3-piece write, a foreign whole write in the gap and a death);
# `check sensitivity --hard --tier thorough` is the place for them
HARD = [
    ("C16", "revert-F8", [("patch", "revert-F8.diff", None)]),
    ("C16", "in-place-write-with-validation", "bisturi/codegen.py",
     "            with open(tmp_pathname, 'x') as module_file:\n                tmp_is_ours = True\n                module_file.write(source_code)\n\n            os.replace(tmp_pathname, module_pathname)\n",
     "            with open(module_pathname, 'w') as module_file:\n                module_file.write(source_code)\n"),
]
