"""Behaviour-breaking edits used by `check sensitivity` (each applied alone to a scratch copy of the tree).

Each entry: (property, name, file, old, new) or (property, name, [(file, old, new), ...]).
`old` must occur exactly once in the file.
Every mutant still passes the 40 pinned tests (checked by `check sensitivity --with-tests`).
NOFALSE entries are behaviour-preserving edits: the quick check must stay at exit 0 on them.
"""

MUTANTS = [
    # ---------------- C11 ----------------
    ("C11", "succ-le", "bisturi/fragments.py",
     "if b2 < position + L:", "if b2 <= position + L:"),
    ("C11", "succ-test-dropped", "bisturi/fragments.py",
     "if i + 1 < len(self.begin_of_fragments):", "if False and i + 1 < len(self.begin_of_fragments):"),
    ("C11", "cursor-not-moved", "bisturi/fragments.py",
     "        self.current_offset = position + L\n", "        self.current_offset = max(self.current_offset, position + L)\n"),
    ("C11", "tobytes-insertion-order", "bisturi/fragments.py",
     "for offset, s in sorted(self.fragments.items()):", "for offset, s in self.fragments.items():"),
    ("C11", "end-offset-not-tracked", "bisturi/fragments.py",
     "            self.end_offset = max(self.end_offset, position)\n", ""),
    ("C11", "fragment-stored-before-check", "bisturi/fragments.py",
     "        i = bisect_right(self.begin_of_fragments, position) - 1\n        if self.fragments:",
     "        i = bisect_right(self.begin_of_fragments, position) - 1\n        self.fragments.setdefault(position, string)\n        if len(self.fragments) > 1:"),
    ("C11", "pred-test-off-by-one", "bisturi/fragments.py",
     "if b1 <= position < e1:", "if b1 <= position < e1 - 1:"),
    ("C11", "class-level-append-hint", [
        ("bisturi/fragments.py",
         "        i = bisect_right(self.begin_of_fragments, position) - 1\n        if self.fragments:",
         "        h = Fragments._hint\n        if h is not None and h[0] == position and h[2] == len(self.begin_of_fragments):\n            i = h[1]\n        else:\n            i = bisect_right(self.begin_of_fragments, position) - 1\n        Fragments._hint = (position + L, i + 1, len(self.begin_of_fragments) + 1)\n        if self.fragments:"),
        ("bisturi/fragments.py", "class Fragments:\n", "class Fragments:\n    _hint = None\n")]),
    # ---------------- C17 ----------------
    ("C17", "set-does-not-clear-flag", "bisturi/descriptor.py",
     "        setattr(instance, self.iam_enabled_attr_name, False)\n", "        pass\n"),
    ("C17", "delete-noop", "bisturi/descriptor.py",
     "        setattr(instance, self.iam_enabled_attr_name, True)\n", "        pass\n"),
    ("C17", "flag-on-descriptor", "bisturi/descriptor.py",
     "        iam_enabled = getattr(instance, self.iam_enabled_attr_name, True)\n",
     "        iam_enabled = getattr(self, '_last_enabled', True) if not hasattr(instance, self.iam_enabled_attr_name) else getattr(instance, self.iam_enabled_attr_name)\n        self._last_enabled = iam_enabled\n"),
    ("C17", "generated-sync-dropped", "bisturi/codegen.py",
     "        if not sync_methods:\n            return \"\"\n", "        if not sync_methods or sync_for_pack:\n            return \"\"\n"),
    ("C17", "ctor-ignores-described-keyword", "bisturi/packet.py",
     "                    setattr(self, descriptor_name, default_value)\n", "                    pass\n"),
    ("C17", "sync-copies-real-into-visible", "bisturi/descriptor.py",
     "        val = self.__get__(instance, type(instance))\n", "        val = getattr(instance, self.real_field_name, None) or self.__get__(instance, type(instance))\n"),
    ("C17", "sync-disables-auto", "bisturi/descriptor.py",
     "        # we only care that the real field has the same value\n        setattr(instance, self.real_field_name, val)\n",
     "        # we only care that the real field has the same value\n        self.__set__(instance, val)\n"),
]

NOFALSE = [
    ("C11", "rename-local", "bisturi/fragments.py", "        L = len(string)\n        if L == 0:", "        L = len(string)\n        if not string:"),
    ("C17", "getattr-default-explicit", "bisturi/descriptor.py",
     "        iam_enabled = getattr(instance, self.iam_enabled_attr_name, True)\n",
     "        try:\n            iam_enabled = getattr(instance, self.iam_enabled_attr_name)\n        except AttributeError:\n            iam_enabled = True\n"),
]


def edits(entry):
    if len(entry) == 3:
        return entry[0], entry[1], list(entry[2])
    prop, name, fn, old, new = entry
    return prop, name, [(fn, old, new)]
