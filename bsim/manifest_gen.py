"""Writes /verif/MANIFEST.json from one place so that it stays valid and in step with the engines."""
import json
import os

VERIF = os.path.dirname(os.path.dirname(os.path.abspath(__file__)))

NA = {
 "C01": "pure function of (declaration, bytes): no schedule, clock, fault or history in the statement; input generation is not simulation (DESIGN.md section 4). The one history-dependent failure mode (a delimiter remembered from another packet's parse) is decided under C13.",
 "C02": "pure function of (declaration, consistent values); nothing for a scheduler, clock or fault injector to decide.",
 "C03": "pure equivalence of two code paths over (declaration, options, input); the cache the generated code is loaded through is decided under C15/C16.",
 "C04": "unpack receives one complete bytes object; a truncated input is another input, not an EOF arriving at some instant, so truncation is input generation (observation F1 recorded in DESIGN.md, not claimed).",
 "C05": "pure function of (width, sign, byte order, value).",
 "C06": "pure function of (sizing mode, search window, input).",
 "C07": "pure function of (bit composition, bytes/values).",
 "C08": "pure function of (declaration, input).",
 "C09": "pure function of (expression tree, operand values); the history-dependent variant (a reused operand stack) is one of C13's sensitivity patches.",
 "C10": "pure function of (declaration, offset, input).",
 "C12": "pure function of (declaration, failing input/value); the property quantifies over failing inputs and values, which is input generation.",
 "C14": "metamorphic relation over inputs only.",
 "C18": "pure function of (declaration, pattern, corpus).",
 "C19": "pure function of (declaration, keyword subset); its 'fresh copy' clause is exercised, unclaimed, by C13's aliasing oracle.",
 "C20": "pure function of (declaration, pair of packets) (observation F6 recorded in DESIGN.md, not claimed).",
}

CHECKS = {
 "C11": dict(engine="histsim-fragments", section="3 (C11)",
             technique="deterministic simulation: seeded search over operation histories (incl. failing operations) against a sparse-array reference model, choice-sequence shrinking, exact replay",
             text="Seeded search over insert/append/extend/cursor-assignment histories (<=12 operations, occasionally up to 60 or after a bulk prefix of thousands of fragments; positions 0..40 biased to fragment edges, or far apart; empty chunks, chunks made of the fill byte or repeating stored bytes, failing operations; one or two live buffers) on the real Fragments class, compared after every operation with a sparse byte-array model (raise iff occupied, failed operation leaves bytes intact, cursor, rendering). Exploration, not proof: a clean batch is evidence. This component has no schedule, clock or I/O, so only the history/reference-model half of the technique applies.",
             note="trusts the 30-line sparse-array model and the reading that an empty chunk may raise or not; Fragments is imported from a snapshot of /repo's working tree"),
 "C17": dict(engine="histsim-auto", section="3 (C17)",
             technique="deterministic simulation: seeded search over per-instance operation histories (set/delete/construct/unpack/pack incl. failing packs) against an {explicit, tracked} reference model, choice-sequence shrinking, exact replay",
             text="Seeded search over histories of NEW/SET_TRACKED/SET_DESCRIBED/DEL/READ/PACK/UNPACK/REPARSE on 1-6 live packets of freshly defined classes (14 declarations incl. nested, element, chained, recursive and prototype-inherited described fields x six code-generation option sets), compared after every operation with the reference model; the only fault this component can suffer (pack failing after the pre-pack sync ran) is generated deliberately. Exploration, not the exhaustive enumeration the quantifier mentions.",
             note="trusts the reference model of Auto semantics (reads explicit value if set else computed; pack serialises what reads); class definitions go through the real metaclass and code generator into a scratch directory"),
 "C13": dict(engine="threadsim", section="3 (C13)",
             technique="deterministic simulation: baton-passed real threads pre-empted at sys.settrace line/opcode events under a seeded scheduler, differential replay against solo twins, aliasing and purity invariants, choice-sequence shrinking, exact replay",
             text="1-3 actor threads run Chooser-generated scripts (construct, parse valid/malformed, set, append/pop, pack, pack twice, read) on their own packets of 1-3 freshly defined declarations out of a pool of 36 (in a quarter of the runs with the library's cache/pool size bounds shrunk to 1-2); the scheduler decides every thread switch (whole-operation interleavings and pre-emption inside bisturi frames). Oracles: non-interference vs. the solo twin, no shared mutable sub-object, pack purity. Exploration over seeds.",
             note="trusts sys.settrace pre-emption points as the granularity of interleaving (line in quick, opcode in part of thorough); the GIL makes single bytecodes atomic, which is also true of real CPython threads"),
 "C15": dict(engine="cachesim-seq", section="3 (C15)",
             technique="deterministic simulation: simulated processes (private module tables) over a real scratch directory behind a file-system interposer with a simulated storage clock; seeded histories of definitions/edits/clock steps/janitor actions; differential oracle against a clean twin plus code-identity invariant; exact replay",
             text="Histories (<=8 steps) of DEFINE/EDIT/TICK/JANITOR over a family of 36 confusable same-named declarations (same-size, option-only, descriptor-only, parameter-only and mirrored-permutation pairs), in fresh and surviving simulated processes, with bytecode caching on or off and mtime ties/steps decided by the scheduler. After every definition each live class must behave and carry code identical to the same declaration defined on an empty cache. Exploration over seeds.",
             note="process boundary, pid and mtime clock are stubs (threads + private sys.modules overlays, utime-stamped simulated clock); CPython's import machinery, the kernel's tmpfs and all of bisturi are real; fidelity cross-checked against real python processes in the thorough tier"),
 "C16": dict(engine="cachesim-conc", section="3 (C16)",
             technique="deterministic simulation with fault injection: 2-3 simulated processes interleaved at every file-system call by a seeded scheduler, process death before any call and after any byte prefix of a write, file-system calls failing with ENOSPC/EDQUOT/EIO/EACCES/EMFILE/EROFS/ENOLCK while the process carries on, simulated storage clock; differential oracle against a clean twin plus code-identity invariant; crash points and failing calls of the sequential update enumerated exhaustively (a sample of scenarios in the quick tier, all in the thorough tier); exact replay",
             text="2-3 simulated processes define identical or different same-named classes concurrently from a drawn prior cache state; every file-system call is a yield point and a possible crash point (torn writes at any byte offset); afterwards 1-2 fault-free later processes define a variant. Every process not itself killed (and none of whose own calls were made to fail) must define its class, and every class that got defined must run exactly its own declaration's code. Both tiers additionally enumerate every crash point and every failing call of the sequential cache update (quick: 7 scenarios, thorough: 342).",
             note="as C15; process death is SimCrash raised from the seam plus lock-out of the dead process's later calls; buffering of open().write() is replaced by unbuffered writes split at chooser-chosen offsets (more prefixes than a real 8 KiB buffer shows)"),
}


def build(claimed):
    checks = []
    for pid in claimed:
        c = CHECKS[pid]
        checks.append({
            "property_id": pid,
            "quick_cmd": "./check %s --tier quick" % pid,
            "thorough_cmd": "./check %s --tier thorough" % pid,
            "evidence_file": "evidence/%s.json" % pid,
            "replay_cmd_template": "./check replay {path}",
            "engine": c["engine"],
            "level_claimed": {"category": "exploration", "text": c["text"], "design_ref": "DESIGN.md section " + c["section"]},
            "level_note": c["note"],
            "technique": c["technique"],
        })
    m = {
        "version": 1,
        "setup_cmd": "./check setup",
        "hooks": {
            "guard": "BISTURI_VERIF",
            "enable": "no source hooks: every seam (os.*, builtins.open, bisturi.codegen.SourceFileLoader, sys.settrace, sys.modules overlays) is interposed from outside; the guard name is reserved and unused",
            "baseline_off_cmd": "cd /repo && /venv/bin/python -m pytest -ra -q -p no:cacheprovider --timeout=900 --continue-on-collection-errors",
            "source_commits": [],
            "add_only": True,
        },
        "engines": [
            {"name": "histsim-fragments", "path": "bsim/histsim.py", "serves_properties": ["C11"], "kind_free_text": "seeded operation-history search against a reference model"},
            {"name": "histsim-auto", "path": "bsim/histsim_auto.py", "serves_properties": ["C17"], "kind_free_text": "seeded operation-history search against a reference model"},
            {"name": "threadsim", "path": "bsim/threadsim.py", "serves_properties": ["C13"], "kind_free_text": "baton-passing thread scheduler with settrace pre-emption, differential + invariant oracles"},
            {"name": "cachesim-seq", "path": "bsim/cachesim.py", "serves_properties": ["C15"], "kind_free_text": "simulated processes over an interposed file system with simulated storage clock"},
            {"name": "cachesim-conc", "path": "bsim/cachesim.py", "serves_properties": ["C16"], "kind_free_text": "same, concurrent processes with crash/torn-write injection"},
        ],
        "checks": checks,
        "notes": "Technique family: deterministic simulation with fault injection. 15 of 20 properties are pure functions of (declaration, input) and are listed under not_applicable with the reason (DESIGN.md sections 0 and 4). fix: commits in /repo are listed in known_findings.json as fixed entries.",
        "not_applicable": [{"property_id": k, "reason": v} for k, v in sorted(NA.items())],
    }
    # properties that are planned but not built yet are neither claimed nor declared not applicable
    with open(os.path.join(VERIF, "MANIFEST.json"), "w") as f:
        json.dump(m, f, indent=1)
        f.write("\n")
    return m


if __name__ == "__main__":
    import sys
    build(sys.argv[1:])
