"""Developer commands: sensitivity (mutants must be caught, behaviour-preserving edits must not),
determinism (same seed twice, fresh interpreters, other PYTHONHASHSEED, other worker counts)."""
import argparse
import hashlib
import json
import os
import shutil
import subprocess
import sys
import time

from . import runner
from .chooser import Chooser, run_seed

VERIF = runner.VERIF


def _copy_tree(dst, with_tests):
    shutil.rmtree(dst, ignore_errors=True)
    os.makedirs(dst)
    shutil.copytree(os.path.join(runner.REPO, "bisturi"), os.path.join(dst, "bisturi"),
                    ignore=shutil.ignore_patterns("__pycache__", "__pkts__"))
    if with_tests:
        shutil.copytree(os.path.join(runner.REPO, "tests"), os.path.join(dst, "tests"),
                        ignore=shutil.ignore_patterns("__pycache__", "__pkts__"))


def _apply(dst, fn, old, new):
    if fn == "patch":
        r = subprocess.run(["patch", "-p1", "-s", "-i", os.path.join(VERIF, "bsim", "mutant_patches", old)], cwd=dst, capture_output=True, text=True)
        return r.returncode == 0
    p = os.path.join(dst, fn)
    s = open(p).read()
    if s.count(old) != 1:
        return False
    open(p, "w").write(s.replace(old, new))
    return True


def sensitivity(argv):
    from .mutants import MUTANTS, NOFALSE, HARD, edits
    ap = argparse.ArgumentParser()
    ap.add_argument("--prop", default=None)
    ap.add_argument("--name", default=None)
    ap.add_argument("--with-tests", action="store_true")
    ap.add_argument("--tier", default="quick")
    ap.add_argument("--hard", action="store_true")
    a = ap.parse_args(argv)
    base = os.path.join(runner.scratch_root(), "mut")
    bad = 0
    rows = []
    for kind, lst in ((("mutant", HARD),) if a.hard else (("mutant", MUTANTS), ("nofalse", NOFALSE))):
        for entry in lst:
            prop, name, eds = edits(entry)
            if a.prop and prop != a.prop:
                continue
            if a.name and name != a.name:
                continue
            dst = os.path.join(base, "%s-%s" % (prop, name))
            _copy_tree(dst, a.with_tests)
            if not all(_apply(dst, fn, old, new) for fn, old, new in eds):
                print("%-8s %s %-34s PATCH-DOES-NOT-APPLY" % (kind, prop, name))
                bad += 1
                shutil.rmtree(dst, ignore_errors=True)
                continue
            tests = ""
            if a.with_tests:
                r = subprocess.run([runner.PY, "-m", "pytest", "-q", "-p", "no:cacheprovider", "-x", "tests"], cwd=dst,
                                   capture_output=True, text=True, env=dict(os.environ, PYTHONDONTWRITEBYTECODE="1"))
                last = (r.stdout.strip().splitlines() or ["?"])[-1]
                tests = "tests:%s" % ("pass" if r.returncode == 0 else "FAIL(%s)" % last)
                if r.returncode != 0:
                    bad += 1
            t0 = time.time()
            r = subprocess.run([os.path.join(VERIF, "check"), prop, "--tier", a.tier], capture_output=True, text=True,
                               env=dict(os.environ, BSIM_REPO=dst, BSIM_NO_EVIDENCE="1"))
            dt = time.time() - t0
            want = 1 if kind == "mutant" else 0
            ok = r.returncode == want
            oracle = ""
            for line in r.stdout.splitlines():
                if line.strip().startswith("oracle="):
                    oracle = line.strip()[:110]
                    break
                if line.startswith("HARNESS-ERROR"):
                    oracle = line[:160]
            print("%-8s %s %-34s exit=%d %s %5.1fs %s %s" % (kind, prop, name, r.returncode, "ok" if ok else "UNEXPECTED", dt, tests, oracle), flush=True)
            if not ok:
                bad += 1
                print(r.stdout[-1500:])
                print(r.stderr[-1500:])
            rows.append((kind, prop, name, r.returncode, ok))
            shutil.rmtree(dst, ignore_errors=True)
    # replays written while testing mutants are not findings on the real tree
    print("sensitivity: %d entries, %d unexpected" % (len(rows), bad))
    return 1 if bad else 0


# ---------------------------------------------------------------------------------------
def run_digests(eng, tier, seed, indices):
    """event-log digests of the given runs, computed in this interpreter"""
    tree, _ = runner.snapshot_tree()
    eng.init_worker(tree, os.path.join(runner.scratch_root(), "wDIGEST0"))
    res = {}
    for idx in indices:
        sc = eng.scenario(tier, idx)
        ch = Chooser(seed=run_seed(eng.prop, seed, idx))
        out = eng.execute(sc, ch)
        res[idx] = out.event_digest() + ":" + hashlib.sha256(repr(ch.values()).encode()).hexdigest()[:8]
    return res


def digest_cmd(argv):
    from . import engines
    ap = argparse.ArgumentParser()
    ap.add_argument("prop")
    ap.add_argument("--tier", default="quick")
    ap.add_argument("--seed", type=int, default=0)
    ap.add_argument("--start", type=int, default=0)
    ap.add_argument("--count", type=int, default=20)
    ap.add_argument("--indices", default=None)
    a = ap.parse_args(argv)
    eng = engines.for_property(a.prop)
    idxs = [int(x) for x in a.indices.split(",")] if a.indices else range(a.start, a.start + a.count)
    res = run_digests(eng, a.tier, a.seed, idxs)
    print(json.dumps(res, sort_keys=True))
    return 0


def main(argv):
    """determinism self-test: every engine, N runs, each computed (a) in-process twice, (b) in a fresh
    interpreter under PYTHONHASHSEED 1 and 2; all digests must agree"""
    from . import engines
    ap = argparse.ArgumentParser()
    ap.add_argument("--count", type=int, default=60)
    ap.add_argument("--prop", default=None)
    a = ap.parse_args(argv)
    bad = 0
    for eng in engines.all_engines():
        if a.prop and eng.prop != a.prop:
            continue
        t0 = time.time()
        base = run_digests(eng, "quick", 0, range(a.count))
        again = run_digests(eng, "quick", 0, reversed(range(a.count)))      # other order, same interpreter
        diffs = [i for i in base if base[i] != again[i]]
        for hs in ("1", "2"):
            r = subprocess.run([os.path.join(VERIF, "check"), "digest", eng.prop, "--count", str(a.count)], capture_output=True, text=True,
                               env=dict(os.environ, PYTHONHASHSEED=hs, BSIM_KEEP_HASHSEED="1"))
            if r.returncode != 0:
                print("selftest %s: fresh interpreter failed: %s" % (eng.prop, r.stderr[-800:]))
                bad += 1
                continue
            other = {int(k): v for k, v in json.loads(r.stdout.strip().splitlines()[-1]).items()}
            diffs += [i for i in base if base[i] != other[i]]
        print("selftest determinism %s (%s): %d runs x 4 executions, %d digest mismatches, %.1fs" % (eng.prop, eng.name, a.count, len(set(diffs)), time.time() - t0), flush=True)
        if diffs:
            print("  mismatching run indices: %s" % sorted(set(diffs))[:20])
            bad += 1
        if eng.prop == "C15":
            # the probes must be able to tell the members of every confusable pair of the family apart by BEHAVIOUR
            # (their generated code may well be identical: the difference then lives in a field object)
            from . import cachesim
            fam = {v: eng.twin("defs", cachesim.defs_text([("Foo", v)]))[0][0] for v in cachesim.VNAMES}
            pairs = [(a_, b_) for g in cachesim.MUST_DIFFER for a_ in g for b_ in g if a_ < b_]
            same = [pr for pr in pairs if fam[pr[0]] == fam[pr[1]]]
            print("selftest probes C15/C16: %d confusable pairs of declarations, %d the behaviour probes cannot tell apart %s" % (len(pairs), len(same), same or ""))
            bad += bool(same)
    return 2 if bad else 0
