"""The Chooser: the single source of every nondeterministic decision of a run.

search mode : draws come from a random.Random seeded from (property, VERIF_SEED, run index)
replay mode : draws come from a recorded list; when the list is exhausted every draw is 0,
              which by convention always means "the simplest thing": stay on the current
              actor, no fault, first alternative, smallest argument.

Every draw is recorded as (label, n, value), so a run is a pure function of
(engine, scenario parameters, list of values).  Logging never draws.
"""
import hashlib
import random


def run_seed(prop, verif_seed, run_index, salt=""):
    h = hashlib.sha256(("%s|%d|%d|%s" % (prop, verif_seed, run_index, salt)).encode()).digest()
    return int.from_bytes(h[:8], "big")


class Chooser:
    """Draws are kept in named streams ("main": what happens, "sched": who runs / who dies / where a
    write is cut, "clock": how far the storage clock moves), so that removing a decision of one kind
    while minimising does not shift the meaning of the decisions of the other kinds."""
    __slots__ = ("rng", "replay", "pos", "record")

    def __init__(self, seed=None, replay=None):
        if replay is not None:
            if isinstance(replay, (list, tuple)):
                replay = {"main": replay}
            self.replay = {k: [int(v) for v in vs] for k, vs in replay.items()}
            self.rng = None
        else:
            self.replay = None
            self.rng = random.Random(seed)
        self.pos = {}
        self.record = []

    # -- core ---------------------------------------------------------------------------
    def draw(self, label, n, stream="main"):
        """an int in [0, n); n <= 1 is not a decision and is not recorded"""
        if n <= 1:
            return 0
        if self.replay is not None:
            vs = self.replay.get(stream, ())
            i = self.pos.get(stream, 0)
            if i < len(vs):
                v = vs[i]
                if v >= n or v < 0:
                    v = v % n
            else:
                v = 0
            self.pos[stream] = i + 1
        else:
            v = self.rng.randrange(n)
        self.record.append((stream, label, n, v))
        return v

    # -- conveniences (all built on draw, so that 0 stays "simplest") ---------------------
    def chance(self, label, num, den, stream="main"):
        """True with probability num/den; the *high* values are the True ones, so that a
        zeroed draw means False (no fault, no pre-emption)"""
        return self.draw(label, den, stream) >= den - num

    def pick(self, label, seq, stream="main"):
        return seq[self.draw(label, len(seq), stream)]

    def weighted(self, label, weights, stream="main"):
        """index i with probability weights[i]/sum; index 0 is the 'simplest'"""
        total = sum(weights)
        v = self.draw(label, total, stream)
        acc = 0
        for i, w in enumerate(weights):
            acc += w
            if v < acc:
                return i
        return len(weights) - 1

    def int_between(self, label, lo, hi, stream="main"):
        """inclusive"""
        return lo + self.draw(label, hi - lo + 1, stream)

    def values(self):
        out = {}
        for (s, _, _, v) in self.record:
            out.setdefault(s, []).append(v)
        return out

    def labelled(self):
        return [[s, l, n, v] for (s, l, n, v) in self.record]


def digest(obj):
    return hashlib.sha256(repr(obj).encode()).hexdigest()[:16]
