"""C17 - the Auto/AutoLength machine: operation histories on described fields vs. a reference model.

Model per live packet and described field:  explicit: value | None.
    read  == explicit                 if explicit is not None
          == compute(tracked value)   otherwise           (tracked value read from the object)
    pack  == encode(reads, tracked)   or PacketError iff some read does not fit its field
"""
import os
import sys

from .chooser import digest
from .engines import Engine, register
from .runner import Outcome, import_fresh_bisturi
from . import project

# ---------------------------------------------------------------------------------------
# declarations (source text; OPTIONS is replaced per run)
# ---------------------------------------------------------------------------------------


def _fits(v, width):
    return isinstance(v, int) and not isinstance(v, bool) and 0 <= v < 256 ** width


class Described:
    def __init__(self, attr, tracked, width, compute, path=()):
        self.attr, self.tracked, self.width, self.compute, self.path = attr, tracked, width, compute, path


DECLS = [
    dict(
        name="alen",
        src="""
class P(Packet):
    __bisturi__ = OPTIONS
    length = Int(1).describe(AutoLength('d'))
    d = Data(length)
""",
        root="P", sub=(),
        described=[Described("length", "d", 1, len)],
        tracked={"d": "bytes"},
        encode=lambda r, t: bytes([r["length"]]) + t["d"],
        raw=lambda t, ch: bytes([len(t["d"])]) + t["d"],
    ),
    dict(
        name="abits",
        src="""
class P(Packet):
    __bisturi__ = OPTIONS
    nbits = Int(2).describe(Auto(lambda pkt: len(pkt.d) * 8))
    d = Data(nbits // 8)
""",
        root="P", sub=(),
        described=[Described("nbits", "d", 2, lambda v: len(v) * 8)],
        tracked={"d": "bytes"},
        encode=lambda r, t: r["nbits"].to_bytes(2, "big") + t["d"],
        raw=lambda t, ch: (len(t["d"]) * 8).to_bytes(2, "big") + t["d"],
    ),
    dict(
        name="two",
        src="""
class P(Packet):
    __bisturi__ = OPTIONS
    n = Int(1).describe(AutoLength('items'))
    items = Int(1).repeated(n)
    length = Int(1).describe(AutoLength('d'))
    d = Data(length)
""",
        root="P", sub=(),
        described=[Described("n", "items", 1, len), Described("length", "d", 1, len)],
        tracked={"items": "ints", "d": "bytes"},
        encode=lambda r, t: bytes([r["n"]]) + bytes(t["items"]) + bytes([r["length"]]) + t["d"],
        raw=lambda t, ch: bytes([len(t["items"])]) + bytes(t["items"]) + bytes([len(t["d"])]) + t["d"],
    ),
    dict(
        name="after",
        src="""
class P(Packet):
    __bisturi__ = OPTIONS
    d = Data(until_marker=b';')
    length = Int(2).describe(AutoLength('d'))
""",
        root="P", sub=(),
        described=[Described("length", "d", 2, len)],
        tracked={"d": "bytes-nosemi"},
        encode=lambda r, t: t["d"] + b";" + r["length"].to_bytes(2, "big"),
        # the length on the wire may disagree with the canonical one: after unpack the field must
        # still read as the computed value
        raw=lambda t, ch: t["d"] + b";" + ((len(t["d"]) + ch.draw("wire-length-skew", 4)) % 65536).to_bytes(2, "big"),
    ),
    dict(
        name="nested",
        src="""
class Inner(Packet):
    __bisturi__ = OPTIONS
    length = Int(1).describe(AutoLength('d'))
    d = Data(length)

class P(Packet):
    __bisturi__ = OPTIONS
    tag = Int(1, default=7)
    inner = Ref(Inner)
""",
        root="P", sub=("inner",),
        described=[Described("length", "d", 1, len)],
        tracked={"d": "bytes"},
        encode=lambda r, t: b"\x07" + bytes([r["length"]]) + t["d"],
        raw=lambda t, ch: b"\x07" + bytes([len(t["d"])]) + t["d"],
    ),
    dict(
        name="aligned",
        src="""
class P(Packet):
    __bisturi__ = OPTIONS
    tag = Int(1, default=7)
    length = Int(1).describe(AutoLength('d')).aligned(2)
    d = Data(length)
""",
        root="P", sub=(),
        described=[Described("length", "d", 1, len)],
        tracked={"d": "bytes"},
        encode=lambda r, t: b"\x07." + bytes([r["length"]]) + t["d"],
        raw=lambda t, ch: b"\x07." + bytes([len(t["d"])]) + t["d"],
    ),
]

OPTION_SETS = [
    {},
    {"generate_for_pack": False, "generate_for_unpack": False},
    {"vectorize": False},
    {"generate_for_pack": False},
    {"generate_for_unpack": False},
    {"annotate": False},
]


def _gen_tracked(kind, ch, uniq):
    if kind in ("bytes", "bytes-nosemi"):
        n = [0, 1, 2, 3, 5, 300][ch.weighted("tracked-len", [3, 4, 4, 3, 2, 1])]
        uniq[0] += 1
        return bytes(((uniq[0] * 7 + i) % 26) + 97 for i in range(n))
    n = ch.weighted("tracked-n", [3, 4, 3, 2])
    uniq[0] += 1
    return [(uniq[0] * 5 + i) % 256 for i in range(n)]


def _gen_explicit(width, ch):
    k = ch.weighted("explicit-value", [6, 3, 2, 2, 1])
    if k == 0:
        return ch.draw("explicit-small", 9)
    if k == 1:
        return 256 ** width - 1 - ch.draw("explicit-high", 2)
    if k == 2:
        return 256 ** width + ch.draw("explicit-over", 3)      # does not fit: pack fails after the sync ran
    if k == 3:
        return -1 - ch.draw("explicit-neg", 2)                   # does not fit
    return 0


@register
class AutoEngine(Engine):
    prop = "C17"
    name = "histsim-auto"
    tiers = {"quick": 6000, "thorough": 1500000}
    chunks = {"quick": 40, "thorough": 1000}
    rule = ("each case is a Chooser-generated history of 3..14 operations (NEW with/without the described keyword, "
            "SET_TRACKED, SET_DESCRIBED incl. values that do not fit, DEL_DESCRIBED, READ, PACK, UNPACK, REPARSE) on 1..3 "
            "live packets of one of six freshly defined declarations under a drawn code-generation option set; "
            "distinct = digest of (declaration, options, abstract operation list); non-trivial = the history contains "
            "an explicit set or a delete and at least one pack")
    assumptions = ["reference model: a described field reads its explicit value if one is set and not deleted, else the "
                   "value computed from the tracked field as it is now; pack serialises what reads, or raises PacketError "
                   "iff a read does not fit the field",
                   "tracked values are read back from the object after NEW/UNPACK (their correctness is C01/C02/C19, not C17)",
                   "no schedule, clock or I/O is involved: reference-model half of the technique only"]
    real_components = ["bisturi.descriptor.Auto/AutoLength", "bisturi.packet_builder (metaclass, slots, sync methods)",
                       "bisturi.codegen (generated pack/unpack incl. descriptor sync lines) loaded through a scratch __pkts__ cache",
                       "bisturi.packet / field / structural_fields"]
    stub_components = []
    expected_probes = ["set-delete-set", "delete-never-set", "failing-pack-then-read", "unpack-then-set",
                       "ctor-keyword-then-delete", "generated-path", "generic-path", "two-packets-one-class",
                       "wire-length-disagrees"]

    def init_worker(self, tree, wdir):
        self.tree = tree
        self.wdir = wdir
        os.makedirs(wdir, exist_ok=True)

    # ---------------------------------------------------------------------------------
    def execute(self, scenario, ch):
        out = Outcome()
        ev = out.events.append
        st = out.stats
        import_fresh_bisturi(self.tree)
        PacketError = sys.modules["bisturi.packet"].PacketError
        project.purge(["c17_"])
        pdir = project.fresh_dir(os.path.join(self.wdir, "p17"))

        di = ch.draw("decl", len(DECLS))
        oi = ch.draw("options", len(OPTION_SETS))
        decl = DECLS[di]
        opts = OPTION_SETS[oi]
        generated = opts.get("generate_for_pack", True) or opts.get("generate_for_unpack", True)
        st["probe:generated-path" if generated else "probe:generic-path"] += 1
        src = project.HEADER + decl["src"].replace("OPTIONS", repr(opts))
        mod = project.exec_module(pdir, "c17_%s" % decl["name"], src)
        Cls = getattr(mod, decl["root"])
        ev("decl=%s options=%r" % (decl["name"], opts))

        def target(p):
            for a in decl["sub"]:
                p = getattr(p, a)
            return p

        nops = 3 + ch.draw("n-ops", 12)
        uniq = [0]
        live = []        # list of [packet, {attr: explicit or None}, flags]
        history = []
        saw_set_or_del = saw_pack = False

        def violation(oracle, detail, actor=""):
            out.violation = {"oracle": oracle, "actor": actor, "detail": detail}
            ev("VIOLATION %s: %s" % (oracle, detail))

        def check_all(after):
            for i, (p, explicit, _) in enumerate(live):
                t = target(p)
                if hasattr(p, "__dict__") or hasattr(t, "__dict__"):
                    violation("C17.no-dict", "packet %d has a __dict__ after %s" % (i, after))
                    return False
                for d in decl["described"]:
                    try:
                        got = getattr(t, d.attr)
                    except Exception as e:
                        violation("C17.read", "reading %s of packet %d after %s raised %r" % (d.attr, i, after, e))
                        return False
                    want = explicit[d.attr] if explicit[d.attr] is not None else d.compute(getattr(t, d.tracked))
                    if got != want or type(got) is not type(want):
                        violation("C17.read", "packet %d: %s reads %r after %s, model says %r (explicit=%r, tracked %s=%r)" % (
                            i, d.attr, got, after, want, explicit[d.attr], d.tracked, getattr(t, d.tracked)))
                        return False
            return True

        def new_packet(slot):
            kw = {}
            explicit = {d.attr: None for d in decl["described"]}
            for name, kind in decl["tracked"].items():
                if ch.chance("give-tracked", 3, 4):
                    kw[name] = _gen_tracked(kind, ch, uniq)
            for d in decl["described"]:
                if ch.chance("give-described-keyword", 1, 3):
                    explicit[d.attr] = kw[d.attr] = _gen_explicit(d.width, ch)
            if decl["sub"]:
                inner_cls = getattr(mod, "Inner")
                p = Cls(**{decl["sub"][0]: inner_cls(**kw)}) if kw or ch.chance("explicit-inner", 1, 2) else Cls()
            else:
                p = Cls(**kw)
            return p, explicit, {"ctor_kw": any(v is not None for v in explicit.values())}, kw

        for step in range(nops):
            if not live:
                op = 0
            else:
                op = ch.weighted("op", [2, 4, 4, 3, 2, 5, 2, 1])
            # 0 NEW 1 SET_TRACKED 2 SET_DESCRIBED 3 DEL_DESCRIBED 4 READ 5 PACK 6 UNPACK 7 REPARSE
            if op == 0:
                slot = len(live) if len(live) < 3 else ch.draw("slot", 3)
                p, explicit, flags, kw = new_packet(slot)
                rec = [p, explicit, flags]
                if slot == len(live):
                    live.append(rec)
                else:
                    live[slot] = rec
                if len(live) >= 2:
                    st["probe:two-packets-one-class"] += 1
                history.append(("NEW", slot, tuple(sorted((k, repr(v)) for k, v in kw.items()))))
                ev("NEW slot=%d kw=%r" % (slot, kw))
            else:
                slot = ch.draw("slot", len(live))
                p, explicit, flags = live[slot]
                t = target(p)
                if op == 1:
                    name = ch.pick("which-tracked", sorted(decl["tracked"]))
                    v = _gen_tracked(decl["tracked"][name], ch, uniq)
                    setattr(t, name, v)
                    history.append(("SET_TRACKED", slot, name, len(v)))
                    ev("SET_TRACKED slot=%d %s=%r" % (slot, name, v))
                elif op == 2:
                    d = ch.pick("which-described", decl["described"])
                    v = _gen_explicit(d.width, ch)
                    setattr(t, d.attr, v)
                    if flags.get("deleted:" + d.attr):
                        st["probe:set-delete-set"] += 1
                    if flags.get("unpacked"):
                        st["probe:unpack-then-set"] += 1
                    explicit[d.attr] = v
                    flags["set:" + d.attr] = True
                    saw_set_or_del = True
                    history.append(("SET_DESCRIBED", slot, d.attr, v))
                    ev("SET_DESCRIBED slot=%d %s=%r" % (slot, d.attr, v))
                elif op == 3:
                    d = ch.pick("which-described", decl["described"])
                    try:
                        delattr(t, d.attr)
                    except Exception as e:
                        violation("C17.delete", "del %s on packet %d raised %r" % (d.attr, slot, e))
                        break
                    if explicit[d.attr] is None and not flags.get("set:" + d.attr):
                        st["probe:delete-never-set"] += 1
                    if flags.get("ctor_kw") and explicit[d.attr] is not None:
                        st["probe:ctor-keyword-then-delete"] += 1
                    if flags.get("set:" + d.attr):
                        flags["deleted:" + d.attr] = True
                    explicit[d.attr] = None
                    saw_set_or_del = True
                    history.append(("DEL_DESCRIBED", slot, d.attr))
                    ev("DEL_DESCRIBED slot=%d %s" % (slot, d.attr))
                elif op == 4:
                    history.append(("READ", slot))
                    if flags.get("pack_failed"):
                        st["probe:failing-pack-then-read"] += 1
                    ev("READ slot=%d -> %r" % (slot, [getattr(t, d.attr) for d in decl["described"]]))
                elif op in (5, 7):
                    reads = {}
                    fits = True
                    for d in decl["described"]:
                        reads[d.attr] = explicit[d.attr] if explicit[d.attr] is not None else d.compute(getattr(t, d.tracked))
                        fits = fits and _fits(reads[d.attr], d.width)
                    tracked = {name: getattr(t, name) for name in decl["tracked"]}
                    saw_pack = True
                    try:
                        raw = p.pack()
                        err = None
                    except PacketError as e:
                        raw, err = None, e
                    except Exception as e:
                        violation("C17.pack-outcome", "pack of packet %d raised %r instead of PacketError" % (slot, e))
                        break
                    history.append(("PACK" if op == 5 else "REPARSE", slot, fits))
                    ev("%s slot=%d -> %r" % ("PACK" if op == 5 else "REPARSE", slot, raw if err is None else "PacketError"))
                    if err is not None:
                        st["fault:pack-failed-after-sync"] += 1
                        flags["pack_failed"] = True
                        if fits:
                            violation("C17.pack-outcome", "pack of packet %d failed (%s) although every described field fits: reads=%r" % (
                                slot, str(err.original_error_message)[:80], reads))
                            break
                    else:
                        if not fits:
                            violation("C17.pack-outcome", "pack of packet %d returned %r although reads=%r do not fit" % (slot, raw, reads))
                            break
                        want = decl["encode"](reads, tracked)
                        if raw != want:
                            violation("C17.pack-bytes", "pack of packet %d returned %r, but the attributes read %r (tracked %r) i.e. %r" % (
                                slot, raw, reads, tracked, want))
                            break
                        if op == 7:
                            # an explicit value that disagrees with the tracked field makes the bytes
                            # unparsable: an ordinary outcome (consistency is C02's business, not C17's)
                            try:
                                q = Cls.unpack(raw)
                            except PacketError as e:
                                q = None
                                ev("  reparse failed: %s" % str(e.original_error_message)[:60])
                            if q is not None:
                                nslot = len(live) if len(live) < 3 else ch.draw("slot", 3)
                                rec = [q, {d.attr: None for d in decl["described"]}, {"unpacked": True}]
                                if nslot == len(live):
                                    live.append(rec)
                                else:
                                    live[nslot] = rec
                                if len(live) >= 2:
                                    st["probe:two-packets-one-class"] += 1
                elif op == 6:
                    tv = {name: _gen_tracked(kind, ch, uniq) for name, kind in sorted(decl["tracked"].items())}
                    tv = {k: (v[:200] if isinstance(v, bytes) else v) for k, v in tv.items()}
                    raw = decl["raw"](tv, ch)
                    canon = decl["encode"]({d.attr: d.compute(tv[d.tracked]) for d in decl["described"]}, tv)
                    if raw != canon:
                        st["probe:wire-length-disagrees"] += 1
                    k = ch.weighted("raw-damage", [6, 1, 1])
                    if k == 1:
                        raw = raw + b"zz"
                    elif k == 2 and len(raw) > 1:
                        raw = raw[:ch.int_between("cut", 1, len(raw) - 1)]
                        st["fault:truncated-input"] += 1
                    try:
                        q = Cls.unpack(raw)
                    except PacketError:
                        q = None
                    history.append(("UNPACK", slot, len(raw), k))
                    ev("UNPACK slot=%d raw=%r -> %s" % (slot, raw, "PacketError" if q is None else "ok"))
                    if q is not None:
                        live[slot] = [q, {d.attr: None for d in decl["described"]}, {"unpacked": True}]
            if out.violation is not None:
                break
            if not check_all(history[-1][0] + repr(history[-1][1:])):
                break
            out.state_sigs += tuple(digest((decl["name"], tuple((k, v is not None) for k, v in sorted(e.items())),
                                            tuple(min(len(getattr(target(p), n)), 9) for n in sorted(decl["tracked"]))))
                                    for (p, e, _) in live)

        out.case_sig = digest((decl["name"], oi, tuple(history)))
        out.nontrivial = saw_set_or_del and saw_pack
        out.sample = {"decl": decl["name"], "options": opts, "ops": [list(map(str, h)) for h in history]}
        out.steps = len(history)
        return out
