"""C17 - the Auto/AutoLength machine: operation histories on described fields vs. a reference model.

A live packet has one or more *hosts* (the packets that own described fields: the packet itself, a
nested packet, or the element packets of a repeated Ref).  Model per host and described field:
    explicit: value | None
    read  == explicit                            if explicit is not None
          == compute(tracked values, reads of the described fields it depends on)   otherwise
    pack  == encode(reads, tracked)  or PacketError iff some read does not fit its field
Tracked values are always re-read from the object (their correctness is not C17's business).
"""
import os
import sys

from .chooser import digest
from .engines import Engine, register
from .runner import Outcome, import_fresh_bisturi
from . import project


class D:
    """a described field: attribute name, kind ('int' | 'bytes' | 'bits'), width, compute(t, r)"""

    def __init__(self, attr, kind, width, compute):
        self.attr, self.kind, self.width, self.compute = attr, kind, width, compute

    def fits(self, v):
        if self.kind == "bytes":
            return isinstance(v, bytes) and len(v) == self.width
        if not isinstance(v, int) or isinstance(v, bool):
            return False
        if self.kind == "bits":
            return 0 <= v < (1 << self.width)
        return 0 <= v < 256 ** self.width


def _i(n, w=1):
    return n.to_bytes(w, "big")


def _host_self(p):
    return [p]


def _box(h, kids):
    r, t = h
    return _i(r["size"], 2) + _i(r["plen"]) + _i(r["count"]) + t["payload"] + b"".join(kids)


DECLS = [
    dict(name="alen", root="P", nhosts=1, hosts=_host_self,
         src="""
class P(Packet):
    __bisturi__ = OPTIONS
    length = Int(1).describe(AutoLength('d'))
    d = Data(length)
""",
         described=[D("length", "int", 1, lambda t, r: len(t["d"]))], tracked={"d": "bytes"},
         encode=lambda hs: _i(hs[0][0]["length"]) + hs[0][1]["d"],
         raw=lambda ts, ch: _i(len(ts[0]["d"])) + ts[0]["d"]),
    dict(name="abits", root="P", nhosts=1, hosts=_host_self,
         src="""
class P(Packet):
    __bisturi__ = OPTIONS
    nbits = Int(2).describe(Auto(lambda pkt: len(pkt.d) * 8))
    d = Data(nbits // 8)
""",
         described=[D("nbits", "int", 2, lambda t, r: len(t["d"]) * 8)], tracked={"d": "bytes"},
         encode=lambda hs: _i(hs[0][0]["nbits"], 2) + hs[0][1]["d"],
         raw=lambda ts, ch: _i(len(ts[0]["d"]) * 8, 2) + ts[0]["d"]),
    dict(name="two", root="P", nhosts=1, hosts=_host_self,
         src="""
class P(Packet):
    __bisturi__ = OPTIONS
    n = Int(1).describe(AutoLength('items'))
    items = Int(1).repeated(n)
    length = Int(1).describe(AutoLength('d'))
    d = Data(length)
""",
         described=[D("n", "int", 1, lambda t, r: len(t["items"])), D("length", "int", 1, lambda t, r: len(t["d"]))],
         tracked={"items": "ints", "d": "bytes"},
         encode=lambda hs: _i(hs[0][0]["n"]) + bytes(hs[0][1]["items"]) + _i(hs[0][0]["length"]) + hs[0][1]["d"],
         raw=lambda ts, ch: _i(len(ts[0]["items"])) + bytes(ts[0]["items"]) + _i(len(ts[0]["d"])) + ts[0]["d"]),
    dict(name="after", root="P", nhosts=1, hosts=_host_self,
         src="""
class P(Packet):
    __bisturi__ = OPTIONS
    d = Data(until_marker=b';')
    length = Int(2).describe(AutoLength('d'))
""",
         described=[D("length", "int", 2, lambda t, r: len(t["d"]))], tracked={"d": "bytes"},
         encode=lambda hs: hs[0][1]["d"] + b";" + _i(hs[0][0]["length"], 2),
         # the length on the wire may disagree with the canonical one: after unpack the field must
         # still read as the computed value
         raw=lambda ts, ch: ts[0]["d"] + b";" + _i((len(ts[0]["d"]) + ch.draw("wire-length-skew", 4)) % 65536, 2)),
    dict(name="nested", root="P", nhosts=1, hosts=lambda p: [p.inner],
         src="""
class Inner(Packet):
    __bisturi__ = OPTIONS
    length = Int(1).describe(AutoLength('d'))
    d = Data(length)

class P(Packet):
    __bisturi__ = OPTIONS
    tag = Int(1, default=7)
    inner = Ref(Inner)
""",
         ctor=lambda mod, kws, ch: mod.P(inner=mod.Inner(**kws[0])) if (kws[0] or ch.chance("explicit-inner", 1, 2)) else mod.P(),
         described=[D("length", "int", 1, lambda t, r: len(t["d"]))], tracked={"d": "bytes"},
         encode=lambda hs: b"\x07" + _i(hs[0][0]["length"]) + hs[0][1]["d"],
         raw=lambda ts, ch: b"\x07" + _i(len(ts[0]["d"])) + ts[0]["d"]),
    dict(name="aligned", root="P", nhosts=1, hosts=_host_self,
         src="""
class P(Packet):
    __bisturi__ = OPTIONS
    tag = Int(1, default=7)
    length = Int(1).describe(AutoLength('d')).aligned(2)
    d = Data(length)
""",
         described=[D("length", "int", 1, lambda t, r: len(t["d"]))], tracked={"d": "bytes"},
         encode=lambda hs: b"\x07." + _i(hs[0][0]["length"]) + hs[0][1]["d"],
         raw=lambda ts, ch: b"\x07." + _i(len(ts[0]["d"])) + ts[0]["d"]),
    # an Auto whose function reads another described field (the order of the pre-pack syncs matters)
    dict(name="chain", root="P", nhosts=1, hosts=_host_self,
         src="""
class P(Packet):
    __bisturi__ = OPTIONS
    total = Int(1).describe(Auto(lambda p: p.length + 1))
    length = Int(1).describe(AutoLength('d'))
    d = Data(length)
""",
         described=[D("length", "int", 1, lambda t, r: len(t["d"])),
                    D("total", "int", 1, lambda t, r: (r["length"] + 1) if isinstance(r["length"], int) else None)],
         tracked={"d": "bytes"},
         encode=lambda hs: _i(hs[0][0]["total"]) + _i(hs[0][0]["length"]) + hs[0][1]["d"],
         raw=lambda ts, ch: _i((len(ts[0]["d"]) + 1 + ch.draw("wire-total-skew", 3)) % 256) + _i(len(ts[0]["d"])) + ts[0]["d"]),
    # a described Data field next to a described Int
    dict(name="databytes", root="P", nhosts=1, hosts=_host_self,
         src="""
class P(Packet):
    __bisturi__ = OPTIONS
    tag = Data(2).describe(Auto(lambda p: bytes([len(p.d) % 256, 0xAA])))
    n = Int(1).describe(AutoLength('d'))
    d = Data(n)
""",
         described=[D("tag", "bytes", 2, lambda t, r: bytes([len(t["d"]) % 256, 0xAA])), D("n", "int", 1, lambda t, r: len(t["d"]))],
         tracked={"d": "bytes"},
         encode=lambda hs: hs[0][0]["tag"] + _i(hs[0][0]["n"]) + hs[0][1]["d"],
         raw=lambda ts, ch: [bytes([len(ts[0]["d"]) % 256, 0xAA]), b"zz"][ch.draw("wire-tag-skew", 2)] + _i(len(ts[0]["d"])) + ts[0]["d"]),
    # AutoLength of a list of packets
    dict(name="pktlist", root="P", nhosts=1, hosts=_host_self,
         src="""
class Sub(Packet):
    __bisturi__ = OPTIONS
    v = Int(1)

class P(Packet):
    __bisturi__ = OPTIONS
    n = Int(1).describe(AutoLength('subs'))
    subs = Ref(Sub).repeated(n)
""",
         described=[D("n", "int", 1, lambda t, r: len(t["subs"]))], tracked={"subs": "pkts:Sub"},
         encode=lambda hs: _i(hs[0][0]["n"]) + bytes(s.v for s in hs[0][1]["subs"]),
         raw=lambda ts, ch: _i(len(ts[0]["subs"])) + bytes(ts[0]["subs"])),
    # described fields in the element packets of a repeated Ref: two hosts per packet
    dict(name="elements", root="P", nhosts=2, hosts=lambda p: list(p.els),
         src="""
class El(Packet):
    __bisturi__ = OPTIONS
    length = Int(1).describe(AutoLength('d'))
    d = Data(length)

class P(Packet):
    __bisturi__ = OPTIONS
    k = Int(1, default=2)
    els = Ref(El).repeated(k)
""",
         ctor=lambda mod, kws, ch: mod.P(k=len(kws), els=[mod.El(**kw) for kw in kws]),
         described=[D("length", "int", 1, lambda t, r: len(t["d"]))], tracked={"d": "bytes"},
         encode=lambda hs: _i(len(hs)) + b"".join(_i(r["length"]) + t["d"] for r, t in hs),
         raw=lambda ts, ch: _i(len(ts)) + b"".join(_i(len(t["d"])) + t["d"] for t in ts)),
    # the prototype of a Ref carries an explicit value: every default-built packet starts with it
    dict(name="proto", root="P", nhosts=1, hosts=lambda p: [p.inner],
         src="""
class Inner(Packet):
    __bisturi__ = OPTIONS
    length = Int(1).describe(AutoLength('d'))
    d = Data(length)

class P(Packet):
    __bisturi__ = OPTIONS
    tag = Int(1, default=7)
    inner = Ref(Inner(length=7, d=b'ab'))
""",
         ctor=lambda mod, kws, ch: mod.P(inner=mod.Inner(**kws[0])) if kws[0] else mod.P(),
         default_explicit={"length": 7},
         described=[D("length", "int", 1, lambda t, r: len(t["d"]))], tracked={"d": "bytes"},
         encode=lambda hs: b"\x07" + _i(hs[0][0]["length"]) + hs[0][1]["d"],
         raw=lambda ts, ch: b"\x07" + _i(len(ts[0]["d"])) + ts[0]["d"]),
    # ... and the same with an explicit value that EQUALS the field's default while every other field of the prototype is
    # at its default too: the prototype compares equal to a freshly built packet although it is not one
    dict(name="protozero", root="P", nhosts=1, hosts=lambda p: [p.inner],
         src="""
class Inner(Packet):
    __bisturi__ = OPTIONS
    length = Int(1).describe(AutoLength('d'))
    d = Data(length, default=b'xy')

class P(Packet):
    __bisturi__ = OPTIONS
    tag = Int(1, default=7)
    inner = Ref(Inner(length=0))
""",
         ctor=lambda mod, kws, ch: mod.P(inner=mod.Inner(**kws[0])) if kws[0] else mod.P(),
         default_explicit={"length": 0},
         described=[D("length", "int", 1, lambda t, r: len(t["d"]))], tracked={"d": "bytes"},
         encode=lambda hs: b"\x07" + _i(hs[0][0]["length"]) + hs[0][1]["d"],
         raw=lambda ts, ch: b"\x07" + _i(len(ts[0]["d"])) + ts[0]["d"]),
    # a described bit field
    dict(name="bitsdesc", root="P", nhosts=1, hosts=_host_self,
         src="""
class P(Packet):
    __bisturi__ = OPTIONS
    x = Bits(4).describe(Auto(lambda p: len(p.d) & 15))
    y = Bits(4, default=5)
    d = Data(until_marker=b';')
""",
         described=[D("x", "bits", 4, lambda t, r: len(t["d"]) & 15)], tracked={"d": "bytes"},
         encode=lambda hs: _i((hs[0][0]["x"] << 4) | 5) + hs[0][1]["d"] + b";",
         raw=lambda ts, ch: _i((((len(ts[0]["d"]) + ch.draw("wire-x-skew", 2)) & 15) << 4) | 5) + ts[0]["d"] + b";"),
    # a container of packets of its own class whose Auto reads the same described field of its children
    # (TLV trees, boxes): hosts are the two children, then the top box
    dict(name="tree", root="Box", nhosts=3, hosts=lambda p: list(p.boxes) + [p],
         src="""
class Nothing(Packet):
    __bisturi__ = OPTIONS
    z = Int(1)

class Box(Packet):
    __bisturi__ = OPTIONS
    size = Int(2).describe(Auto(lambda p: 4 + len(p.payload) + sum(b.size for b in p.boxes)))
    plen = Int(1).describe(AutoLength('payload'))
    count = Int(1).describe(AutoLength('boxes'))
    payload = Data(plen)
    boxes = Ref(lambda **k: Box(), default=Nothing()).repeated(count)
""",
         ctor=lambda mod, kws, ch: mod.Box(boxes=[mod.Box(**kws[0]), mod.Box(**kws[1])], **kws[2]),
         described=[D("plen", "int", 1, lambda t, r: len(t["payload"])), D("count", "int", 1, lambda t, r: len(t["boxes"])),
                    D("size", "int", 2, lambda t, r: 4 + len(t["payload"]) + sum(b.size for b in t["boxes"]))],
         tracked={"payload": "bytes", "boxes": "ro"},
         encode=lambda hs: _box(hs[-1], [_box(h, []) for h in hs[:-1]]),
         raw=lambda ts, ch: (lambda kids: _i(4 + len(ts[-1]["payload"]) + sum(len(k) for k in kids), 2) + _i(len(ts[-1]["payload"])) + _i(len(kids)) + ts[-1]["payload"] + b"".join(kids))(
             [_i(4 + len(t["payload"]), 2) + _i(len(t["payload"])) + _i(0) + t["payload"] for t in ts[:-1]])),
]

OPTION_SETS = [
    {},
    {"generate_for_pack": False, "generate_for_unpack": False},
    {"vectorize": False},
    {"generate_for_pack": False},
    {"generate_for_unpack": False},
    {"annotate": False},
]

# per-run bounds (swarm style): (max operations, max live packets)
PROFILES = [(14, 3), (14, 3), (14, 3), (45, 6)]


def _gen_tracked(kind, ch, uniq):
    if kind == "bytes":
        n = [0, 1, 2, 3, 5, 300][ch.weighted("tracked-len", [3, 4, 4, 3, 2, 1])]
        uniq[0] += 1
        return bytes(((uniq[0] * 7 + i) % 26) + 97 for i in range(n))
    n = [0, 1, 2, 3, 260][ch.weighted("tracked-n", [6, 8, 6, 4, 1])]       # 260 elements: the computed count does not fit an Int(1)
    uniq[0] += 1
    return [(uniq[0] * 5 + i) % 256 for i in range(n)]


def _gen_explicit(d, ch):
    if d.kind == "bytes":
        # always of the declared length: a fixed-size Data given a value of another length is padded or cut by
        # struct's "2s" in generated code and emitted as it is by the generic code (C03/C06 territory, not C17's)
        k = ch.weighted("explicit-bytes", [4, 2, 1])
        return [b"xy", b"\x00\x00", b"\xff\xfe"][k] if k != 0 else bytes([65 + ch.draw("explicit-b", 20), 66])
    if d.kind == "bits":
        return ch.draw("explicit-bits", 1 << d.width)
    k = ch.weighted("explicit-value", [6, 3, 2, 2, 2])
    if k == 0:
        return ch.draw("explicit-small", 9)
    if k == 1:
        return 256 ** d.width - 1 - ch.draw("explicit-high", 2)
    if k == 2:
        return 256 ** d.width + ch.draw("explicit-over", 3)      # does not fit: pack fails after the sync ran
    if k == 3:
        return -1 - ch.draw("explicit-neg", 2)                       # does not fit
    return 0                                                         # falsy explicit value


@register
class AutoEngine(Engine):
    prop = "C17"
    name = "histsim-auto"
    tiers = {"quick": 8000, "thorough": 1500000}
    chunks = {"quick": 40, "thorough": 1000}
    rule = ("each case is a Chooser-generated history of 3..14 (one run in four: up to 45) operations (NEW with/without the described "
            "keyword, SET_TRACKED, in-place mutation of a tracked list, SET_DESCRIBED incl. values that do not fit and falsy ones, DEL_DESCRIBED, READ, PACK, UNPACK, REPARSE) "
            "on 1..3 (or up to 6) live packets of one of fourteen freshly defined declarations (AutoLength / Auto on Int, Data and Bits; two "
            "described fields; a described field after its tracked field, in a nested packet, in element packets of a repeated Ref, "
            "aligned, chained Autos, tracking a list of packets, explicit value inherited from a Ref prototype, a recursive box whose Auto reads its children's described field) under a drawn "
            "code-generation option set; distinct = digest of (declaration, options, abstract operation list); non-trivial = the "
            "history contains an explicit set or a delete and at least one pack")
    assumptions = ["reference model: a described field reads its explicit value if one is set and not deleted, else the "
                   "value computed from the tracked field(s) as they are now; pack serialises what reads, or raises PacketError "
                   "iff a read does not fit the field",
                   "tracked values are read back from the object after every operation (their correctness is C01/C02/C19, not C17)",
                   "described Bits get in-range explicit values only (out-of-range bit values are reduced modulo 2^width by design)",
                   "no schedule, clock or I/O is involved: reference-model half of the technique only"]
    real_components = ["bisturi.descriptor.Auto/AutoLength", "bisturi.packet_builder (metaclass, slots, sync methods)",
                       "bisturi.codegen (generated pack/unpack incl. descriptor sync lines) loaded through a scratch __pkts__ cache",
                       "bisturi.packet / field / structural_fields"]
    stub_components = []
    expected_probes = ["set-delete-set", "delete-never-set", "failing-pack-then-read", "unpack-then-set",
                       "ctor-keyword-then-delete", "generated-path", "generic-path", "two-packets-one-class",
                       "wire-value-disagrees", "long-history", "falsy-explicit", "prototype-explicit-inherited", "tracked-list-mutated-in-place"]

    def init_worker(self, tree, wdir):
        self.tree = tree
        self.wdir = wdir
        os.makedirs(wdir, exist_ok=True)

    # ---------------------------------------------------------------------------------
    def execute(self, scenario, ch):
        out = Outcome()
        ev = out.events.append
        st = out.stats
        import_fresh_bisturi(self.tree)
        PacketError = sys.modules["bisturi.packet"].PacketError
        project.purge(["c17_"])
        pdir = project.fresh_dir(os.path.join(self.wdir, "p17"))

        di = ch.draw("decl", len(DECLS))
        oi = ch.draw("options", len(OPTION_SETS))
        decl = DECLS[di]
        opts = OPTION_SETS[oi]
        generated = opts.get("generate_for_pack", True) or opts.get("generate_for_unpack", True)
        st["probe:generated-path" if generated else "probe:generic-path"] += 1
        src = project.HEADER + decl["src"].replace("OPTIONS", repr(opts))
        mod = project.exec_module(pdir, "c17_%s" % decl["name"], src)
        Cls = getattr(mod, decl["root"])
        ev("decl=%s options=%r" % (decl["name"], opts))
        described = decl["described"]
        max_ops, max_live = PROFILES[ch.draw("profile", len(PROFILES))]
        if max_ops > 14:
            st["probe:long-history"] += 1
        nops = 3 + ch.draw("n-ops", max_ops - 2)
        uniq = [0]
        live = []        # records: [packet, [explicit dict per host], flags]
        history = []
        saw_set_or_del = saw_pack = False

        def violation(oracle, detail, actor=""):
            out.violation = {"oracle": oracle, "actor": actor, "detail": detail}
            ev("VIOLATION %s: %s" % (oracle, detail))

        def tracked_of(host):
            return {name: getattr(host, name) for name in decl["tracked"]}

        def wants(host, explicit):
            """what every described field of this host must read as, in dependency order"""
            t = tracked_of(host)
            r = {}
            for d in described:
                r[d.attr] = explicit[d.attr] if explicit[d.attr] is not None else d.compute(t, r)
            return r, t

        def check_all(after):
            for i, (p, explicits, _) in enumerate(live):
                try:
                    hosts = decl["hosts"](p)
                except Exception as e:
                    violation("C17.read", "packet %d lost its structure after %s: %r" % (i, after, e))
                    return False
                if hasattr(p, "__dict__") or any(hasattr(h, "__dict__") for h in hosts):
                    violation("C17.no-dict", "packet %d has a __dict__ after %s" % (i, after))
                    return False
                for hi, h in enumerate(hosts):
                    if hi >= len(explicits):
                        break
                    want, t = wants(h, explicits[hi])
                    for d in described:
                        try:
                            got = getattr(h, d.attr)
                        except Exception as e:
                            violation("C17.read", "reading %s of packet %d after %s raised %r" % (d.attr, i, after, e))
                            return False
                        if got != want[d.attr] or type(got) is not type(want[d.attr]):
                            violation("C17.read", "packet %d host %d: %s reads %r after %s, model says %r (explicit=%r, tracked %r)" % (
                                i, hi, d.attr, got, after, want[d.attr], explicits[hi][d.attr], _short(t)))
                            return False
            return True

        def build_tracked(kind, spec):
            if kind.startswith("pkts:"):
                sub = getattr(mod, kind.split(":")[1])
                return [sub(v=x) for x in spec]
            return spec

        def new_packet():
            kws = []
            explicits = []
            desc = []
            inherited = False
            for hi in range(decl["nhosts"]):
                kw = {}
                explicit = {d.attr: None for d in described}
                for name, kind in sorted(decl["tracked"].items()):
                    if kind != "ro" and ch.chance("give-tracked", 3, 4):
                        spec = _gen_tracked("bytes" if kind == "bytes" else "ints", ch, uniq)
                        kw[name] = build_tracked(kind, spec)
                        desc.append((hi, name, len(spec)))
                for d in described:
                    if ch.chance("give-described-keyword", 1, 3):
                        explicit[d.attr] = kw[d.attr] = _gen_explicit(d, ch)
                        desc.append((hi, d.attr, repr(explicit[d.attr])))
                kws.append(kw)
                explicits.append(explicit)
            ctor = decl.get("ctor")
            p = ctor(mod, kws, ch) if ctor else Cls(**kws[0])
            if decl.get("default_explicit") and not kws[0]:
                # a default-built packet inherits what the prototype of its Ref was given explicitly
                for k, v in decl["default_explicit"].items():
                    explicits[0][k] = v
                inherited = True
            return p, explicits, {"ctor_kw": any(v is not None for e in explicits for v in e.values())}, tuple(desc), inherited

        for step in range(nops):
            op = 0 if not live else ch.weighted("op", [2, 4, 4, 3, 2, 5, 2, 1, 2])
            # 0 NEW 1 SET_TRACKED 2 SET_DESCRIBED 3 DEL_DESCRIBED 4 READ 5 PACK 6 UNPACK 7 REPARSE 8 MUTATE_TRACKED (in place)
            if op == 0:
                slot = len(live) if len(live) < max_live else ch.draw("slot", max_live)
                p, explicits, flags, desc, inherited = new_packet()
                if inherited:
                    st["probe:prototype-explicit-inherited"] += 1
                rec = [p, explicits, flags]
                if slot == len(live):
                    live.append(rec)
                else:
                    live[slot] = rec
                if len(live) >= 2:
                    st["probe:two-packets-one-class"] += 1
                history.append(("NEW", slot, desc))
                ev("NEW slot=%d %r" % (slot, desc))
            else:
                slot = ch.draw("slot", len(live))
                p, explicits, flags = live[slot]
                hosts = decl["hosts"](p)
                hi = ch.draw("host", min(len(hosts), len(explicits)))
                h, explicit = hosts[hi], explicits[hi]
                if op == 1:
                    name = ch.pick("which-tracked", sorted(k for k, v in decl["tracked"].items() if v != "ro"))
                    kind = decl["tracked"][name]
                    spec = _gen_tracked("bytes" if kind == "bytes" else "ints", ch, uniq)
                    setattr(h, name, build_tracked(kind, spec))
                    history.append(("SET_TRACKED", slot, hi, name, len(spec)))
                    ev("SET_TRACKED slot=%d host=%d %s=%r" % (slot, hi, name, _short(spec)))
                elif op == 8:
                    lists = sorted(k for k, v in decl["tracked"].items() if v != "bytes" and v != "ro" and isinstance(getattr(h, k, None), list))
                    if not lists:
                        history.append(("READ", slot))
                    else:
                        name = ch.pick("which-list", lists)
                        lst = getattr(h, name)
                        if lst and ch.chance("pop?", 1, 3):
                            lst.pop()
                            what = "pop"
                        else:
                            uniq[0] += 1
                            lst.append(build_tracked(decl["tracked"][name], [uniq[0] % 250])[0] if decl["tracked"][name].startswith("pkts:") else uniq[0] % 250)
                            what = "append"
                        st["probe:tracked-list-mutated-in-place"] += 1
                        history.append(("MUTATE_TRACKED", slot, hi, name, what))
                        ev("MUTATE_TRACKED slot=%d host=%d %s.%s() -> len %d" % (slot, hi, name, what, len(lst)))
                elif op == 2:
                    d = ch.pick("which-described", described)
                    v = _gen_explicit(d, ch)
                    setattr(h, d.attr, v)
                    if flags.get("deleted:%d:%s" % (hi, d.attr)):
                        st["probe:set-delete-set"] += 1
                    if flags.get("unpacked"):
                        st["probe:unpack-then-set"] += 1
                    if not v:
                        st["probe:falsy-explicit"] += 1
                    explicit[d.attr] = v
                    flags["set:%d:%s" % (hi, d.attr)] = True
                    saw_set_or_del = True
                    history.append(("SET_DESCRIBED", slot, hi, d.attr, repr(v)))
                    ev("SET_DESCRIBED slot=%d host=%d %s=%r" % (slot, hi, d.attr, v))
                elif op == 3:
                    d = ch.pick("which-described", described)
                    try:
                        delattr(h, d.attr)
                    except Exception as e:
                        violation("C17.delete", "del %s on packet %d raised %r" % (d.attr, slot, e))
                        break
                    if explicit[d.attr] is None and not flags.get("set:%d:%s" % (hi, d.attr)):
                        st["probe:delete-never-set"] += 1
                    if flags.get("ctor_kw") and explicit[d.attr] is not None:
                        st["probe:ctor-keyword-then-delete"] += 1
                    if flags.get("set:%d:%s" % (hi, d.attr)):
                        flags["deleted:%d:%s" % (hi, d.attr)] = True
                    explicit[d.attr] = None
                    saw_set_or_del = True
                    history.append(("DEL_DESCRIBED", slot, hi, d.attr))
                    ev("DEL_DESCRIBED slot=%d host=%d %s" % (slot, hi, d.attr))
                elif op == 4:
                    history.append(("READ", slot))
                    if flags.get("pack_failed"):
                        st["probe:failing-pack-then-read"] += 1
                    ev("READ slot=%d -> %r" % (slot, [[getattr(x, d.attr) for d in described] for x in hosts]))
                elif op in (5, 7):
                    hv = [wants(x, explicits[k]) for k, x in enumerate(hosts) if k < len(explicits)]
                    fits = all(d.fits(r[d.attr]) for r, _ in hv for d in described)
                    saw_pack = True
                    try:
                        raw = p.pack()
                        err = None
                    except PacketError as e:
                        raw, err = None, e
                    except Exception as e:
                        violation("C17.pack-outcome", "pack of packet %d raised %r instead of PacketError" % (slot, e))
                        break
                    history.append(("PACK" if op == 5 else "REPARSE", slot, fits))
                    ev("%s slot=%d -> %r" % ("PACK" if op == 5 else "REPARSE", slot, _short(raw) if err is None else "PacketError"))
                    if err is not None:
                        st["fault:pack-failed-after-sync"] += 1
                        flags["pack_failed"] = True
                        if fits:
                            violation("C17.pack-outcome", "pack of packet %d failed (%s) although every described field fits: reads=%r" % (
                                slot, str(err.original_error_message)[:80], [r for r, _ in hv]))
                            break
                    else:
                        if not fits:
                            violation("C17.pack-outcome", "pack of packet %d returned %r although reads=%r do not fit" % (slot, _short(raw), [r for r, _ in hv]))
                            break
                        want = decl["encode"](hv)
                        if raw != want:
                            violation("C17.pack-bytes", "pack of packet %d returned %r, but the attributes read %r (tracked %r) i.e. %r" % (
                                slot, _short(raw), [r for r, _ in hv], _short([t for _, t in hv]), _short(want)))
                            break
                        if op == 7:
                            # an explicit value that disagrees with the tracked field makes the bytes
                            # unparsable: an ordinary outcome (consistency is C02's business, not C17's)
                            try:
                                q = Cls.unpack(raw)
                            except PacketError as e:
                                q = None
                                ev("  reparse failed: %s" % str(e.original_error_message)[:60])
                            if q is not None:
                                self._install(live, q, decl, described, max_live, ch, st)
                elif op == 6:
                    ts = []
                    for k in range(decl["nhosts"]):
                        t = {}
                        for name, kind in sorted(decl["tracked"].items()):
                            if kind == "ro":
                                continue
                            v = _gen_tracked("bytes" if kind == "bytes" else "ints", ch, uniq)
                            t[name] = v[:200]           # what goes on the wire must fit its one-byte count / length
                        ts.append(t)
                    raw = decl["raw"](ts, ch)
                    canon = decl["raw"](ts, _Zero())
                    if raw != canon:
                        st["probe:wire-value-disagrees"] += 1
                    k = ch.weighted("raw-damage", [6, 1, 1])
                    if k == 1:
                        raw = raw + b"zz"
                    elif k == 2 and len(raw) > 1:
                        raw = raw[:ch.int_between("cut", 1, len(raw) - 1)]
                        st["fault:truncated-input"] += 1
                    try:
                        q = Cls.unpack(raw)
                    except PacketError:
                        q = None
                    history.append(("UNPACK", slot, len(raw), k))
                    ev("UNPACK slot=%d raw=%r -> %s" % (slot, _short(raw), "PacketError" if q is None else "ok"))
                    if q is not None:
                        try:
                            nh = len(decl["hosts"](q))
                        except Exception:
                            nh = 0
                        live[slot] = [q, [{d.attr: None for d in described} for _ in range(nh)], {"unpacked": True}]
            if out.violation is not None:
                break
            if not check_all(history[-1][0] + repr(history[-1][1:])):
                break
            out.state_sigs += tuple(digest((decl["name"], tuple(tuple((k, v is not None) for k, v in sorted(e.items())) for e in es)))
                                    for (p, es, _) in live)

        out.case_sig = digest((decl["name"], oi, tuple(history)))
        out.nontrivial = saw_set_or_del and saw_pack
        out.sample = {"decl": decl["name"], "options": opts, "ops": [list(map(str, h)) for h in history][:20]}
        out.steps = len(history)
        return out

    def _install(self, live, q, decl, described, max_live, ch, st):
        try:
            nh = len(decl["hosts"](q))
        except Exception:
            nh = 0
        nslot = len(live) if len(live) < max_live else ch.draw("slot", max_live)
        rec = [q, [{d.attr: None for d in described} for _ in range(nh)], {"unpacked": True}]
        if nslot == len(live):
            live.append(rec)
        else:
            live[nslot] = rec
        if len(live) >= 2:
            st["probe:two-packets-one-class"] += 1


class _Zero:
    """a chooser that always answers 0: gives the canonical wire encoding"""

    def draw(self, label, n, stream="main"):
        return 0


def _short(v):
    s = repr(v)
    return s if len(s) <= 160 else s[:150] + "...(%d chars)" % len(s)
