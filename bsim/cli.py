import argparse
import os
import sys


def main(argv):
    from . import engines, runner
    if not argv:
        print(__doc__ or "usage: check <Cxx> [--tier quick|thorough] | replay FILE | selftest | sensitivity")
        return 2
    cmd = argv[0]
    if cmd == "replay":
        ap = argparse.ArgumentParser()
        ap.add_argument("file")
        ap.add_argument("--quiet", action="store_true")
        a = ap.parse_args(argv[1:])
        return runner.replay_file(None, a.file, quiet=a.quiet)
    if cmd == "setup":
        # nothing is fetched or built: check that the interpreter, the tree and the scratch area are there
        tree, dig = runner.snapshot_tree()
        runner.import_fresh_bisturi(tree)
        import bisturi
        print("setup ok: python %s, bisturi snapshot %s (from %s), scratch %s" % (sys.version.split()[0], dig, runner.REPO, runner.scratch_root()))
        return 0
    if cmd == "regress":
        # every replay that failed before a fix: commit must not reproduce on the current tree
        import glob
        bad = 0
        files = sorted(glob.glob(os.path.join(runner.VERIF, "regress", "*", "*.json")) + glob.glob(os.path.join(runner.VERIF, "regress", "*.json")))
        for f in files:
            rc = runner.replay_file(None, f, quiet=True)
            bad += 1 if rc else 0
        print("regress: %d replays, %d reproduce on this tree" % (len(files), bad))
        return 1 if bad else 0
    if cmd == "selftest":
        from . import selftest
        return selftest.main(argv[1:])
    if cmd == "sensitivity":
        from . import selftest
        return selftest.sensitivity(argv[1:])
    if cmd == "digest":
        from . import selftest
        return selftest.digest_cmd(argv[1:])
    ap = argparse.ArgumentParser()
    ap.add_argument("prop")
    ap.add_argument("--tier", default=os.environ.get("VERIF_TIER", "quick"), choices=["quick", "thorough"])
    ap.add_argument("--runs", type=int, default=None)
    ap.add_argument("--jobs", type=int, default=None)
    ap.add_argument("--no-determinism-prefix", action="store_true")
    ap.add_argument("--focus", default=None, help="developer aid: restrict the scenarios of an engine that supports it")
    a = ap.parse_args(argv)
    eng = engines.for_property(a.prop)
    if a.focus:
        eng.focus = a.focus
        os.environ["BSIM_NO_DETERMINISM_PREFIX"] = "1"
    return runner.run_check(eng, a.tier, jobs=a.jobs, runs=a.runs)
