"""Engine base class and registry."""


class Engine:
    prop = None
    name = None
    level = "exploration"
    rule = ""
    assumptions = []
    real_components = []
    stub_components = []
    expected_probes = []
    watchdog_s = 180
    shrink_budget = 400
    tiers = {"quick": 1000, "thorough": 10000}
    chunks = {"quick": 50, "thorough": 500}

    def runs(self, tier):
        return self.tiers[tier]

    def chunk(self, tier):
        return self.chunks[tier]

    focus = None

    def scenario(self, tier, idx):
        return {"focus": self.focus} if self.focus else {}

    def init_worker(self, tree, wdir):
        pass

    def execute(self, scenario, chooser):
        raise NotImplementedError

    def extra_phase(self, tier, seed, pool, tree, scratch):
        return {}

    def attribute(self, rp, open_known):
        return None

    def shrink_scenario(self, scenario, values, test_factory):
        return values, scenario


_REG = {}


def register(cls):
    _REG[cls.name] = cls()
    return cls


def get(name):
    _load()
    return _REG[name]


def for_property(prop):
    _load()
    for e in _REG.values():
        if e.prop == prop:
            return e
    raise KeyError(prop)


def all_engines():
    _load()
    return list(_REG.values())


_loaded = False


def _load():
    global _loaded
    if _loaded:
        return
    _loaded = True
    import importlib
    for m in ("histsim", "histsim_auto", "threadsim", "cachesim"):
        try:
            importlib.import_module("bsim." + m)
        except ModuleNotFoundError as e:
            if e.name != "bsim." + m:
                raise
