#!/venv/bin/python
''' check_fixes.py -- which of the six fixes is applied to /tmp/wt/nfZ/bisturi,
    does it change what it is meant to change, and is everything else as in
    the original package?

      /venv/bin/python check_fixes.py [--expect N] [-v]

    The same scenarios are run twice, each in its own process:
      - with PYTHONPATH=/tmp/wt/nfZ/orig_pkg  (the pristine package)
      - with PYTHONPATH=/tmp/wt/nfZ           (the working tree)
    and a third/fourth time with 'python -O' for the probes only.

    Every process runs a private copy of this file (--worker) in its own
    scratch folder so they don't share the __pkts__ cache.

    The worker prints a JSON with two parts:
      'regress': observations (values, packed bytes, error conditions) over a
                 dozen and a half varied packet classes, each one with
                 generated and with generic code. None of them touches a
                 behaviour that a fix changes on purpose: this part must be
                 IDENTICAL in both packages.
      'probes':  one probe per fix that exercises exactly the behaviour that
                 the fix changes. A probe equal to the original's means "fix
                 not applied"; a different one must satisfy what the fix
                 promises (and keep what it promises to keep).

    Exit code: 0 if the regression part is identical and every probe is either
    the original's or the expected new behaviour (and --expect matches);
    1 otherwise.
    '''
import sys, os, json, subprocess, shutil

HERE = '/tmp/wt/nfZ'
ORIG = os.path.join(HERE, 'orig_pkg')
SCRATCH = os.path.join(HERE, '_check_tmp')
PYTHON = '/venv/bin/python'

# ---------------------------------------------------------------------------
#                                WORKER
# ---------------------------------------------------------------------------

GENERIC = {'generate_for_pack': False, 'generate_for_unpack': False}


def worker_main(only_probes):
    import re, struct, threading
    import bisturi
    from bisturi.packet import Packet, PacketError
    from bisturi.field import Int, Data, Bits, Ref, Em, EOS
    from bisturi.descriptor import Auto, AutoLength
    from bisturi.fragments import Fragments

    # ------------------------------------------------------------ helpers
    def j(obj):
        ''' Something that json can dump and that shows the types. '''
        if isinstance(obj, (bytes, bytearray)):
            return type(obj).__name__ + ':' + bytes(obj).hex()
        if isinstance(obj, Packet):
            return dump(obj)
        if isinstance(obj, (list, tuple)):
            return [j(o) for o in obj]
        if isinstance(obj, dict):
            return {str(k): j(v) for k, v in obj.items()}
        if obj is None or isinstance(obj, (int, str, bool)):
            return obj
        return '<%s>' % type(obj).__name__

    def dump(pkt):
        d = {'__pkt__': pkt.__class__.__name__}
        for name, f, _, _ in pkt.get_fields():
            if name.startswith('_shift_to_'):
                continue
            d[name] = j(getattr(pkt, name, '<unset>'))
            dname = getattr(f, 'descriptor_name', None)
            if dname:
                d[dname] = j(getattr(pkt, dname, '<unset>'))
        return d

    def err(e, msg=True):
        ''' The error condition: what was raised, where, when. Never str(e)
            of a PacketError (that is what the fix 4 changes). '''
        if isinstance(e, PacketError):
            d = {
                'raised': 'PacketError',
                'unpacking': e.was_error_found_in_unpacking_phase,
                'stack': [list(s) for s in e.fields_stack],
            }
            if msg:
                d['message'] = e.original_error_message
            return d
        d = {'raised': type(e).__name__}
        if msg:
            d['message'] = str(e)
        return d

    def try_unpack(cls, raw, msg=True, **kw):
        try:
            pkt = cls.unpack(raw, **kw)
        except Exception as e:
            return err(e, msg)
        if pkt is None:
            return {'ok': None}
        out = {'ok': dump(pkt)}
        try:
            out['repack'] = j(pkt.pack())
            out['repack_again'] = (pkt.pack() == pkt.pack())
            out['after_pack'] = (dump(pkt) == out['ok'])
        except Exception as e:
            out['repack'] = err(e, msg)
        return out

    def try_pack(pkt, msg=True):
        try:
            return j(pkt.pack())
        except Exception as e:
            return err(e, msg)

    def attempt(fn, msg=True):
        try:
            return j(fn())
        except Exception as e:
            return err(e, msg)

    # ------------------------------------------------------------ classes
    def build(conf):
        ''' The packet classes of the regression; conf selects generated or
            generic code. '''
        C = {}

        class Point(Packet):
            __bisturi__ = dict(conf)
            x = Int(1)
            y = Int(1)

        class Basic(Packet):
            __bisturi__ = dict(conf)
            a = Int(1)
            b = Int(2)
            c = Int(4, signed=True)
            d = Int(8, endianness='little')
            e = Int(2, default=0xbeef)

        class OddInts(Packet):
            __bisturi__ = dict(conf)
            a = Int(3)
            b = Int(5, signed=True, endianness='little')
            c = Int(6, default=7)
            d = Int(7, signed=True)

        class Flags16(Packet):
            __bisturi__ = dict(conf)
            f1 = Bits(3)
            f2 = Bits(13, default=5)
            tail = Int(1)

        class Flags24(Packet):
            __bisturi__ = dict(conf)
            head = Int(1)
            f1 = Bits(4)
            f2 = Bits(4)
            f3 = Bits(1)
            f4 = Bits(15)

        class Sized(Packet):
            __bisturi__ = dict(conf)
            n = Int(1)
            payload = Data(n)
            fixed = Data(3)
            twice = Data(n * 2)
            rest = Data(until_marker=EOS)

        class Lines(Packet):
            __bisturi__ = dict(conf)
            first = Data(until_marker=b'\r\n')
            second = Data(until_marker=re.compile(b'[;,]'))
            third = Data(until_marker=b'|', include_delimiter=True)
            fourth = Data(until_marker=b'##', consume_delimiter=False)
            mark = Data(2)

        class Nested(Packet):
            __bisturi__ = dict(conf)
            begin = Ref(Point(x=1, y=2))
            end = Ref(Point)
            direct = Point
            tag = Int(2)

        class Seq(Packet):
            __bisturi__ = dict(conf)
            count = Int(1)
            nums = Int(2).repeated(count)
            pts = Ref(Point).repeated(until=lambda pkt, **k: pkt.pts[-1].x == 0)
            extra = Int(1).repeated(count, when=lambda pkt, **k: pkt.count > 2)

        class Opt(Packet):
            __bisturi__ = dict(conf)
            t = Int(1)
            a = Int(2).when(t)
            b = Data(2).when(t == 1)
            p = Ref(Point).when(t > 1, default=Point(x=3))

        class Positioned(Packet):
            __bisturi__ = dict(conf)
            a = Int(1)
            b = Int(2).at(4)
            c = Int(1).aligned(4)
            d = Data(2).shift(1)
            e = Em()
            f = Int(1).at(1)

        class Collide(Packet):
            __bisturi__ = dict(conf)
            a = Int(4)
            b = Int(2).at(2)

        class Aligned(Packet):
            __bisturi__ = dict(conf, align=4)
            a = Int(1)
            b = Int(2)
            c = Data(3)
            d = Int(1)

        class AutoLen(Packet):
            __bisturi__ = dict(conf)
            length = Int(1).describe(AutoLength('payload'))
            payload = Data(length)
            bits = Int(2).describe(Auto(lambda pkt: len(pkt.payload) * 8))

        class Choose(Packet):
            __bisturi__ = dict(conf)
            kind = Int(1)
            value = Ref(
                lambda pkt, **k: {1: Int(1), 2: Int(2)}.get(pkt.kind, Point()),
                default=0
            )
            after = Int(1)

        class Embed(Packet):
            __bisturi__ = dict(conf)
            p2d = Ref(Point(x=1, y=2), embed=True)
            z = Int(1)

        class Defaults(Packet):
            __bisturi__ = dict(conf)
            t = Int(1)
            nums = Int(1).repeated(2, default=[1, 2])
            pts = Ref(Point).repeated(2, default=[Point(x=1), Point(y=2)])
            o = Ref(Point).when(t, default=Point(x=9))
            n = Int(2).when(t, default=7)
            raw = Data(2, default=b'zz')

        class Little(Packet):
            __bisturi__ = dict(conf, endianness='little', vectorize=False)
            a = Int(2)
            b = Int(4)
            c = Int(2, endianness='big')
            d = Int(1).repeated(2)

        for k, v in list(locals().items()):
            if isinstance(v, type) and issubclass(v, Packet) and v is not Packet:
                C[k] = v
        return C

    # ---------------------------------------------------------- regression
    def regress(conf):
        R = {}
        C = build(conf)
        Point = C['Point']

        # valid inputs (full length) for each class; 'sweep' means that every
        # prefix of the input is tried too (classes whose truncation does not
        # hit a behaviour changed on purpose: odd-sized integers -- fix 1)
        valid = {
            'Point': ([b'\x01\x02', b'\xff\x00'], True, True),
            'Basic': ([
                bytes(range(1, 18)), b'\xff' * 17, b'\x00' * 17 + b'extra'
            ], True, True),
            'OddInts': ([
                bytes(range(1, 22)), b'\xff' * 21, b'\x80' + b'\x00' * 20,
                b'\x00' * 21 + b'tail'
            ], False, True),
            'Flags16': ([b'\xa5\x5a\x01', b'\xff\xff\xff'], True, True),
            'Flags24': ([b'\x01\xa5\x5a\xc3', b'\x00\xff\xff\xff'], False, True),
            'Sized': ([
                b'\x02ABfixWXYZthe rest', b'\x00fix', b'\x01AfixWX'
            ], True, True),
            # the messages of a missing delimiter are what the fix 3 changes
            'Lines': ([
                b'one\r\ntwo;three|four##', b'\r\n,|####',
                b'a\r\nb,c|d##more'
            ], True, False),
            'Nested': ([bytes(range(8)), b'\xff' * 8], True, True),
            'Seq': ([
                b'\x02\x00\x01\x00\x02\x05\x05\x00\x00',
                b'\x00\x00\x09',
                b'\x03\x00\x01\x00\x02\x00\x03\x01\x01\x00\x01\x07\x08\x09',
            ], True, True),
            'Opt': ([b'\x00', b'\x01\x00\x07ab', b'\x02\x00\x07\x05\x06'],
                    True, True),
            'Positioned': ([b'\x01\x09..\x00\x02..\x03.xy'], True, True),
            'Collide': ([b'\x00\x01\x02\x03'], True, True),
            'Aligned': ([b'\x01...\x00\x02..abc.\x07'], True, True),
            'AutoLen': ([b'\x02ab\x00\x10', b'\x00\x00\x00', b'\x03abc\xff\xff'],
                        True, True),
            'Choose': ([b'\x01\x07\x09', b'\x02\x01\x02\x09', b'\x05\x01\x02\x09'],
                       True, True),
            'Embed': ([b'\x01\x02\x03'], True, True),
            'Defaults': ([
                b'\x00\x01\x02\x01\x00\x00\x02zz',
                b'\x01\x01\x02\x01\x00\x00\x02\x09\x00\x00\x07zz'
            ], True, True),
            'Little': ([b'\x01\x00\x02\x00\x00\x00\x00\x03\x04\x05'], True,
                       True),
        }

        for name, cls in sorted(C.items()):
            raws, sweep, msg = valid[name]
            r = R[name] = {}

            # defaults
            r['default'] = attempt(lambda: dump(cls()))
            r['default_packed'] = attempt(lambda: cls().pack(), msg)
            r['two_defaults_share_nothing'] = attempt(
                lambda: [
                    getattr(cls(), n, 0) is getattr(cls(), n, 1)
                    for n, *_ in cls.get_fields()
                    if isinstance(getattr(cls(), n, None), (list, Packet))
                ]
            )

            # unpack + pack again
            for raw in raws:
                r['unpack ' + raw.hex()] = try_unpack(cls, raw, msg)
                r['unpack@3 ' + raw.hex()] = try_unpack(
                    cls, b'###' + raw, msg, offset=3
                )
                if sweep:
                    for cut in range(len(raw)):
                        r['cut%i %s' % (cut, raw.hex())] = try_unpack(
                            cls, raw[:cut], msg
                        )
                    r['silent ' + raw.hex()] = try_unpack(
                        cls, raw[:len(raw) // 2], msg, silent=True
                    )

            # wrong kind of input (the message names the types accepted:
            # fix 5 changes it, the type of the error is the same)
            for bad in ('text', None, 7, [1, 2]):
                r['unpack %r' % (bad, )] = try_unpack(cls, bad, msg=False)

            # independence: parse one, look at the other
            a, b = cls(), cls()
            before = attempt(lambda: (dump(b), b.pack()), msg)
            attempt(lambda: cls.unpack(raws[0]))
            attempt(lambda: a.pack())
            r['bystander_unchanged'] = (
                attempt(lambda: (dump(b), b.pack()), msg) == before
            )

        # ---- equality and repr of ordinary packets (no moves, no Em)
        Basic, Nested, Seq, Opt = C['Basic'], C['Nested'], C['Seq'], C['Opt']
        e = R['eq_repr'] = {}
        for cls in (Point, Basic, Nested, Seq, Opt, C['Defaults'],
                    C['OddInts'], C['Flags24'], C['Little']):
            p, q = cls(), cls()
            n = cls.__name__
            e[n + ' eq'] = attempt(lambda: [p == q, p != q, p == 1, p != 1])
            e[n + ' repr'] = attempt(lambda: repr(p))
            e[n + ' hash'] = attempt(lambda: hash(p), msg=False)
            first = cls.get_fields()[0][0]
            attempt(lambda: setattr(q, first, 1 if getattr(q, first) != 1 else 2))
            e[n + ' neq'] = attempt(lambda: [p == q, p != q])
        u = Nested.unpack(bytes(range(8)))
        e['unpacked eq'] = [
            u == Nested.unpack(bytes(range(8))), u == Nested(),
            u != Nested.unpack(bytes(range(8)))
        ]
        e['unpacked repr'] = repr(u)
        e['seq repr'] = repr(Seq.unpack(b'\x01\x00\x01\x05\x05\x00\x00'))

        # ---- constructing with values and packing; pack errors
        k = R['construct'] = {}
        k['basic'] = try_pack(Basic(a=1, b=2, c=-3, d=4, e=5))
        k['basic too big'] = try_pack(Basic(a=256))
        k['basic negative'] = try_pack(Basic(b=-1))
        k['basic str'] = try_pack(Basic(a='x'), msg=False)
        k['odd'] = try_pack(C['OddInts'](a=0x010203, b=-2, c=1, d=-(2**55)))
        k['odd too big'] = try_pack(C['OddInts'](a=2**24), msg=False)
        k['flags'] = try_pack(C['Flags24'](head=1, f1=0xa, f2=5, f3=1, f4=0x1234))
        k['flags16'] = try_pack(C['Flags16'](f1=7, f2=0x1fff, tail=9))
        k['sized'] = try_pack(C['Sized'](n=2, payload=b'ab', twice=b'wxyz'))
        k['sized text'] = try_pack(C['Sized'](payload='text'), msg=False)
        k['lines'] = try_pack(
            C['Lines'](first=b'1', second=b'2', third=b'3|', fourth=b'4')
        )
        k['nested'] = try_pack(Nested(begin=Point(x=7), tag=0x0102))
        k['nested deep error'] = try_pack(Nested(end=Point(y=300)))
        k['seq'] = try_pack(
            Seq(count=2, nums=[1, 2], pts=[Point(x=1), Point()], extra=[9])
        )
        k['seq deep error'] = try_pack(Seq(pts=[Point(), Point(x=-1)]))
        k['opt'] = try_pack(Opt(t=5, a=1, b=b'zz'))
        k['opt none'] = try_pack(Opt(p=None))
        k['positioned'] = try_pack(C['Positioned'](a=1, b=2, c=3, d=b'xy', f=9))
        k['collide'] = try_pack(C['Collide']())
        k['aligned'] = try_pack(C['Aligned'](a=1, b=2, c=b'abc', d=7))
        k['choose 1'] = try_pack(C['Choose'](kind=1, value=7, after=1))
        k['choose 2'] = try_pack(C['Choose'](kind=2, value=0x0102, after=1))
        k['choose pkt'] = try_pack(C['Choose'](kind=9, value=Point(x=4)))
        k['choose stuck'] = try_pack(C['Choose'](kind=9, value=4), msg=False)
        k['embed'] = try_pack(C['Embed'](x=7, z=1))
        k['little'] = try_pack(C['Little'](a=1, b=2, c=3, d=[4, 5]))
        k['defaults'] = try_pack(C['Defaults'](t=1))
        k['consistency'] = [
            attempt(lambda: cls().assert_consistency(dont_raise=True))
            for _, cls in sorted(C.items())
        ]

        # ---- defaults: every packet its own copy (nothing mutated after the
        #      definition of the class: that is what the fix 6 changes)
        D = C['Defaults']
        d1, d2 = D(), D()
        d1.nums.append(3)
        d1.pts[0].x = 100
        d1.o.y = 50
        R['defaults'] = {
            'd1': dump(d1),
            'd2': dump(d2),
            'd3': dump(D()),
            'shared': [
                d1.nums is d2.nums, d1.pts is d2.pts, d1.pts[0] is d2.pts[0],
                d1.o is d2.o
            ],
            'given': dump(D(nums=[7], pts=[], o=None, n=None)),
        }

        # ---- Auto / AutoLength histories
        A = C['AutoLen']
        h = R['auto'] = {}
        p = A()
        steps = []

        def snap(label):
            steps.append([label, p.length, p.bits, j(p.payload), j(p.pack()),
                          p.length, p.bits, hasattr(p, '__dict__')])

        snap('new')
        p.payload = b'abc'; snap('payload=abc')
        p.length = 1; snap('length=1')
        p.payload = b'abcd'; snap('payload=abcd')
        del p.length; snap('del length')
        p.bits = 3; snap('bits=3')
        del p.bits; del p.length; snap('del both')
        p = A.unpack(b'\x02ab\x00\x07'); snap('unpack')
        p.payload = b'x'; snap('unpack, payload=x')
        del p.length; snap('unpack, del length')
        del p.bits; snap('unpack, del bits')
        p = A(length=9, payload=b'q'); snap('ctor length=9')
        del p.length; snap('ctor, del length')
        h['steps'] = steps

        # ---- Fragments as a sparse array
        fr = R['fragments'] = {}
        for i, ops in enumerate([
            [(0, b'ab'), (2, b'cd')],
            [(4, b'ab'), (0, b'cd'), (2, b'ef')],
            [(0, b'abcd'), (2, b'x')],
            [(2, b'x'), (0, b'abcd')],
            [(5, b''), (1, b'z')],
            [(3, b'abc'), (0, b'abc'), (6, b'')],
            [(3, b'abc'), (1, b'abc')],
            [(0, b'a'), (1, b'b'), (1, b'')],
        ]):
            f = Fragments()
            log = []
            for pos, chunk in ops:
                try:
                    f.insert(pos, chunk)
                    log.append(['ok', f.current_offset])
                except Exception as e:
                    log.append([type(e).__name__, str(e), f.current_offset])
            log.append(j(f.tobytes()))
            fr[str(i)] = log
        f = Fragments()
        f.append(b'ab'); f.extend([b'c', b'', b'de'])
        fr['append'] = [j(f.tobytes()), f.current_offset]

        # ---- threads: distinct packets of one class
        raws = [bytes([i, 0, i, 0, i + 1] + [i] * 2 + [0, 0]) for i in (1, 2, 3)]
        expected = [try_unpack(Seq, raw) for raw in raws]
        got = {}

        def run(i):
            out = []
            for _ in range(50):
                out.append(try_unpack(Seq, raws[i]))
            got[i] = all(o == expected[i] for o in out)

        ts = [threading.Thread(target=run, args=(i, )) for i in range(3)]
        [t.start() for t in ts]
        [t.join() for t in ts]
        R['threads'] = [got.get(i) for i in range(3)]
        return R

    # --------------------------------------------------------------- probes
    def probes(conf):
        P = {}

        class Point(Packet):
            __bisturi__ = dict(conf)
            x = Int(1)
            y = Int(1)

        # ---- 1. strict integers
        class OddInts(Packet):
            __bisturi__ = dict(conf)
            a = Int(1)
            b = Int(3)
            c = Int(5, signed=True, endianness='little')

        class Flags24(Packet):
            __bisturi__ = dict(conf)
            f1 = Bits(4)
            f2 = Bits(12)
            f3 = Bits(8)

        class OddSeq(Packet):
            __bisturi__ = dict(conf)
            n = Int(1)
            s = Int(6).repeated(n)
            o = Int(7).when(n)

        class OddRef(Packet):
            __bisturi__ = dict(conf)
            r = Ref(lambda **k: Int(3), default=0)

        class OddOuter(Packet):
            __bisturi__ = dict(conf)
            h = Int(1)
            inner = Ref(OddInts)

        p1 = P['1'] = {}
        for cls, full in ((OddInts, b'\x01\x00\x00\x02\xfe\xff\xff\xff\xff'),
                          (Flags24, b'\x12\x34\x56'),
                          (OddSeq, b'\x02' + b'\x01' * 12 + b'\x02' * 7),
                          (OddRef, b'\x01\x02\x03'),
                          (OddOuter, b'\x09\x01\x00\x00\x02\xfe\xff\xff\xff\xff')):
            for cut in range(len(full) + 1):
                p1['%s %i/%i' % (cls.__name__, cut, len(full))] = try_unpack(
                    cls, full[:cut]
                )
            p1['%s offset' % cls.__name__] = try_unpack(
                cls, full, offset=len(full) - 1
            )

        # ---- 2. equality and repr
        class Moved(Packet):
            __bisturi__ = dict(conf)
            a = Int(1)
            b = Int(2).at(4)
            c = Int(1).aligned(4)
            d = Data(2).shift(1)
            e = Em()

        class AlignedAll(Packet):
            __bisturi__ = dict(conf, align=4)
            a = Int(1)
            b = Int(2)
            p = Ref(Point)

        class HasMoved(Packet):
            __bisturi__ = dict(conf)
            n = Int(1)
            ms = Ref(Moved).repeated(n)

        p2 = P['2'] = {}
        for cls in (Moved, AlignedAll, HasMoved, Point):
            n = cls.__name__
            x, y = cls(), cls()
            if cls is HasMoved:
                x.n = y.n = 1
                x.ms, y.ms = [Moved(b=5)], [Moved(b=5)]
            p2[n + ' eq'] = attempt(lambda: [x == y, x != y])
            p2[n + ' other'] = attempt(lambda: [x == 1, x != 1, x == Point(x=9)])
            p2[n + ' repr'] = attempt(lambda: repr(x))
            p2[n + ' hash'] = attempt(lambda: hash(x), msg=False)
            raw = attempt(lambda: x.pack())
            u = cls.unpack(x.pack())
            p2[n + ' unpacked'] = attempt(
                lambda: [u == cls.unpack(x.pack()), u != cls.unpack(x.pack()),
                         u == x, repr(u) == repr(x)]
            )
            if cls is HasMoved:
                y.ms[0].d = b'zz'
            elif cls is Point:
                y.x = 77
            else:
                y.a = 77
            p2[n + ' changed'] = attempt(lambda: [x == y, x != y, y == x])
            p2[n + ' packed'] = [raw, try_pack(y)]

        # ---- 3. missing delimiters (run also with -O)
        class Lines(Packet):
            __bisturi__ = dict(conf)
            n = Int(1)
            first = Data(until_marker=b'\r\n')
            second = Data(until_marker=re.compile(b'[;,]'))

        class Window(Packet):
            __bisturi__ = dict(conf, search_buffer_length=4)
            first = Data(until_marker=b'\n')
            second = Data(until_marker=re.compile(b';'), include_delimiter=True)

        class LinesOuter(Packet):
            __bisturi__ = dict(conf)
            h = Int(1)
            ls = Ref(Lines).repeated(2)

        p3 = P['3'] = {'optimize': sys.flags.optimize}
        for cls, raws in (
            (Lines, [b'\x01ab\r\ncd;', b'\x01ab\r\ncd', b'\x01abcd', b'\x01', b'\x01a\rb\n;']),
            (Window, [b'ab\ncd;', b'abcdef\ncd;', b'ab\ncdefg;', b'ab\n']),
            (LinesOuter, [b'\x09\x01a\r\nb;\x02c\r\nd,', b'\x09\x01a\r\nb;\x02c\r\nd',
                          b'\x09\x01a\r\nb;\x02c']),
        ):
            for raw in raws:
                p3['%s %s' % (cls.__name__, raw.hex())] = try_unpack(cls, raw)

        # ---- 4. error messages
        class In(Packet):
            __bisturi__ = dict(conf)
            a = Int(1)
            b = Int(4)

        class Mid(Packet):
            __bisturi__ = dict(conf)
            n = Int(1)
            ins = Ref(In).repeated(n)

        class Out(Packet):
            __bisturi__ = dict(conf)
            h = Int(2)
            m = Ref(Mid)
            d = Data(3)

        class Collide(Packet):
            __bisturi__ = dict(conf)
            a = Int(4)
            b = Int(2).at(2)

        def boom(**k):
            raise KeyError('no such kind')

        class Boom(Packet):
            __bisturi__ = dict(conf)
            k = Int(1)
            v = Ref(boom, default=0)

        p4 = P['4'] = {}
        bad = Out()
        bad.m.ins = [In(), In(b=-1)]
        bad.m.n = 2
        cases = [
            ('short nested', lambda: Out.unpack(b'\x00\x01\x02\x01\x00\x00\x00\x01\x02\x00')),
            ('short data', lambda: Out.unpack(b'\x00\x01\x00ab')),
            ('pack nested', lambda: bad.pack()),
            ('collision', lambda: Collide().pack()),
            ('callable raises', lambda: Boom.unpack(b'\x01\x02')),
            ('empty', lambda: Out.unpack(b'')),
        ]
        saved = os.environ.pop('BISTURI_DEBUG', None)
        for label, fn in cases:
            try:
                fn()
                p4[label] = 'no error'
            except PacketError as e:
                d = err(e)
                d['has_packet'] = isinstance(getattr(e, 'packet', None), Packet)
                d['args'] = j(list(e.args))
                os.environ.pop('BISTURI_DEBUG', None)
                d['str'] = str(e)
                os.environ['BISTURI_DEBUG'] = '1'
                d['str_debug'] = str(e)
                os.environ['BISTURI_DEBUG'] = '0'
                d['str_debug0'] = str(e)
                os.environ.pop('BISTURI_DEBUG', None)
                # where the files are is not the point
                for key in ('str', 'str_debug', 'str_debug0'):
                    d[key] = re.sub(r'File "[^"]*[/\\]([^"/\\]+)", line \d+',
                                    r'File "\1", line N', d[key])
                p4[label] = d
        if saved is not None:
            os.environ['BISTURI_DEBUG'] = saved

        # ---- 5. input validation
        class Item(Packet):
            __bisturi__ = dict(conf)
            n = Int(1)
            d = Data(n)

        class Box(Packet):
            __bisturi__ = dict(conf)
            h = Int(2)
            items = Ref(Item).repeated(2)
            t = Data(until_marker=b'\n')
            rest = Data(until_marker=EOS)

        p5 = P['5'] = {}
        raw = b'\x00\x07\x01A\x02BC tail\nxx'
        p5['bytes'] = try_unpack(Box, raw)
        p5['bytearray'] = try_unpack(Box, bytearray(raw))
        p5['memoryview'] = try_unpack(Box, memoryview(raw))
        p5['memoryview of bytearray'] = try_unpack(Box, memoryview(bytearray(raw)))
        p5['memoryview slice'] = try_unpack(Box, memoryview(b'##' + raw)[2:])
        p5['bytearray offset'] = try_unpack(Item, bytearray(b'##\x02xy'), offset=2)
        p5['bytearray short'] = try_unpack(Box, bytearray(raw[:4]))
        p5['bytearray silent'] = try_unpack(Box, bytearray(raw[:4]), silent=True)
        ba = bytearray(raw)
        try:
            pkt = Box.unpack(ba)
            before = (dump(pkt), j(pkt.pack()))
            ba[:] = b'\xff' * len(ba)
            p5['bytearray mutated later'] = [
                before == (dump(pkt), j(pkt.pack())), before[0]
            ]
        except Exception as e:
            p5['bytearray mutated later'] = err(e, msg=False)
        for bad in ('text', None, 7, [1, 2]):
            p5['bad %r' % (bad, )] = try_unpack(Box, bad, msg=False)
        for off in (0, 1, 3, 5, -1, -2, -100):
            for silent in (False, True):
                p5['offset %i silent=%s' % (off, silent)] = try_unpack(
                    Item, b'\x01A\x01B\x00', msg=False, offset=off,
                    silent=silent
                )

        # ---- 6. defaults snapshot
        user_nums = [1, 2]
        user_pts = [Point(x=1), Point(x=2)]
        optp = Point(x=9)

        class Snap(Packet):
            __bisturi__ = dict(conf)
            t = Int(1)
            nums = Int(1).repeated(2, default=user_nums)
            pts = Ref(Point).repeated(2, default=user_pts)
            o = Ref(Point).when(t, default=optp)
            n = Int(2).when(t, default=7)

        p6 = P['6'] = {}
        a = Snap()
        p6['before'] = [dump(a), j(a.pack())]
        user_nums.append(3)
        user_pts[0].y = 5
        user_pts.pop()
        optp.x = 77
        b = Snap()
        p6['after mutating the user objects'] = [dump(b), j(b.pack())]
        p6['first packet still'] = [dump(a), j(a.pack())]
        p6['shared'] = [
            a.nums is b.nums, a.pts[0] is b.pts[0], a.o is b.o, b.o is optp,
            b.nums is user_nums, b.pts[0] is user_pts[0]
        ]
        b.nums.append(9)
        b.pts[0].x = 100
        b.o.y = 100
        c = Snap()
        p6['after mutating a packet'] = [dump(c), j(c.pack())]
        p6['given'] = dump(Snap(nums=[7], pts=[], o=None))
        p6['unpack'] = try_unpack(Snap, b'\x01\x05\x06\x01\x01\x02\x02\x03\x03\x00\x09')
        return P

    out = {'package': os.path.dirname(bisturi.__file__),
           'optimize': sys.flags.optimize}
    if not only_probes:
        out['regress'] = {'generated': regress({}), 'generic': regress(GENERIC)}
    out['probes'] = {'generated': probes({}), 'generic': probes(GENERIC)}
    json.dump(out, sys.stdout, sort_keys=True)


# ---------------------------------------------------------------------------
#                                DRIVER
# ---------------------------------------------------------------------------

verbose = False
failures = []


def say(msg=''):
    print(msg)


def check(cond, what):
    if not cond:
        failures.append(what)
        say('      FAIL: %s' % what)
    elif verbose:
        say('      ok:   %s' % what)
    return cond


def run_worker(tag, pythonpath, optimize=False, only_probes=False):
    folder = os.path.join(SCRATCH, tag)
    shutil.rmtree(folder, ignore_errors=True)
    os.makedirs(folder)
    script = os.path.join(folder, 'cf_worker.py')
    shutil.copy(os.path.abspath(__file__), script)

    env = dict(os.environ)
    env['PYTHONPATH'] = pythonpath
    env['PYTHONDONTWRITEBYTECODE'] = '1'
    env.pop('BISTURI_DEBUG', None)
    cmd = [PYTHON] + (['-O'] if optimize else []) + [script, '--worker']
    if only_probes:
        cmd.append('--only-probes')
    res = subprocess.run(cmd, cwd=folder, env=env, capture_output=True, text=True)
    if res.returncode != 0:
        say(res.stdout[-2000:])
        say(res.stderr[-4000:])
        raise SystemExit('worker %s failed' % tag)
    out = json.loads(res.stdout)
    expected_pkg = os.path.join(pythonpath, 'bisturi')
    if os.path.realpath(out['package']) != os.path.realpath(expected_pkg):
        raise SystemExit(
            'worker %s imported %s, not %s' % (tag, out['package'], expected_pkg)
        )
    return out


def diff_paths(a, b, path=''):
    ''' Yield the paths where two json-like objects differ. '''
    if type(a) != type(b):
        yield path, a, b
    elif isinstance(a, dict):
        for k in sorted(set(a) | set(b)):
            if k not in a or k not in b:
                yield '%s/%s' % (path, k), a.get(k, '<missing>'), b.get(k, '<missing>')
            else:
                yield from diff_paths(a[k], b[k], '%s/%s' % (path, k))
    elif isinstance(a, list) and len(a) == len(b):
        for i, (x, y) in enumerate(zip(a, b)):
            yield from diff_paths(x, y, '%s[%i]' % (path, i))
    elif a != b:
        yield path, a, b


def show_diffs(orig, work, limit=6):
    ds = list(diff_paths(orig, work))
    for path, a, b in ds[:limit]:
        say('      %s' % path)
        say('          original: %s' % (json.dumps(a)[:300], ))
        say('          now:      %s' % (json.dumps(b)[:300], ))
    if len(ds) > limit:
        say('      ... and %i differences more' % (len(ds) - limit))
    return ds


def is_pkt_error(o, unpacking=True):
    return isinstance(o, dict) and o.get('raised') == 'PacketError' and \
        o.get('unpacking') == unpacking


# Each verify_N receives the probe of the original and of the working tree
# (one code path) plus the -O versions and checks the promises of the fix.


def verify_1(o, w, oO, wO):
    import re
    for key in sorted(w):
        m = re.match(r'(\w+) (\d+)/(\d+)$', key)
        if m and m.group(2) == m.group(3):
            check(w[key] == o[key] and 'ok' in w[key],
                  'full input parsed as before: ' + key)
        elif m:
            check(is_pkt_error(w[key]), 'short input raises PacketError: ' + key)
            if 'raised' in o[key]:
                # it was an error already (integers of 1,2,4,8 bytes)
                check(w[key] == o[key], 'same error as before: ' + key)
            else:
                check('ok' in o[key], 'the original decoded it silently: ' + key)
        else:
            check(is_pkt_error(w[key]), 'offset near the end raises: ' + key)
    ex = 'OddInts 2/9'
    say('      e.g. OddInts (Int(1), Int(3), Int(5)) with 2 of 9 bytes:')
    say('          original: %s' % json.dumps(o[ex])[:200])
    say('          now:      %s' % json.dumps(w[ex])[:200])


def verify_2(o, w, oO, wO):
    for key in sorted(w):
        cls, what = key.split(' ', 1)
        raised = isinstance(w[key], dict) and 'raised' in w[key]
        if what == 'hash':
            check(w[key] == {'raised': 'TypeError'}, 'still unhashable: ' + key)
            continue
        check(not raised, 'total (no exception): ' + key)
        if raised:
            continue
        if what == 'eq':
            check(w[key] == [True, False], 'equal packets: == True, != False: ' + key)
        elif what == 'other':
            check(w[key] == [False, True, cls == 'Point' and False],
                  'other types/classes are different: ' + key)
        elif what == 'changed':
            check(w[key] == [False, True, False], 'a changed value is noticed: ' + key)
        elif what == 'unpacked':
            check(w[key][:2] == [True, False], 'unpacked twice are equal: ' + key)
        elif what == 'repr':
            check('_shift_to_' not in w[key] and w[key].startswith(cls + ':'),
                  'repr shows only fields with value: ' + key)
        elif what == 'packed':
            check(w[key] == o[key], 'packed bytes as before: ' + key)
        if cls == 'Point':
            check(w[key] == o[key], 'ordinary packet as before: ' + key)
    say('      e.g. Moved (at/aligned/shift/Em):')
    say('          original: == %s' % json.dumps(o['Moved eq'])[:160])
    say('          now:      == %s ; repr %r' % (w['Moved eq'], w['Moved repr']))


def verify_3(o, w, oO, wO):
    for key in sorted(w):
        if key == 'optimize':
            continue
        if 'ok' in o[key]:
            check(w[key] == o[key], 'delimiter present: parsed as before: ' + key)
            check(wO[key] == o[key], 'the same with -O: ' + key)
            continue
        # missing delimiter: in normal mode the original raised PacketError
        # with an empty message (a bare assert)
        check(is_pkt_error(o[key]), 'the original (normal mode) raised PacketError: ' + key)
        check(is_pkt_error(w[key]) and w[key]['stack'] == o[key]['stack'],
              'PacketError at the same field/offset: ' + key)
        check(o[key]['message'] == '' and 'not found' in w[key]['message'],
              'now with a clear message: ' + key)
        check(wO[key] == w[key], 'identical under -O: ' + key)
    check(wO['optimize'] == 1 and w['optimize'] == 0, 'the -O run was really -O')
    ex = 'Lines 0161626364'
    say('      e.g. Lines.unpack(b"\\x01abcd")')
    say('          original:    %s' % json.dumps(o[ex])[:200])
    say('          original -O: %s' % json.dumps(oO[ex])[:200])
    say('          now:         %s' % json.dumps(w[ex])[:200])
    say('          now -O:      %s' % json.dumps(wO[ex])[:200])


def verify_4(o, w, oO, wO):
    for key in sorted(w):
        keep = ('raised', 'unpacking', 'stack', 'message', 'has_packet', 'args')
        check({k: w[key][k] for k in keep} == {k: o[key][k] for k in keep},
              'same error, stack, phase, original message: ' + key)
        s, sd, s0 = w[key]['str'], w[key]['str_debug'], w[key]['str_debug0']
        depth = len(w[key]['stack'])
        lines = s.split('\n')
        check(len(lines) == 1 + depth, 'one line per stack level (+headline): ' + key)
        check(len(s) < len(o[key]['str']), 'shorter than before: ' + key)
        check('File "' not in s and 'Traceback' not in s, 'no traceback by default: ' + key)
        check(s0 == s, 'BISTURI_DEBUG=0 is the default: ' + key)
        check(sd.startswith(s) and len(sd) > len(s), 'traceback with BISTURI_DEBUG=1: ' + key)
        check(w[key]['message'] in lines[0], 'headline has the original message: ' + key)
        tname = o[key]['str'].rstrip('\n').split('\n')[-1].split(':')[0]
        check(tname in lines[0], 'headline names the exception type (%s): %s' % (tname, key))
        for (off, field, cls), line in zip(reversed(w[key]['stack']), lines[1:]):
            check('%08x' % off in line and cls in line and field in line,
                  'stack line has offset/class/field: %s: %r' % (key, line))
    say('      e.g. a short nested packet; original:')
    for line in o['short nested']['str'].split('\n'):
        say('          | ' + line)
    say('      now:')
    for line in w['short nested']['str'].split('\n'):
        say('          | ' + line)


def verify_5(o, w, oO, wO):
    for key in sorted(w):
        if key == 'bytes' or key.startswith('bad '):
            check(w[key] == o[key], 'as before: ' + key)
        elif key.startswith('offset '):
            off = int(key.split()[1])
            if off < 0:
                check(w[key] == {'raised': 'ValueError'}, 'negative offset: ValueError: ' + key)
            else:
                check(w[key] == o[key], 'as before: ' + key)
        elif key == 'bytearray mutated later':
            check(w[key][0] is True, 'the packet does not see later changes of the bytearray')
            check(w[key][1] == w['bytes']['ok'], 'and holds the same values')
        elif key in ('bytearray', 'memoryview', 'memoryview of bytearray',
                     'memoryview slice'):
            check(o[key].get('raised') == 'ValueError', 'the original refused it: ' + key)
            check(w[key] == w['bytes'], 'same values (of type bytes) and bytes as with bytes: ' + key)
        elif key == 'bytearray offset':
            check(w[key].get('ok', {}).get('d') == 'bytes:7879', 'offset honoured: ' + key)
        elif key == 'bytearray short':
            check(is_pkt_error(w[key]), 'short bytearray: PacketError: ' + key)
        elif key == 'bytearray silent':
            check(w[key] == {'ok': None}, 'short bytearray, silent: None: ' + key)
    say('      e.g. Box.unpack(bytearray(...)):')
    say('          original: %s' % json.dumps(o['bytearray'])[:200])
    say('          now:      %s' % json.dumps(w['bytearray'])[:200])
    say('      Item.unpack(raw, offset=-1):')
    say('          original: %s' % json.dumps(o['offset -1 silent=False'])[:200])
    say('          now:      %s' % json.dumps(w['offset -1 silent=False'])[:200])


def verify_6(o, w, oO, wO):
    for key in ('before', 'first packet still', 'given', 'unpack'):
        check(w[key] == o[key], 'as before: ' + key)
    check(o['after mutating the user objects'] != o['before'],
          'the original let the user objects change the defaults')
    check(w['after mutating the user objects'] == w['before'],
          'later mutation of the user objects has no effect')
    check(w['after mutating a packet'] == w['before'],
          'mutating a packet does not change the defaults')
    check(w['shared'] == [False] * 6 and o['shared'] == [False] * 6,
          'every packet has its own copy (as before)')
    say('      defaults after "nums.append(3); pts.pop(); optp.x = 77":')
    say('          original: %s' % json.dumps(o['after mutating the user objects'][1]))
    say('          now:      %s' % json.dumps(w['after mutating the user objects'][1]))


FIXES = {
    '1': ('STRICT INTEGERS', verify_1),
    '2': ('EQUALITY AND REPR', verify_2),
    '3': ('MISSING DELIMITERS', verify_3),
    '4': ('ERROR MESSAGES', verify_4),
    '5': ('INPUT VALIDATION', verify_5),
    '6': ('DEFAULTS SNAPSHOT', verify_6),
}


def driver(argv):
    global verbose
    expect = None
    if '--expect' in argv:
        expect = argv[argv.index('--expect') + 1]
    verbose = '-v' in argv

    orig = run_worker('orig', ORIG)
    work = run_worker('work', HERE)
    origO = run_worker('origO', ORIG, optimize=True, only_probes=True)
    workO = run_worker('workO', HERE, optimize=True, only_probes=True)
    shutil.rmtree(SCRATCH, ignore_errors=True)

    say('original package: %s' % orig['package'])
    say('package checked:  %s' % work['package'])
    say()

    # ---- 1. everything else is as in the original
    n = sum(len(c) for path in orig['regress'].values() for c in path.values())
    say('REGRESSION: %i groups of observations, %i observations, generated and '
        'generic code' % (sum(len(p) for p in orig['regress'].values()), n))
    ds = show_diffs(orig['regress'], work['regress'])
    check(not ds, 'values, bytes and error conditions identical to the original')
    if not ds:
        say('      identical to the original')
    say()

    # ---- 2. the fixes
    applied = []
    for num in sorted(FIXES):
        title, verify = FIXES[num]
        same = all(
            orig['probes'][path][num] == work['probes'][path][num] and
            origO['probes'][path][num] == workO['probes'][path][num]
            for path in ('generated', 'generic')
        )
        if same:
            say('FIX %s %s: not applied (probe identical to the original)' % (num, title))
            continue
        applied.append(num)
        say('FIX %s %s: APPLIED' % (num, title))
        for path in ('generated', 'generic'):
            say('   %s code:' % path)
            before = len(failures)
            verify(orig['probes'][path][num], work['probes'][path][num],
                   origO['probes'][path][num], workO['probes'][path][num])
            if len(failures) == before:
                say('      every promise of the fix holds')
    say()

    if expect is not None:
        wanted = [] if expect == '0' else expect.split(',')
        check(applied == wanted, 'fixes applied %s, expected %s' % (applied, wanted))

    if failures:
        say('RESULT: %i FAILURES' % len(failures))
        return 1
    say('RESULT: OK (fixes applied: %s)' % (', '.join(applied) or 'none'))
    return 0


if __name__ == '__main__':
    if '--worker' in sys.argv:
        worker_main('--only-probes' in sys.argv)
    else:
        sys.exit(driver(sys.argv[1:]))
