#!/usr/bin/env python
"""Randomized differential test for bisturi/fragments.py.

Whatever ``bisturi.fragments`` is in this worktree (the *candidate*) is run
side by side with a verbatim copy of the original implementation embedded
below (the *reference*), through only the public surface:

    Fragments(fill=b'.'), .insert/.append/.extend/.tobytes, ==, repr(),
    .current_offset (read, assigned, augmented), .fill (assigned),
    FragmentsOfRegexps(...).insert/append/extend/assemble_regexp

After every step the test compares: raised / did not raise, the message of
the exception, tobytes(), current_offset, end_offset (when the candidate
exposes it) and, less often, repr() and ==.

An exception that escapes from the candidate where the reference works
counts as a difference as well.

Sections
  M  deterministic checks: defaults, a collision leaves everything as it
     was, tobytes() asked repeatedly between changes of every kind, strings
     and fill changed in place, hashability
  A  200 000 histories, <= 15 operations, positions 0..50, candidate
     observed after EVERY step (plus an independent naive byte-map model on
     one history out of eight, to validate the embedded reference too)
  A' 60 000 more histories observed only at some steps / at the end (lazy
     structures and caches must not depend on being looked at)
  B  20 000 histories with huge (2**31 .. 10**30) and a few negative
     positions; fill=b'' so that tobytes() stays cheap, repr() gives the
     positions
  C  1 000 histories around position 10**5 with the real fill
  R  30 000 histories on FragmentsOfRegexps (literal and non literal chunks)
  P  Packet.pack() / as_regular_expression() of a few packet classes with
     the candidate and with the reference patched in

Usage: /venv/bin/python difftest.py            (no parameter needed)
       /venv/bin/python difftest.py 0.1        (optional: scale of the run)
Exit status 0 iff there are zero differences.
"""
import os
import sys
import random
import time
import pprint
import re
from bisect import insort, bisect_left, bisect_right

HERE = os.path.dirname(os.path.abspath(__file__))
sys.path.insert(0, HERE)
PKTS_DIR = os.path.join(HERE, '__pkts__')
HAD_PKTS_DIR = os.path.exists(PKTS_DIR)

# --------------------------------------------------------------------------
# Reference: verbatim copy of the original bisturi/fragments.py (classes
# renamed with a Ref prefix, nothing else changed).
# --------------------------------------------------------------------------


class RefFragments:
    def __init__(self, fill=b'.'):
        self.fragments = {}
        self.begin_of_fragments = []
        self.current_offset = 0
        self.end_offset = 0
        self.fill = fill

    def append(self, string):
        self.insert(self.current_offset, string)

    def extend(self, iterable):
        for string in iterable:
            self.insert(self.current_offset, string)

    def insert(self, position, string):
        #if not string:
        #   return

        #if position in self.fragments:
        #   raise Exception("Collision detected at %08x" % position)

        L = len(string)
        if L == 0:
            # An empty string occupies no byte so it cannot collide with
            # anything (nor make a later insert to collide with it): it only
            # moves the cursor and extends the final length up to there.
            self.current_offset = position
            self.end_offset = max(self.end_offset, position)
            return

        i = bisect_right(self.begin_of_fragments, position) - 1
        if self.fragments:
            b1 = self.begin_of_fragments[i]
            e1 = b1 + len(self.fragments[b1])

            if b1 <= position < e1:
                raise Exception(
                    "Collision detected with previous fragment %08x-%08x when inserting new fragment at %08x that span to %08x"
                    % (b1, e1, position, position + L)
                )

            if i + 1 < len(self.begin_of_fragments):
                b2 = self.begin_of_fragments[i + 1]

                if b2 < position + L:
                    e2 = b2 + len(self.fragments[b2])
                    raise Exception(
                        "Collision detected with previous fragment %08x-%08x when inserting new fragment at %08x that span to %08x"
                        % (b2, e2, position, position + L)
                    )

        self.begin_of_fragments.insert(i + 1, position)

        self.fragments[position] = string
        self.current_offset = position + L
        self.end_offset = max(self.end_offset, position + L)

    def tobytes(self):
        begin = 0
        result = []
        for offset, s in sorted(self.fragments.items()):
            result.append(self.fill * (offset - begin))
            result.append(s)
            begin = offset + len(s)

        result.append(self.fill * (self.end_offset - begin))
        return b''.join(result)

    def __repr__(self):
        return pprint.pformat(sorted(self.fragments.items()))

    def __eq__(self, other):
        if isinstance(other, bytes):
            return self.tobytes() == other
        else:
            return self.tobytes() == other.tobytes()


class RefFragmentsOfRegexps(RefFragments):
    def __init__(self, *args, **kargs):
        RefFragments.__init__(self, *args, **kargs)
        self.regexp_by_position = {}

    def append(self, string, is_literal=True):
        assert isinstance(string, bytes)
        self.insert(self.current_offset, string, is_literal)

    def extend(self, iterable, is_literal=True):
        for string in iterable:
            assert isinstance(string, bytes)
            self.insert(self.current_offset, string, is_literal)

    def insert(self, position, string, is_literal=True):
        assert isinstance(string, bytes)
        if is_literal:
            regexp = re.escape(string)

        else:
            regexp = string
            string = b"x"

        RefFragments.insert(self, position, string)

        if string:
            self.regexp_by_position[position] = regexp

    def assemble_regexp(self):
        begin = 0
        result = []
        for p, regexp in sorted(self.regexp_by_position.items()):
            offset, string = p, self.fragments[p]

            hole_length = (offset - begin)
            if hole_length > 0:
                result.append(("(?:.{%i})" % hole_length).encode('ascii'))

            result.append(regexp)
            begin = offset + len(string)

        return b''.join(result)


# --------------------------------------------------------------------------
# Candidate: whatever is in the worktree.
# --------------------------------------------------------------------------
import bisturi.fragments as cand_module
from bisturi.fragments import Fragments as CandFragments
from bisturi.fragments import FragmentsOfRegexps as CandFragmentsOfRegexps

# --------------------------------------------------------------------------
# Bookkeeping
# --------------------------------------------------------------------------


class Report:
    def __init__(self):
        self.differences = 0
        self.examples = []
        self.histories = 0
        self.steps = 0
        self.observations = 0
        self.raises = 0
        self.model_checked = 0

    def diff(self, section, what, history, upto, ref_val, cand_val):
        self.differences += 1
        if len(self.examples) < 8:
            self.examples.append(
                "[%s] %s differs after step %d\n   reference: %.300r\n   candidate: %.300r\n   history: %s"
                % (section, what, upto, ref_val, cand_val,
                   pprint.pformat(history[:upto + 1]))
            )


REPORT = Report()
ALPHABET = b'ABCDEFGHIJKLMNOPQRSTUVWXYZabcdefghijklmnopqrstuvwxyz0123456789'
SENTINEL = object()


def apply_op(obj, op):
    """Run one operation; return the exception raised (or None)."""
    kind = op[0]
    try:
        if kind == 'insert':
            obj.insert(op[1], op[2])
        elif kind == 'append':
            obj.append(op[1])
        elif kind == 'extend':
            obj.extend(list(op[1]))
        elif kind == 'extend-iter':
            obj.extend(iter(op[1]))
        elif kind == 'seek':
            obj.current_offset = op[1]
        elif kind == 'skip':
            obj.current_offset += op[1]
        elif kind == 'align':
            a = op[1]
            obj.current_offset += (a - (obj.current_offset % a)) % a
        elif kind == 'setfill':
            obj.fill = op[1]
        elif kind == 'rinsert':
            obj.insert(op[1], op[2], op[3])
        elif kind == 'rinsert-kw':
            obj.insert(op[1], op[2], is_literal=op[3])
        elif kind == 'rappend':
            obj.append(op[1], op[2])
        elif kind == 'rextend':
            obj.extend(list(op[1]), op[2])
        else:
            raise AssertionError(kind)
        return None
    except Exception as e:  # collisions must be Exception subclasses
        return e


def rand_chunk(rng, alphabet=ALPHABET):
    r = rng.random()
    if r < 0.15:
        n = 0
    elif r < 0.85:
        n = rng.randint(1, 4)
    else:
        n = rng.randint(5, 12)
    return bytes(rng.choice(alphabet) for _ in range(n))


def interesting_position(rng, ref, chunk_len, lo, hi):
    """Positions biased towards the borders of what is already stored."""
    r = rng.random()
    frags = ref.fragments
    if r < 0.35 or not frags:
        return rng.randint(lo, hi)
    if r < 0.45:
        return ref.current_offset
    b = rng.choice(list(frags))
    e = b + len(frags[b])
    if r < 0.60:
        return e + rng.choice((0, 0, 0, 1, -1, 2))  # just after / tail overlap
    if r < 0.80:
        return b - chunk_len + rng.choice((0, 0, 0, 1, -1, 2))  # just before / head overlap
    if r < 0.90:
        return b + rng.choice((0, 0, 1, -1))  # same begin / nested
    return max(lo, ref.current_offset - rng.randint(0, 2 * chunk_len + 1))  # backwards


def rand_history(rng, ref_probe, nops, lo, hi, with_fill_ops=True):
    """Generate the next operation knowing the reference state (lazy gen)."""
    r = rng.random()
    if r < 0.42:
        c = rand_chunk(rng)
        p = interesting_position(rng, ref_probe, len(c), lo, hi)
        if lo >= 0 and p < 0:
            p = 0
        return ('insert', p, c)
    if r < 0.67:
        return ('append', rand_chunk(rng))
    if r < 0.79:
        chunks = [rand_chunk(rng) for _ in range(rng.randint(0, 4))]
        return (rng.choice(('extend', 'extend-iter')), chunks)
    if r < 0.89:
        p = interesting_position(rng, ref_probe, rng.randint(0, 4), lo, hi)
        if lo >= 0 and p < 0:
            p = 0
        return ('seek', p)
    if r < 0.93:
        return ('skip', rng.randint(0, 5))
    if r < 0.98 or not with_fill_ops:
        return ('align', rng.choice((1, 2, 4, 8)))
    return ('setfill', rng.choice((b'.', b'\x00', b'#', b'_')))


def make_pair(rng, fills):
    fill = rng.choice(fills)
    if fill is SENTINEL:
        return RefFragments(), CandFragments(), b'.'
    if rng.random() < 0.5:
        return RefFragments(fill), CandFragments(fill), fill
    return RefFragments(fill=fill), CandFragments(fill=fill), fill


class Model:
    """Independent naive oracle: one dict entry per stored byte."""

    def __init__(self):
        self.bytes_at = {}
        self.extent = 0
        self.cursor = 0

    def insert(self, position, chunk):
        """Return True when the insert must raise."""
        n = len(chunk)
        if n and any((position + k) in self.bytes_at for k in range(n)):
            return True
        for k in range(n):
            self.bytes_at[position + k] = chunk[k]
        self.cursor = position + n
        self.extent = max(self.extent, position + n)
        return False

    def run(self, op):
        """Apply op; return expected 'raised' flag."""
        kind = op[0]
        if kind == 'insert':
            return self.insert(op[1], op[2])
        if kind == 'append':
            return self.insert(self.cursor, op[1])
        if kind in ('extend', 'extend-iter'):
            for c in op[1]:
                if self.insert(self.cursor, c):
                    return True
            return False
        if kind == 'seek':
            self.cursor = op[1]
        elif kind == 'skip':
            self.cursor += op[1]
        elif kind == 'align':
            a = op[1]
            self.cursor += (a - (self.cursor % a)) % a
        return False

    def tobytes(self, fill):
        out = bytearray(fill * self.extent)
        for p, v in self.bytes_at.items():
            out[p] = v
        return bytes(out)


def tobytes_outcome(obj):
    """tobytes(), or the kind of failure (positions beyond sys.maxsize make
    the original raise OverflowError: that is part of the behaviour too)."""
    try:
        return obj.tobytes()
    except (OverflowError, MemoryError) as e:
        return ('tobytes() raised', type(e).__name__)


def compare_step(section, history, idx, ref, cand, ref_exc, cand_exc,
                 observe_bytes, observe_repr):
    R = REPORT
    R.steps += 1
    if (ref_exc is None) != (cand_exc is None):
        R.diff(section, 'raise/no-raise', history, idx, ref_exc, cand_exc)
        return False
    if ref_exc is not None:
        R.raises += 1
        if not str(cand_exc):
            R.diff(section, 'exception without message', history, idx,
                   str(ref_exc), str(cand_exc))
        elif str(cand_exc) != str(ref_exc):
            R.diff(section, 'exception message', history, idx,
                   str(ref_exc), str(cand_exc))
    ok = True
    if ref.current_offset != cand.current_offset:
        R.diff(section, 'current_offset', history, idx,
               ref.current_offset, cand.current_offset)
        ok = False
    cand_end = getattr(cand, 'end_offset', SENTINEL)
    if cand_end is not SENTINEL and cand_end != ref.end_offset:
        R.diff(section, 'end_offset', history, idx, ref.end_offset, cand_end)
        ok = False
    if ref.fill != cand.fill:
        R.diff(section, 'fill', history, idx, ref.fill, cand.fill)
        ok = False
    if observe_bytes:
        R.observations += 1
        rb = tobytes_outcome(ref)
        cb = tobytes_outcome(cand)
        if rb != cb or (type(cb) is not bytes and type(rb) is bytes):
            R.diff(section, 'tobytes()', history, idx, rb, cb)
            ok = False
    if observe_repr:
        rr, cr = repr(ref), repr(cand)
        if rr != cr:
            R.diff(section, 'repr()', history, idx, rr, cr)
            ok = False
        rb = tobytes_outcome(ref)
        if type(rb) is not bytes:
            pass  # positions beyond sys.maxsize: the original cannot render
        elif not (cand == rb) or (cand == rb + b'!') or not (cand == ref) \
                or not (ref == cand):
            R.diff(section, '__eq__', history, idx, rb, cand.tobytes())
            ok = False
    return ok


def run_small(section, rng, n_histories, observe_mode, lo=0, hi=50,
              fills=(SENTINEL, SENTINEL, SENTINEL, SENTINEL, b'.', b'\x00',
                     b'#', b'', b'ab'),
              model_every=8, max_ops=15, every_step_repr=False):
    """observe_mode: 'every' | 'sparse'."""
    for h in range(n_histories):
        ref, cand, fill = make_pair(rng, fills)
        nops = rng.randint(1, max_ops)
        history = []
        use_model = (model_every and h % model_every == 0 and lo >= 0)
        model = Model() if use_model else None
        if observe_mode == 'every':
            observed = None
        else:
            k = rng.random()
            if k < 0.4:
                observed = {nops - 1}
            else:
                observed = {i for i in range(nops) if rng.random() < 0.3}
                observed.add(nops - 1)
        for idx in range(nops):
            op = rand_history(rng, ref, nops, lo, hi,
                              with_fill_ops=True)
            history.append(op)
            ref_exc = apply_op(ref, op)
            cand_exc = apply_op(cand, op)
            obs = observed is None or idx in observed
            ok = compare_step(
                section, history, idx, ref, cand, ref_exc, cand_exc,
                observe_bytes=obs,
                observe_repr=every_step_repr or (obs and (idx == nops - 1 or rng.random() < 0.05)),
            )
            if model is not None:
                if op[0] == 'setfill':
                    expected_raise = False
                else:
                    expected_raise = model.run(op)
                if expected_raise:
                    # a failed extend is partially applied, cursor included
                    pass
                REPORT.model_checked += 1
                if expected_raise != (ref_exc is not None):
                    REPORT.diff(section, 'MODEL raise/no-raise (reference is wrong?)',
                                history, idx, expected_raise, ref_exc)
                    ok = False
                elif len(ref.fill) == 1:
                    mb = model.tobytes(ref.fill)
                    if mb != ref.tobytes() or model.cursor != ref.current_offset:
                        REPORT.diff(section, 'MODEL bytes/cursor (reference is wrong?)',
                                    history, idx, (mb, model.cursor),
                                    (ref.tobytes(), ref.current_offset))
                        ok = False
            if not ok:
                break
        REPORT.histories += 1


def run_huge(section, rng, n_histories):
    bases = (2**31, 2**32, 2**40, 2**63, 2**64, 10**30)
    for h in range(n_histories):
        ref, cand = RefFragments(fill=b''), CandFragments(fill=b'')
        nops = rng.randint(1, 15)
        history = []
        negative = rng.random() < 0.15
        base = rng.choice(bases)
        for idx in range(nops):
            r = rng.random()
            c = rand_chunk(rng)
            if r < 0.30:
                p = base + rng.randint(-8, 8)
            elif r < 0.40:
                p = rng.choice(bases) + rng.randint(-8, 8)
            elif r < 0.55:
                p = rng.randint(-12 if negative else 0, 20)
            else:
                p = interesting_position(rng, ref, len(c), 0, 50)
                if p < 0 and not negative:
                    p = 0
            k = rng.random()
            if k < 0.55:
                op = ('insert', p, c)
            elif k < 0.75:
                op = ('append', c)
            elif k < 0.85:
                op = ('extend', [rand_chunk(rng) for _ in range(rng.randint(0, 3))])
            elif k < 0.95:
                op = ('seek', p)
            else:
                op = ('align', rng.choice((2, 4, 8)))
            history.append(op)
            ref_exc = apply_op(ref, op)
            cand_exc = apply_op(cand, op)
            if not compare_step(section, history, idx, ref, cand, ref_exc,
                                cand_exc, observe_bytes=True,
                                observe_repr=True):
                break
        REPORT.histories += 1


def run_regexps(section, rng, n_histories):
    alphabet = ALPHABET + b'.*+?()[]{}|\\^$\x00\n'
    for h in range(n_histories):
        ref, cand = RefFragmentsOfRegexps(), CandFragmentsOfRegexps()
        nops = rng.randint(1, 15)
        history = []
        for idx in range(nops):
            c = rand_chunk(rng, alphabet)
            lit = rng.random() < 0.7
            if not lit and not c:
                c = b'.{3}'
            r = rng.random()
            if r < 0.35:
                p = interesting_position(rng, ref, len(c) if lit else 1, 0, 50)
                op = (rng.choice(('rinsert', 'rinsert-kw')), max(p, 0), c, lit)
            elif r < 0.45:
                p = interesting_position(rng, ref, len(c), 0, 50)
                op = ('insert', max(p, 0), c)
            elif r < 0.70:
                op = ('rappend', c, lit)
            elif r < 0.78:
                op = ('append', c)
            elif r < 0.88:
                op = ('rextend', [rand_chunk(rng, alphabet) or b'q'
                                  for _ in range(rng.randint(0, 3))], lit)
            elif r < 0.96:
                op = ('seek', rng.randint(0, 50))
            else:
                op = ('align', rng.choice((2, 4)))
            history.append(op)
            ref_exc = apply_op(ref, op)
            cand_exc = apply_op(cand, op)
            ok = compare_step(section, history, idx, ref, cand, ref_exc,
                              cand_exc, observe_bytes=True,
                              observe_repr=(idx == nops - 1))
            ra, ca = ref.assemble_regexp(), cand.assemble_regexp()
            if ra != ca:
                REPORT.diff(section, 'assemble_regexp()', history, idx, ra, ca)
                ok = False
            if not ok:
                break
        REPORT.histories += 1


def run_packets(section, rng, n_rounds):
    """Packet.pack() with the candidate vs. with the reference patched in."""
    import bisturi.packet as packet_module
    import bisturi.field as field_module
    import bisturi.structural_fields as sf_module
    from bisturi.packet import Packet
    from bisturi.field import Data, Int, Ref
    from bisturi.pattern_matching import anything_like, Any

    class Folder(Packet):
        offset_of_file = Int(1)
        payload = Data(3)
        file_data = Data(4).at(offset_of_file)

    class Vec(Packet):
        data = Data(4).at(2)

    class Tensor(Packet):
        vecs = Ref(Vec).repeated(2)

    class Option(Packet):
        len = Int(1)
        data = Data(len)

    class DatagramShift(Packet):
        count_options = Int(1)
        options = Ref(Option).repeated(count_options).shift(3)
        checksum = Int(4)

    class DatagramAligned(Packet):
        count_options = Int(1)
        options = Ref(Option).repeated(count_options, aligned=4)
        checksum = Int(4)

    class DatagramAllAligned(Packet):
        __bisturi__ = {'align': 4}
        count_options = Int(1)
        options = Ref(Option).repeated(count_options)
        checksum = Int(4)

    class Backwards(Packet):
        i = Int(1).at(4)
        d = Data(4).shift(-4 - 1)

    class Point(Packet):
        x = Int(2)
        y = Int(2).aligned(4, 'innermost-pkt')

    class NamedPoint(Packet):
        name = Data(until_marker=b'\0')
        point = Ref(Point)

    def rdata(n):
        return bytes(rng.choice(ALPHABET) for _ in range(n))

    def build():
        pkts = []
        pkts.append(Folder(offset_of_file=rng.randint(0, 12), payload=rdata(3),
                           file_data=rdata(4)))
        t = Tensor()
        t.vecs = [Vec(data=rdata(4)), Vec(data=rdata(4))]
        pkts.append(t)
        for cls in (DatagramShift, DatagramAligned, DatagramAllAligned):
            n = rng.randint(0, 4)
            opts = []
            for _ in range(n):
                k = rng.randint(0, 6)
                opts.append(Option(len=k, data=rdata(k)))
            pkts.append(cls(count_options=n, options=opts,
                            checksum=rng.randint(0, 2**32 - 1)))
        pkts.append(Backwards(i=rng.randint(0, 255), d=rdata(4)))
        pkts.append(NamedPoint(name=rdata(rng.randint(0, 5)),
                               point=Point(x=rng.randint(0, 9), y=rng.randint(0, 9))))
        return pkts

    def outcome(p, what):
        try:
            if what == 'pack':
                return ('ok', p.pack())
            return ('ok', p.as_regular_expression().pattern)
        except Exception as e:
            # PacketError appends the traceback of the field's exception
            # (file names, line numbers): only what precedes it is compared
            return ('raised', type(e).__name__,
                    str(e).split("\nField's exception:")[0])

    def patched(run):
        saved = (packet_module.Fragments, packet_module.FragmentsOfRegexps,
                 field_module.FragmentsOfRegexps,
                 getattr(sf_module, 'FragmentsOfRegexps', None))
        packet_module.Fragments = RefFragments
        packet_module.FragmentsOfRegexps = RefFragmentsOfRegexps
        field_module.FragmentsOfRegexps = RefFragmentsOfRegexps
        if saved[3] is not None:
            sf_module.FragmentsOfRegexps = RefFragmentsOfRegexps
        try:
            return run()
        finally:
            packet_module.Fragments = saved[0]
            packet_module.FragmentsOfRegexps = saved[1]
            field_module.FragmentsOfRegexps = saved[2]
            if saved[3] is not None:
                sf_module.FragmentsOfRegexps = saved[3]

    # the patch must really reach Packet.pack(): count the instances
    made = []

    class CountedRef(RefFragments):
        def __init__(self, *a, **kw):
            made.append(1)
            RefFragments.__init__(self, *a, **kw)

    saved = packet_module.Fragments
    packet_module.Fragments = CountedRef
    try:
        Backwards(i=1, d=b'abcd').pack()
    finally:
        packet_module.Fragments = saved
    if not made:
        REPORT.diff(section, 'reference not reachable from Packet.pack()',
                    [], 0, None, None)

    for _ in range(n_rounds):
        for p in build():
            what_list = ['pack', 'regexp']
            for what in what_list:
                c = outcome(p, what)
                r = patched(lambda: outcome(p, what))
                REPORT.steps += 1
                if c != r:
                    REPORT.diff(section, 'Packet %s of %s' % (what, type(p).__name__),
                                [], 0, r, c)
        REPORT.histories += 1

    # pattern with Any placeholders
    for cls in (Folder, DatagramAligned, NamedPoint, Backwards):
        try:
            p = anything_like(cls)
        except Exception:
            continue
        c = outcome(p, 'regexp')
        r = patched(lambda: outcome(p, 'regexp'))
        REPORT.steps += 1
        if c != r:
            REPORT.diff(section, 'anything_like(%s) regexp' % cls.__name__,
                        [], 0, r, c)


def run_misc(section):
    """Small deterministic checks of the public surface."""
    def check(name, cond, ref_val=None, cand_val=None):
        REPORT.steps += 1
        if not cond:
            REPORT.diff(section, name, [], 0, ref_val, cand_val)

    for make in (CandFragments, CandFragmentsOfRegexps):
        f = make()
        check('default fill', f.fill == b'.', b'.', f.fill)
        check('initial cursor', f.current_offset == 0, 0, f.current_offset)
        check('initial bytes', f.tobytes() == b'', b'', f.tobytes())
        check('initial repr', repr(f) == '[]', '[]', repr(f))
    check('subclassing kept', issubclass(CandFragmentsOfRegexps, CandFragments))

    # collision: Exception subclass, message, nothing altered
    r, c = RefFragments(), CandFragments()
    for f in (r, c):
        f.insert(3, b'abc')
        f.current_offset = 40
    before = (c.tobytes(), c.current_offset, repr(c))
    er, ec = apply_op(r, ('insert', 1, b'xyz')), apply_op(c, ('insert', 1, b'xyz'))
    check('collision raises', isinstance(ec, Exception) and str(ec) == str(er),
          er, ec)
    check('failed insert leaves everything untouched',
          before == (c.tobytes(), c.current_offset, repr(c)) and
          before == (r.tobytes(), r.current_offset, repr(r)),
          (r.tobytes(), r.current_offset), (c.tobytes(), c.current_offset))

    # tobytes() asked repeatedly, interleaved with every kind of change
    r, c = RefFragments(), CandFragments()
    script = [
        ('append', b'AA'), ('insert', 10, b''), ('insert', 6, b'BB'),
        ('setfill', b'-'), ('insert', 2, b'C'), ('seek', 30), ('append', b''),
        ('append', b'Z'), ('insert', 3, b'DDD'), ('setfill', b'.'),
        ('insert', 5, b'XX'), ('insert', 8, b'EE'),
    ]
    for i, op in enumerate(script):
        er, ec = apply_op(r, op), apply_op(c, op)
        for _ in range(3):
            check('repeated tobytes() #%d' % i,
                  r.tobytes() == c.tobytes() and (er is None) == (ec is None),
                  r.tobytes(), c.tobytes())
    out = c.tobytes()
    check('tobytes() result is independent', c.tobytes() == out and
          type(out) is bytes)

    # strings and fill that change in place between two tobytes() (the
    # original keeps references, so the change is visible)
    r, c = RefFragments(), CandFragments()
    chunk_r, chunk_c = bytearray(b'ab'), bytearray(b'ab')
    r.append(b'0'); c.append(b'0')
    r.insert(4, chunk_r); c.insert(4, chunk_c)
    check('bytearray chunk', r.tobytes() == c.tobytes(), r.tobytes(), c.tobytes())
    chunk_r[0] = chunk_c[0] = ord('Z')
    check('bytearray chunk changed in place', r.tobytes() == c.tobytes(),
          r.tobytes(), c.tobytes())
    fill_r, fill_c = bytearray(b'.'), bytearray(b'.')
    r, c = RefFragments(fill_r), CandFragments(fill_c)
    r.insert(3, b'x'); c.insert(3, b'x')
    check('bytearray fill', r.tobytes() == c.tobytes(), r.tobytes(), c.tobytes())
    fill_r[0] = fill_c[0] = ord('+')
    check('bytearray fill changed in place', r.tobytes() == c.tobytes(),
          r.tobytes(), c.tobytes())

    # hashability unchanged (defining __eq__ made instances unhashable)
    try:
        hash(RefFragments())
        ref_hashable = True
    except TypeError:
        ref_hashable = False
    try:
        hash(CandFragments())
        cand_hashable = True
    except TypeError:
        cand_hashable = False
    check('hashability', ref_hashable == cand_hashable, ref_hashable,
          cand_hashable)


def main():
    scale = float(sys.argv[1]) if len(sys.argv) > 1 else 1.0
    seed = 0xC11
    t0 = time.time()
    print("candidate: %s" % cand_module.__file__)

    def section(name, fn, *args):
        t = time.time()
        h0, d0 = REPORT.histories, REPORT.differences
        try:
            fn(*args)
        except Exception:
            # the candidate failed where the reference does not (or the
            # other way round): that is a difference, and the section ends
            import traceback
            REPORT.differences += 1
            REPORT.examples.append("[%s] unexpected exception, section aborted\n%s"
                                   % (name, traceback.format_exc()))
        print("  section %-3s %7d histories  %d differences  (%.1fs)"
              % (name, REPORT.histories - h0, REPORT.differences - d0,
                 time.time() - t))
        sys.stdout.flush()

    section('M', run_misc, 'M')
    section('A', run_small, 'A', random.Random(seed + 1),
            int(200000 * scale), 'every')
    section("A'", run_small, "A'", random.Random(seed + 2),
            int(60000 * scale), 'sparse')
    section('B', run_huge, 'B', random.Random(seed + 3), int(20000 * scale))
    section('C', run_small, 'C', random.Random(seed + 4), int(1000 * scale),
            'every', 10**5 - 20, 10**5 + 30, (SENTINEL, b'\x00'), 0)
    section('R', run_regexps, 'R', random.Random(seed + 5),
            int(30000 * scale))
    section('P', run_packets, 'P', random.Random(seed + 6),
            max(1, int(300 * scale)))

    if not HAD_PKTS_DIR:
        # the generated-code cache of the packet classes of section P
        import shutil
        shutil.rmtree(PKTS_DIR, ignore_errors=True)

    R = REPORT
    print("histories: %d   steps: %d   tobytes() comparisons: %d   "
          "steps that raised: %d   model checks: %d   time: %.1fs"
          % (R.histories, R.steps, R.observations, R.raises,
             R.model_checked, time.time() - t0))
    for ex in R.examples:
        print(ex)
    print("DIFFERENCES: %d" % R.differences)
    return 1 if R.differences else 0


if __name__ == '__main__':
    sys.exit(main())
