#!/venv/bin/python
''' Randomized differential test of the descriptors (Auto / AutoLength).

    The ORIGINAL package (pristine copy in ./orig_pkg/bisturi) and the package
    of the working tree (./bisturi) run the very same random histories, each
    one in its own subprocess (PYTHONPATH selects the package), and every
    observation is compared:

     - every attribute read (described, tracked and plain fields, recursively
       in nested packets and in the element packets of repeated Refs),
     - every pack() result or the PacketError raised (phase, stack of fields,
       message) or any other exception (type and message),
     - hasattr(p, '__dict__') of every packet reached,
     - with --strict also repr(p) (it shows the hidden real fields) and the
       equality between the live packets.

    Usage:
        ./difftest.py [--histories N] [--seed S] [--strict] [--hostile] [--keep]

    --hostile adds values that make the user functions themselves raise (a
    tracked field set to None, a None read by a chained Auto).
    --reparse adds an operation that is not public API: parsing over a living
    packet (pkt.unpack_impl(raw, 0, root=pkt)).

    Exit status 0 means zero differences.
    '''

import sys, os, json, random, re, argparse, subprocess, tempfile, shutil, time

HERE = os.path.dirname(os.path.abspath(__file__))
PYTHON = sys.executable

# --------------------------------------------------------------------------
# Declarations under test (module level, so the packets can be pickled).
# The same source is written three times, one per code path.
# --------------------------------------------------------------------------

DECLARATIONS = '''
from bisturi.packet import Packet
from bisturi.field import Int, Data, Ref
from bisturi.descriptor import Auto, AutoLength

CONF = %(conf)r


class D1(Packet):
    # AutoLength on a Data
    __bisturi__ = dict(CONF)
    length = Int(1).describe(AutoLength("a"))
    a = Data(length)


class D2(Packet):
    # Auto(lambda) on a Int(2)
    __bisturi__ = dict(CONF)
    bits = Int(2).describe(Auto(lambda pkt: len(pkt.a) * 8))
    a = Data(bits // 8)


class D3(Packet):
    # two described fields, one of them tracks a repeated list
    __bisturi__ = dict(CONF)
    count = Int(1).describe(AutoLength("items"))
    size = Int(2).describe(AutoLength("payload"))
    items = Int(2).repeated(count)
    payload = Data(size)


class D4(Packet):
    # the described field comes after the field tracked
    __bisturi__ = dict(CONF)
    a = Data(until_marker=b'\\x00')
    length = Int(1).describe(AutoLength("a"))
    tail = Int(1)


class D5(Packet):
    # described fields inside a nested packet (and one outside that looks
    # inside)
    __bisturi__ = dict(CONF)
    kind = Int(1)
    inner = Ref(D1)
    total = Int(2).describe(Auto(lambda pkt: len(pkt.inner.a) + 1))


class D6(Packet):
    # described fields inside the element packets of a repeated Ref
    __bisturi__ = dict(CONF)
    n = Int(1).describe(AutoLength("elems"))
    elems = Ref(D1).repeated(n)


class D7(Packet):
    # chained: one Auto reads the other
    __bisturi__ = dict(CONF)
    length = Int(1).describe(AutoLength("a"))
    double = Int(2).describe(Auto(lambda pkt: pkt.length * 2))
    a = Data(length)


class D8(Packet):
    # the prototype of the Ref carries an explicit value
    __bisturi__ = dict(CONF)
    inner = Ref(D1(length=7, a=b'xy'))
    after = Int(1)


class D9(Packet):
    # sizes without a struct code, signed, little endian
    __bisturi__ = dict(CONF)
    n = Int(3).describe(AutoLength("a"))
    m = Int(2, signed=True, endianness='little').describe(
        Auto(lambda pkt: -len(pkt.a))
    )
    a = Data(n)


class D10(Packet):
    # a described field in the middle of a run of fixed fields (one struct
    # call for several fields in the generated code)
    __bisturi__ = dict(CONF)
    x = Int(1)
    length = Int(2).describe(AutoLength("a"))
    y = Int(4)
    z = Int(1).describe(Auto(lambda pkt: (pkt.x + pkt.y) %% 256))
    a = Data(length)


class D11(Packet):
    # default elements carrying explicit values (deep copied at construction)
    __bisturi__ = dict(CONF)
    n = Int(1).describe(AutoLength("elems"))
    elems = Ref(D1).repeated(n, default=[D1(length=9), D1(a=b'q')])
    inner = Ref(D7(double=5))


SPEC = {
    'D1': dict(described=['length'], fields=[('a', 'data')]),
    'D2': dict(described=['bits'], fields=[('a', 'data')]),
    'D3': dict(described=['count', 'size'],
               fields=[('items', 'ints2'), ('payload', 'data')]),
    'D4': dict(described=['length'], fields=[('a', 'data0'), ('tail', 'int1')]),
    'D5': dict(described=['total'],
               fields=[('kind', 'int1'), ('inner', 'pkt:D1')]),
    'D6': dict(described=['n'], fields=[('elems', 'list:D1')]),
    'D7': dict(described=['length', 'double'], fields=[('a', 'data')]),
    'D8': dict(described=[], fields=[('inner', 'pkt:D1'), ('after', 'int1')]),
    'D9': dict(described=['n', 'm'], fields=[('a', 'data')]),
    'D10': dict(described=['length', 'z'],
                fields=[('x', 'int1'), ('y', 'int4'), ('a', 'data')]),
    'D11': dict(described=['n'],
                fields=[('elems', 'list:D1'), ('inner', 'pkt:D7')]),
}

ROOTS = ['D1', 'D2', 'D3', 'D4', 'D5', 'D6', 'D7', 'D8', 'D9', 'D10', 'D11']
'''

MODES = [
    ('decl_gen', {}),
    ('decl_generic', {
        'generate_for_pack': False,
        'generate_for_unpack': False
    }),
    ('decl_novec', {
        'vectorize': False
    }),
]


def define_local_declarations():
    ''' Classes that cannot be pickled (they are local to a function), so
        the prototypes are cloned with deepcopy instead of pickle. '''
    from bisturi.packet import Packet
    from bisturi.field import Int, Data, Ref
    from bisturi.descriptor import Auto, AutoLength

    class L1(Packet):
        length = Int(1).describe(AutoLength("a"))
        a = Data(length)

    class L2(Packet):
        inner = Ref(L1(length=7))
        total = Int(2).describe(Auto(lambda pkt: pkt.inner.length + 1))
        elems = Ref(L1).repeated(total - 1, default=[L1(length=3, a=b'abc')])

    class L2generic(Packet):
        __bisturi__ = {
            'generate_for_pack': False,
            'generate_for_unpack': False
        }
        inner = Ref(L1(length=7))
        total = Int(2).describe(Auto(lambda pkt: pkt.inner.length + 1))
        elems = Ref(L1).repeated(total - 1, default=[L1(length=3, a=b'abc')])

    spec = {
        'L1': dict(described=['length'], fields=[('a', 'data')]),
        'L2': dict(described=['total'],
                   fields=[('inner', 'pkt:L1'), ('elems', 'list:L1')]),
        'L2generic': dict(described=['total'],
                          fields=[('inner', 'pkt:L1'), ('elems', 'list:L1')]),
    }

    class NS:
        pass

    ns = NS()
    ns.L1, ns.L2, ns.L2generic = L1, L2, L2generic
    ns.SPEC = spec
    ns.ROOTS = ['L1', 'L2', 'L2generic']
    ns.__name__ = 'local'
    return ns


# --------------------------------------------------------------------------
# Worker: runs the histories against whatever 'bisturi' PYTHONPATH selects
# --------------------------------------------------------------------------

_ADDR = re.compile(r'0x[0-9a-fA-F]+')


def scrub(msg):
    return _ADDR.sub('0x?', str(msg))


class Worker:
    def __init__(self, args):
        import bisturi
        root = os.path.realpath(args.expect_root)
        actual = os.path.realpath(os.path.dirname(bisturi.__file__))
        assert actual == os.path.join(root, 'bisturi'), (actual, root)

        from bisturi.packet import Packet, PacketError
        self.Packet, self.PacketError = Packet, PacketError

        self.strict = args.strict
        self.hostile = args.hostile
        self.reparse = args.reparse

        workdir = os.path.dirname(os.path.abspath(__file__))
        sys.path.insert(0, workdir)
        self.namespaces = []
        for name, conf in MODES:
            path = os.path.join(workdir, name + '.py')
            source = DECLARATIONS % {'conf': conf}
            if not os.path.exists(path):
                with open(path, 'w') as f:
                    f.write(source)
            self.namespaces.append(__import__(name))

        self.namespaces.append(define_local_declarations())

    # -- random values -----------------------------------------------------
    def rnd_bytes(self, rng, forbid_zero=False):
        n = rng.choice([0, 0, 1, 2, 3, 5, 8, 9, 16, 40, 255, 256, 300])
        alphabet = b'abcxyz\x01\xff' if forbid_zero else b'abcxyz\x00\x01\xff'
        return bytes(rng.choice(alphabet) for _ in range(n))

    def rnd_explicit(self, rng):
        pool = [
            0, 1, 2, 3, 7, 8, 16, 24, 255, 256, 257, 65535, 65536, -1, -128,
            2**31, 2**40, True, 3.5
        ]
        if self.hostile:
            # these make the user functions that read them raise
            pool += [None, None, [1], 'x', b'ab']
        return rng.choice(pool)

    def rnd_value(self, rng, ns, kind, depth=0):
        if kind == 'data':
            if self.hostile and rng.random() < 0.1:
                return rng.choice([None, 5])
            return self.rnd_bytes(rng)
        if kind == 'data0':
            if self.hostile and rng.random() < 0.1:
                return rng.choice([None, 5])
            return self.rnd_bytes(rng, forbid_zero=True)
        if kind == 'ints2':
            if self.hostile and rng.random() < 0.1:
                return None
            n = rng.choice([0, 1, 2, 3, 5, 255, 256, 300])
            return [rng.choice([0, 1, 65535, 77]) for _ in range(n)]
        if kind == 'int1':
            return rng.choice([0, 1, 7, 255, 256, -1])
        if kind == 'int4':
            return rng.choice([0, 1, 255, 2**32 - 1, 2**32])
        if kind.startswith('pkt:'):
            return self.construct(rng, ns, kind[4:], depth + 1)[1]
        if kind.startswith('list:'):
            n = rng.choice([0, 1, 2, 3, 3, 4])
            return [
                self.construct(rng, ns, kind[5:], depth + 1)[1]
                for _ in range(n)
            ]
        raise AssertionError(kind)

    def construct(self, rng, ns, clsname, depth=0):
        ''' Build the keywords at random and construct; returns (description,
            packet or outcome of the failure) '''
        spec = ns.SPEC[clsname]
        kw = {}
        for name in spec['described']:
            if rng.random() < 0.4:
                kw[name] = self.rnd_explicit(rng)
        for name, kind in spec['fields']:
            is_pkt = kind.startswith(('pkt:', 'list:'))
            if rng.random() < (0.35 if is_pkt else 0.5) and depth < 3:
                kw[name] = self.rnd_value(rng, ns, kind, depth)
        desc = "%s(%s)" % (clsname, ', '.join(sorted(kw)))
        return desc, getattr(ns, clsname)(**kw)

    # -- observations --------------------------------------------------------
    def rep(self, v):
        if isinstance(v, self.Packet):
            return '<pkt %s>' % type(v).__name__
        if isinstance(v, list) and any(isinstance(x, self.Packet) for x in v):
            return '<list of %i>' % len(v)
        return "%s:%s" % (type(v).__name__, scrub(repr(v)))

    def outcome(self, fn):
        try:
            return ['ok', self.rep(fn())]
        except self.PacketError as e:
            return [
                'PacketError',
                bool(e.was_error_found_in_unpacking_phase),
                [list(x) for x in e.fields_stack],
                scrub(e.original_error_message)
            ]
        except Exception as e:
            return ['exc', type(e).__name__, scrub(e)]

    def observe(self, ns, p, depth=0):
        if not isinstance(p, self.Packet):
            return ['not-a-packet', self.rep(p)]

        clsname = type(p).__name__
        spec = ns.SPEC[clsname]
        obs = {'cls': clsname, 'has_dict': hasattr(p, '__dict__')}
        for name in spec['described']:
            obs[name] = self.outcome(lambda: getattr(p, name))
            # twice: a read must not change what is read
            obs[name + '#2'] = self.outcome(lambda: getattr(p, name))

        for name, kind in spec['fields']:
            obs[name] = self.outcome(lambda: getattr(p, name))
            try:
                v = getattr(p, name)
            except Exception:
                continue
            if depth > 4:
                continue
            if kind.startswith('pkt:'):
                obs[name + '/'] = self.observe(ns, v, depth + 1)
            elif kind.startswith('list:') and isinstance(v, list):
                obs[name + '/'] = [self.observe(ns, x, depth + 1) for x in v]

        if self.strict:
            obs['repr'] = self.outcome(lambda: repr(p))
        return obs

    def holders(self, ns, p, path='', depth=0, out=None):
        ''' All the packets reachable from p (p included) as (path, packet) '''
        if out is None:
            out = []
        if not isinstance(p, self.Packet) or depth > 4:
            return out
        out.append((path or '.', p))
        for name, kind in ns.SPEC[type(p).__name__]['fields']:
            try:
                v = getattr(p, name)
            except Exception:
                continue
            if kind.startswith('pkt:'):
                self.holders(ns, v, path + '.' + name, depth + 1, out)
            elif kind.startswith('list:') and isinstance(v, list):
                for i, x in enumerate(v):
                    self.holders(
                        ns, x, '%s.%s[%i]' % (path, name, i), depth + 1, out
                    )
        return out

    # -- one history ---------------------------------------------------------
    def run_history(self, seed, h):
        rng = random.Random("%s/%i" % (seed, h))
        ns, rootname = rng.choice(
            [(ns, r) for ns in self.namespaces for r in ns.ROOTS]
        )
        events = []
        live = []
        pool = [b'', b'\x00', b'\x02ab', b'\x00\x10ab', b'\x07xyzabcd\x01']

        def new_root():
            desc, res = None, None
            how = rng.random()
            if how < 0.5:
                out = self.outcome_construct(rng, ns, rootname)
                return out
            raw = rng.choice(pool)
            if rng.random() < 0.3 and raw:
                raw = bytearray(raw)
                what = rng.random()
                if what < 0.4:
                    raw[rng.randrange(len(raw))] = rng.choice([0, 1, 3, 255])
                elif what < 0.7:
                    del raw[rng.randrange(len(raw)):]
                else:
                    raw += b'zz\x00'
                raw = bytes(raw)
            cls = getattr(ns, rootname)
            try:
                return 'unpack(%r)' % raw, cls.unpack(raw), None
            except self.PacketError as e:
                failed = getattr(e, 'packet', None)
                return 'unpack(%r)' % raw, None, [
                    self.outcome(lambda: cls.unpack(raw)),
                    self.observe(ns, failed)
                ]
            except Exception as e:
                return 'unpack(%r)' % raw, None, [
                    'exc', type(e).__name__, scrub(e)
                ]

        nops = rng.randint(1, 20)
        for _ in range(nops):
            r = rng.random()
            if not live or (r < 0.12 and len(live) < 4) or r < 0.04:
                desc, pkt, failure = new_root()
                if pkt is not None:
                    if len(live) < 4:
                        live.append(pkt)
                        desc = 'new live[%i] = %s' % (len(live) - 1, desc)
                    else:
                        i = rng.randrange(len(live))
                        live[i] = pkt
                        desc = 'live[%i] = %s' % (i, desc)
                    result = 'ok'
                else:
                    result = failure
            else:
                i = rng.randrange(len(live))
                root = live[i]
                hs = self.holders(ns, root)
                path, p = rng.choice(hs)
                spec = ns.SPEC[type(p).__name__]
                target = 'live[%i]%s' % (i, path if path != '.' else '')
                r = rng.random()
                result = 'ok'
                if self.reparse and rng.random() < 0.08:
                    raw = rng.choice(pool)
                    desc = 'live[%i].unpack_impl(%r)' % (i, raw)
                    result = self.outcome(
                        lambda: root.unpack_impl(raw, 0, root=root)
                    )
                elif r < 0.22:
                    # pack (the root most of the time)
                    who, whom = (root, 'live[%i]' % i) if rng.random() < 0.7 \
                        else (p, target)
                    desc = '%s.pack()' % whom
                    result = self.outcome(who.pack)
                    if result[0] == 'ok' and rng.random() < 0.5:
                        try:
                            pool.append(who.pack())
                        except Exception:
                            pass
                elif r < 0.45 and spec['described']:
                    name = rng.choice(spec['described'])
                    val = self.rnd_explicit(rng)
                    desc = '%s.%s = %r' % (target, name, val)
                    result = self.outcome(lambda: setattr(p, name, val))
                elif r < 0.62 and spec['described']:
                    name = rng.choice(spec['described'])
                    desc = 'del %s.%s' % (target, name)
                    result = self.outcome(lambda: delattr(p, name))
                elif r < 0.86:
                    name, kind = rng.choice(spec['fields'])
                    inplace = rng.random() < 0.4
                    cur = getattr(p, name, None)
                    if inplace and isinstance(cur, list):
                        what = rng.random()
                        if what < 0.4 and cur:
                            desc = '%s.%s.pop()' % (target, name)
                            cur.pop()
                        elif what < 0.6:
                            desc = 'del %s.%s[:]' % (target, name)
                            del cur[:]
                        else:
                            elem = self.rnd_value(rng, ns, kind)
                            desc = '%s.%s.extend(%i elems)' % (
                                target, name, len(elem or [])
                            )
                            cur.extend((elem or [])[:2])
                    else:
                        val = self.rnd_value(rng, ns, kind)
                        desc = '%s.%s = %s' % (target, name, self.rep(val))
                        result = self.outcome(lambda: setattr(p, name, val))
                elif r < 0.95:
                    # clone the root; the clone replaces it or lives with it
                    how = rng.choice(['pickle', 'deepcopy', 'prototype'])
                    desc = 'clone(live[%i], %s)' % (i, how)
                    import pickle, copy
                    try:
                        if how == 'pickle':
                            clone = pickle.loads(
                                pickle.dumps(root, rng.choice([2, 4, -1]))
                            )
                        elif how == 'deepcopy':
                            clone = copy.deepcopy(root)
                        else:
                            clone = root.as_prototype().clone()
                    except Exception as e:
                        # local classes cannot be pickled: same on both sides
                        result = ['exc', type(e).__name__]
                        clone = None
                    if clone is not None:
                        if len(live) < 4 and rng.random() < 0.6:
                            live.append(clone)
                            desc += ' -> new live[%i]' % (len(live) - 1)
                        else:
                            live[i] = clone
                else:
                    # share: the same (sub)packet object now hangs from two
                    # places
                    j = rng.randrange(len(live))
                    done = False
                    for name, kind in ns.SPEC[type(live[j]).__name__]['fields'
                                                                    ]:
                        if kind == 'pkt:' + type(p).__name__:
                            desc = 'live[%i].%s = %s (shared)' % (
                                j, name, target
                            )
                            setattr(live[j], name, p)
                            done = True
                            break
                        if kind == 'list:' + type(p).__name__:
                            cur = getattr(live[j], name, None)
                            if isinstance(cur, list) and len(cur) < 5:
                                desc = 'live[%i].%s.append(%s) (shared)' % (
                                    j, name, target
                                )
                                cur.append(p)
                                done = True
                                break
                    if not done:
                        desc = 'class access'
                        result = [
                            self.rep(
                                type(getattr(type(p), d)).__name__
                            ) for d in spec['described']
                        ]

            ev = {
                'op': desc,
                'result': result,
                'live': [self.observe(ns, q) for q in live]
            }
            if self.strict:
                ev['eq'] = [
                    self.outcome(lambda: a == b) for a in live for b in live
                ]
            events.append(ev)

        return {
            'h': h,
            'ns': ns.__name__,
            'root': rootname,
            'events': events
        }

    def outcome_construct(self, rng, ns, rootname):
        try:
            desc, pkt = self.construct(rng, ns, rootname)
            return desc, pkt, None
        except Exception as e:
            return 'construct %s' % rootname, None, [
                'exc', type(e).__name__, scrub(e)
            ]


def worker_main(args):
    w = Worker(args)
    with open(args.out, 'w') as out:
        for h in range(args.start, args.start + args.count):
            rec = w.run_history(args.seed, h)
            out.write(json.dumps(rec, sort_keys=True) + '\n')


# --------------------------------------------------------------------------
# Driver
# --------------------------------------------------------------------------


def first_difference(a, b, path=''):
    if type(a) != type(b):
        return path, a, b
    if isinstance(a, dict):
        for k in sorted(set(a) | set(b)):
            if k not in a or k not in b:
                return '%s/%s' % (path, k), a.get(k), b.get(k)
            d = first_difference(a[k], b[k], '%s/%s' % (path, k))
            if d:
                return d
        return None
    if isinstance(a, list):
        if len(a) != len(b):
            return path + '/len', len(a), len(b)
        for i, (x, y) in enumerate(zip(a, b)):
            d = first_difference(x, y, '%s[%i]' % (path, i))
            if d:
                return d
        return None
    if a != b:
        return path, a, b
    return None


def driver_main(args):
    tmp = tempfile.mkdtemp(prefix='difftest-')
    sides = {
        'orig': os.path.join(HERE, 'orig_pkg'),
        'mod': HERE,
    }
    assert os.path.isdir(os.path.join(sides['orig'], 'bisturi')), \
        "missing pristine copy of the package in ./orig_pkg/bisturi"

    for side in sides:
        os.makedirs(os.path.join(tmp, side))
        shutil.copy(__file__, os.path.join(tmp, side, 'difftest.py'))

    # two phases: the first one writes the generated code (cold), the second
    # one finds it written (warm)
    half = args.histories // 2
    phases = [(0, half), (half, args.histories - half)]
    ndiff = 0
    nhist = nevents = npacks = nfailed = 0
    t0 = time.time()
    for phase, (start, count) in enumerate(phases):
        procs = []
        for side, root in sides.items():
            env = dict(os.environ)
            env['PYTHONPATH'] = root
            env['PYTHONHASHSEED'] = '0'
            env['PYTHONDONTWRITEBYTECODE'] = '1'
            out = os.path.join(tmp, side, 'trace%i.jsonl' % phase)
            cmd = [
                PYTHON,
                os.path.join(tmp, side, 'difftest.py'), '--worker',
                '--expect-root', root, '--seed', args.seed, '--start',
                str(start), '--count',
                str(count), '--out', out
            ]
            if args.strict:
                cmd.append('--strict')
            if args.hostile:
                cmd.append('--hostile')
            if args.reparse:
                cmd.append('--reparse')
            procs.append(
                (
                    side, out,
                    subprocess.Popen(
                        cmd, env=env, cwd=os.path.join(tmp, side)
                    )
                )
            )

        for side, out, proc in procs:
            if proc.wait() != 0:
                print("worker '%s' failed (phase %i)" % (side, phase))
                return 2

        with open(procs[0][1]) as fa, open(procs[1][1]) as fb:
            for la, lb in zip(fa, fb):
                nhist += 1
                ra = json.loads(la)
                nevents += len(ra['events'])
                for ev in ra['events']:
                    if ev['op'].endswith('.pack()'):
                        npacks += 1
                        if ev['result'][0] != 'ok':
                            nfailed += 1
                if la == lb:
                    continue
                rb = json.loads(lb)
                ndiff += 1
                if ndiff <= args.show:
                    where, va, vb = first_difference(ra, rb)
                    print(
                        "DIFFERENCE in history %i (%s %s) at %s" %
                        (ra['h'], ra['ns'], ra['root'], where)
                    )
                    print("   original: %r" % (va, ))
                    print("   modified: %r" % (vb, ))
                    m = re.search(r'events\[(\d+)\]', where)
                    if m:
                        upto = int(m.group(1))
                        for ev in ra['events'][:upto + 1]:
                            print("      %s -> %s" % (ev['op'], ev['result']))

    gen = len(
        [
            f for f in os.listdir(os.path.join(tmp, 'mod', '__pkts__'))
            if f.endswith('.py')
        ]
    )
    print(
        "%i histories, %i operations (%i packs, %i of them failing), "
        "%i generated modules, %.1fs: %i histories with differences" %
        (nhist, nevents, npacks, nfailed, gen, time.time() - t0, ndiff)
    )
    if args.keep:
        print("traces kept in", tmp)
    else:
        shutil.rmtree(tmp, ignore_errors=True)
    return 1 if ndiff or nhist != args.histories else 0


def main():
    ap = argparse.ArgumentParser()
    ap.add_argument('--histories', type=int, default=4000)
    ap.add_argument('--seed', default='c17')
    ap.add_argument('--strict', action='store_true')
    ap.add_argument('--hostile', action='store_true')
    ap.add_argument('--reparse', action='store_true')
    ap.add_argument('--keep', action='store_true')
    ap.add_argument('--show', type=int, default=5)
    # worker only
    ap.add_argument('--worker', action='store_true')
    ap.add_argument('--expect-root')
    ap.add_argument('--start', type=int, default=0)
    ap.add_argument('--count', type=int, default=0)
    ap.add_argument('--out')
    args = ap.parse_args()
    if args.worker:
        worker_main(args)
        return 0
    return driver_main(args)


if __name__ == '__main__':
    sys.exit(main())
