#!/venv/bin/python
''' Randomized differential test: ORIGINAL bisturi (orig_pkg/bisturi) versus the
    bisturi of the working tree.

    The driver (this process, which never imports bisturi) builds random
    "scripts": histories of construct / unpack / attribute-set / list-mutation /
    pack operations over several live packets of a dozen packet classes.
    The very same scripts are replayed by worker subprocesses, one with
    PYTHONPATH=orig_pkg and one with PYTHONPATH=<working tree>, each one twice
    (cold and warm generated-code cache, every worker pair has its own scratch
    folder so the packages never share a __pkts__ cache).

    After every operation a worker records: the outcome (value dump, packed
    bytes, PacketError + phase + fields stack + dump of the partial packet, or
    the type of any other exception), a dump of *every* live packet (all the
    slots, hidden ones included) and the number of mutable sub-objects shared
    between two live packets.  The driver requires the records to be identical.

    Usage:
        difftest.py [--seed N] [--scripts N] [--ops N]      differential run
        difftest.py --threads 4 [...]     the modified package replays the
                                          scripts in N concurrent threads
                                          (distinct packets per thread) and is
                                          compared against the sequential
                                          original; also detects deadlocks
        difftest.py --exprs               build random trees of deferred expressions
                                          (and towers deeper than any sane one),
                                          compile them with compile_expr_into_callable
                                          and compare values / exception types and
                                          messages (which operand failed first)
        difftest.py --examples            run a copy of examples/*.py under both packages
        difftest.py --docs                run the examples of docs/reference
                                          and of the docstrings under both
                                          packages and compare the outcomes
'''
import sys, os, json, random, subprocess, argparse, hashlib, tempfile, shutil, time

HERE = os.path.dirname(os.path.abspath(__file__))
ORIG_ROOT = os.path.join(HERE, 'orig_pkg')
MOD_ROOT = HERE

# --------------------------------------------------------------------------
# Packet definitions (written to <scratch>/dt_defs.py and imported by workers)
# --------------------------------------------------------------------------
DEFS = r'''
import re
from bisturi.packet import Packet
from bisturi.field import Int, Data, Bits, Ref, Em, EOS
from bisturi.descriptor import AutoLength, Auto


class Ints(Packet):
    a = Int(1)
    b = Int(2, signed=True)
    c = Int(4, endianness='little')
    d = Int(8, signed=True, endianness='little')
    e = Int(3)
    f = Int(3, signed=True, endianness='little')
    g = Int(5, signed=True, default=-7)
    h = Int(2, endianness='network', default=513)
    i = Int(endianness='local')


class IntsLE(Packet):
    __bisturi__ = {'endianness': 'little'}
    a = Int(2)
    b = Int(3, signed=True)
    c = Int(2, endianness='big')
    d = Int(6)


class NoGen(Packet):
    __bisturi__ = {'generate_for_pack': False, 'generate_for_unpack': False}
    a = Int(1)
    b = Int(3, signed=True)
    n = Int(1)
    d = Data(n)
    z = Int(2).repeated(2)
    o = Int(1).when(a > 127)


class NoVec(Packet):
    __bisturi__ = {'vectorize': False, 'annotate': False}
    a = Int(1)
    b = Int(2)
    c = Data(2)
    d = Int(4, signed=True)


class Datas(Packet):
    n = Int(1)
    fixed = Data(3)
    byfield = Data(n)
    byexpr = Data((n * 2) % 5)
    bycall = Data(lambda pkt, **k: pkt.n & 3)
    zstr = Data(until_marker=b'\x00')
    incl = Data(until_marker=b'\r\n', include_delimiter=True)
    peek = Data(until_marker=b';', consume_delimiter=False)
    semi = Int(1)
    dflt = Data(2, default=b'hi')
    rest = Data(until_marker=EOS)


class Regexes(Packet):
    key = Data(until_marker=re.compile(b'[:=]'))
    val = Data(until_marker=re.compile(b'\r?\n'))
    inc = Data(until_marker=re.compile(b'[;,]+'), include_delimiter=True)
    nc = Data(until_marker=re.compile(b'#'), consume_delimiter=False)
    hash_ = Int(1)
    anch = Data(until_marker=re.compile(b'^Z|!'))
    tail = Data(until_marker=re.compile(b'$'))


class SearchBuf(Packet):
    __bisturi__ = {'search_buffer_length': 6}
    a = Data(until_marker=b'ab')
    b = Data(until_marker=re.compile(b'x+'))
    c = Int(1)


class BitsP(Packet):
    v = Bits(4)
    hl = Bits(4)
    flags = Bits(3)
    frag = Bits(13)
    x = Int(1)
    one = Bits(1)
    seven = Bits(7, default=5)


class Point(Packet):
    x = Int(1)
    y = Int(2, signed=True)


class Opt(Packet):
    len = Int(1)
    data = Data(len)


class Refs(Packet):
    p = Ref(Point)
    q = Ref(Point(x=3, y=-4))
    kind = Int(1, default=1)
    dyn = Ref(kind.chooses({1: Data(2), 2: Int(4), 3: Point(), 4: Opt(),
                            5: Data(until_marker=re.compile(b'[xy]'))}),
              default=b'\x00\x00')
    lam = Ref(lambda pkt, **k: Int(2) if pkt.kind & 1 else Opt(), default=0)
    lamp = Ref(lambda **k: Point(), default=Point(y=7))


class Seqs(Packet):
    n = Int(1)
    fixed = Int(2).repeated(3)
    byfield = Int(1).repeated(n)
    byexpr = Ref(Point).repeated((n + 1) // 2)
    until = Ref(Opt).repeated(until=lambda pkt, **k: pkt.until[-1].len == 0)
    uexpr = Int(1).repeated(until=lambda pkt, raw, offset, **k: pkt.uexpr[-1] > 127 or offset >= len(raw))
    w = Int(1).repeated(2, when=n > 2, default=[7, 8])
    al = Int(1).repeated(2, aligned=4)
    defaulted = Ref(Point).repeated(count=1, default=[Point(x=9)])
    datas = Data(until_marker=b',').repeated(lambda pkt, **k: pkt.n % 3)


class Whens(Packet):
    t = Int(1)
    a = Int(2).when(t)
    b = Data(2).when(t == 1, default=b'zz')
    c = Ref(Point).when((t & 2) != 0)
    d = Data(until_marker=b'\x00').when(a)
    e = Int(1).when(lambda pkt, **k: pkt.t > 200, default=5)
    f = Int(1).repeated(t & 3, when=(t & 4) == 4)


class Moves(Packet):
    off = Int(1)
    at_ = Data(2).at(off)
    sh = Int(1).shift(1)
    al = Int(2).aligned(4)
    al2 = Int(1).aligned(4, 'innermost-pkt')
    cal = Data(1).at(lambda pkt, **k: pkt.off + 13)
    back = Int(1).shift(-2)
    tail = Em().aligned(8)


class Vec(Packet):
    data = Data(2).at(2)
    k = Int(1).aligned(4, 'innermost-pkt')


class Tensor(Packet):
    hdr = Int(1)
    vecs = Ref(Vec).repeated(2)
    cur = Int(1).aligned(2, 'current-offset')
    absolute = Data(1).at(40, 'begins')
    end = Em().aligned(4)


class Aligned(Packet):
    __bisturi__ = {'align': 4}
    a = Int(1)
    b = Int(2)
    s = Int(1).repeated(a)
    c = Data(until_marker=b'\x00')
    p = Ref(Point)


class AutoLen(Packet):
    length = Int(1).describe(AutoLength('body'))
    body = Data(length)
    cnt = Int(1).describe(AutoLength('items'))
    items = Int(2).repeated(cnt)
    bits = Int(1).describe(Auto(lambda pkt: len(pkt.body) * 8 & 255))


class ExprP(Packet):
    a = Int(1)
    b = Int(1)
    s = Int(1).repeated(3)
    name = Data(until_marker=b'\x00')
    d1 = Data(((a + b) * 2 - 1) % 4)
    d2 = Data((a < b).chooses([b, a]) & 3)
    d3 = Data((a > 4).chooses({True: 4, False: a}) & 7)
    d4 = Data(1).when((s[0] == 255) | (s[1:] == [1, 2]))
    d5 = Data(a.if_true_then_else(1, 2))
    d6 = Data(2 ** (a & 3) - 1)
    d7 = Data((-a) % 3)
    d8 = Data((~a) & 3)
    d9 = Data((10 - a) % 4 + (64 >> (b & 7)) % 3 + ((a ^ b) <= 3).chooses(0, 1))
    d10 = Data(name.chooses(small=1, large=3, x=0))
    d11 = Data(1).when((a / 2 >= 1.5) & (s.__len__() == 3) & (name != b'no'))
    d12 = Data(a // b)
    d13 = Data(1).when((a % 7 == 3) | (b >= 250) | (a * b > 60000) | (1 << (a & 3) == 8))


def _tower(x, y, n, left=True):
    e = x
    for i in range(n):
        nxt = y if i % 2 else x
        e = (e + nxt) if left else (nxt - e)
    return e


class DeepExpr(Packet):
    a = Int(1)
    b = Int(1)
    l = Data(_tower(a, b, 70) % 5)
    r = Data(_tower(a, b, 61, left=False) % 4)
    m = Data(1).when(_tower(a, b, 47) % 2 == 1)
    n = Data(1).when(_tower(a, b, 48) % 2 == 1)
    c = Data((a < 3).chooses([_tower(a, b, 55), 1]) % 3)


def _make_local():
    class LocalPt(Packet):
        x = Int(1, default=4)
        y = Int(1)
        z = Int(1).repeated(2, default=[1, 2])

    return LocalPt


LocalPt = _make_local()


class UsesLocal(Packet):
    a = Ref(LocalPt(x=5))
    b = Ref(LocalPt).repeated(2)
    c = Ref(LocalPt)


class Outer(Packet):
    magic = Data(2, default=b'OK')
    hdr = Ref(BitsP)
    refs = Ref(Refs)
    opts = Ref(Opt).repeated(2)
    w = Ref(Whens)
    al = Ref(AutoLen)
    ex = Ref(ExprP).when(magic == b'EX')


class Embeds(Packet):
    pt = Ref(Point(x=1, y=2), embed=True)
    z = Int(1)


class ExprEnv(Packet):  # the fields used by the --exprs mode
    a = Int(1)
    b = Int(1)
    c = Int(2)
    s = Int(1).repeated(3)
    d = Data(2)


CLASSES = dict((c.__name__, c) for c in [
    Ints, IntsLE, NoGen, NoVec, Datas, Regexes, SearchBuf, BitsP, Point, Opt,
    Refs, Seqs, Whens, Moves, Vec, Tensor, Aligned, AutoLen, ExprP, DeepExpr, LocalPt,
    UsesLocal, Outer, Embeds])
'''

TOP_CLASSES = [
    'Ints', 'IntsLE', 'NoGen', 'NoVec', 'Datas', 'Regexes', 'SearchBuf',
    'BitsP', 'Refs', 'Seqs', 'Whens', 'Moves', 'Tensor', 'Aligned', 'AutoLen',
    'ExprP', 'DeepExpr', 'UsesLocal', 'Outer', 'Embeds'
]


# --------------------------------------------------------------------------
# Driver side: value/script generation (package independent)
# --------------------------------------------------------------------------
def B(b):
    return {'b': bytes(b).hex()}


def P(cls, **kw):
    return {'p': [cls, kw]}


def L(items):
    return {'l': list(items)}


def rint(r, nbytes, signed=False):
    if r.random() < 0.25:
        v = r.choice([0, 1, 2, 3, 4, 5, 127, 128, 255])
        return v if v < 2**(nbytes * 8 - (1 if signed else 0)) else 0
    if signed:
        return r.randrange(-2**(nbytes * 8 - 1), 2**(nbytes * 8 - 1))
    return r.randrange(0, 2**(nbytes * 8))


def rbytes(r, n, alphabet=None):
    if alphabet is None:
        return bytes(r.randrange(256) for _ in range(n))
    return bytes(r.choice(alphabet) for _ in range(n))


SAFE = b'ABCDEFGHIJKLMNOPQRSTUVWqrstuvw0123456789 '


def kw_Point(r):
    return dict(x=rint(r, 1), y=rint(r, 2, True))


def kw_Opt(r):
    n = r.randrange(0, 6)
    return dict(len=n, data=B(rbytes(r, n)))


def kw_LocalPt(r):
    return dict(x=rint(r, 1), y=rint(r, 1), z=L([rint(r, 1), rint(r, 1)]))


def kw_BitsP(r):
    return dict(v=r.randrange(16), hl=r.randrange(16), flags=r.randrange(8),
                frag=r.randrange(2**13), x=rint(r, 1), one=r.randrange(2),
                seven=r.randrange(128))


def kw_Whens(r):
    t = r.choice([0, 1, 2, 3, 4, 5, 6, 7, 201, 255, rint(r, 1)])
    kw = dict(t=t)
    if t:
        a = r.choice([0, rint(r, 2)])
        kw['a'] = a
        if a:
            kw['d'] = B(rbytes(r, r.randrange(4), SAFE))
        else:
            kw['d'] = None
    else:
        kw['a'] = None
        kw['d'] = None
    kw['b'] = B(rbytes(r, 2)) if t == 1 else None
    kw['c'] = P('Point', **kw_Point(r)) if t & 2 else None
    kw['e'] = rint(r, 1) if t > 200 else None
    kw['f'] = L([rint(r, 1) for _ in range(t & 3)] if t & 4 else [])
    return kw


def kw_AutoLen(r):
    kw = dict(body=B(rbytes(r, r.randrange(6))),
              items=L([rint(r, 2) for _ in range(r.randrange(4))]))
    if r.random() < 0.2:
        kw['length'] = r.randrange(6)
    return kw


def kw_ExprP(r):
    a, b = r.choice([(rint(r, 1), rint(r, 1)), (r.randrange(8), r.randrange(1, 8))])
    name = r.choice([b'small', b'large', b'x', b'no', b'other'])
    s = [r.choice([255, 1, 2, rint(r, 1)]) for _ in range(3)]
    if r.random() < 0.3:
        s[1:] = [1, 2]
    kw = dict(a=a, b=b, s=L(s), name=B(name))

    def d(n):
        return B(rbytes(r, n))

    kw['d1'] = d(((a + b) * 2 - 1) % 4)
    kw['d2'] = d(((b, a)[a < b]) & 3)
    kw['d3'] = d((4 if a > 4 else a) & 7)
    kw['d4'] = d(1) if (s[0] == 255 or s[1:] == [1, 2]) else None
    kw['d5'] = d(1 if a else 2)
    kw['d6'] = d(2**(a & 3) - 1)
    kw['d7'] = d((-a) % 3)
    kw['d8'] = d((~a) & 3)
    kw['d9'] = d((10 - a) % 4 + (64 >> (b & 7)) % 3 + (0, 1)[(a ^ b) <= 3])
    kw['d10'] = d({b'small': 1, b'large': 3, b'x': 0}.get(name, 0))
    kw['d11'] = d(1) if (a / 2 >= 1.5 and name != b'no') else None
    kw['d12'] = d(a // b if b else 0)
    kw['d13'] = d(1) if (a % 7 == 3 or b >= 250 or a * b > 60000 or (1 << (a & 3)) == 8) else None
    return kw


def kw_Refs(r):
    kind = r.choice([1, 2, 3, 4, 5, 5, rint(r, 1)])
    kw = dict(p=P('Point', **kw_Point(r)), kind=kind)
    if r.random() < 0.5:
        kw['q'] = P('Point', **kw_Point(r))
    if kind == 1:
        kw['dyn'] = B(rbytes(r, 2))
    elif kind == 2:
        kw['dyn'] = rint(r, 4)
    elif kind == 3:
        kw['dyn'] = P('Point', **kw_Point(r))
    elif kind == 4:
        kw['dyn'] = P('Opt', **kw_Opt(r))
    elif kind == 5:
        kw['dyn'] = B(rbytes(r, r.randrange(4), b'abc') + r.choice([b'x', b'y']))
    kw['lam'] = rint(r, 2) if kind & 1 else P('Opt', **kw_Opt(r))
    if r.random() < 0.5:
        kw['lamp'] = P('Point', **kw_Point(r))
    return kw


KW = {
    'Point': kw_Point,
    'Opt': kw_Opt,
    'LocalPt': kw_LocalPt,
    'BitsP': kw_BitsP,
    'Whens': kw_Whens,
    'AutoLen': kw_AutoLen,
    'ExprP': kw_ExprP,
    'Refs': kw_Refs,
}


def _kw(name):
    def deco(f):
        KW[name] = f
        return f

    return deco


@_kw('Ints')
def kw_Ints(r):
    return dict(a=rint(r, 1), b=rint(r, 2, True), c=rint(r, 4), d=rint(r, 8, True),
                e=rint(r, 3), f=rint(r, 3, True), g=rint(r, 5, True),
                h=rint(r, 2), i=rint(r, 4))


@_kw('IntsLE')
def kw_IntsLE(r):
    return dict(a=rint(r, 2), b=rint(r, 3, True), c=rint(r, 2), d=rint(r, 6))


@_kw('NoGen')
def kw_NoGen(r):
    n = r.randrange(5)
    a = rint(r, 1)
    return dict(a=a, b=rint(r, 3, True), n=n, d=B(rbytes(r, n)),
                z=L([rint(r, 2), rint(r, 2)]), o=rint(r, 1) if a > 127 else None)


@_kw('NoVec')
def kw_NoVec(r):
    return dict(a=rint(r, 1), b=rint(r, 2), c=B(rbytes(r, 2)), d=rint(r, 4, True))


@_kw('Datas')
def kw_Datas(r):
    n = r.randrange(7)
    return dict(n=n, fixed=B(rbytes(r, 3)), byfield=B(rbytes(r, n)),
                byexpr=B(rbytes(r, (n * 2) % 5)), bycall=B(rbytes(r, n & 3)),
                zstr=B(rbytes(r, r.randrange(5), SAFE)),
                incl=B(rbytes(r, r.randrange(4), SAFE) + b'\r\n'),
                peek=B(rbytes(r, r.randrange(4), SAFE)), semi=ord(';'),
                dflt=B(rbytes(r, 2)), rest=B(rbytes(r, r.randrange(6))))


@_kw('Regexes')
def kw_Regexes(r):
    # Note: with regexp markers the delimiter is not re-generated when the
    # packet is built by hand; the raw seeds of this class are hand made below
    return dict(key=B(rbytes(r, r.randrange(4), SAFE)), val=B(rbytes(r, r.randrange(4), SAFE)),
                inc=B(rbytes(r, r.randrange(3), SAFE) + b';'),
                nc=B(rbytes(r, r.randrange(3), SAFE)), hash_=ord('#'),
                anch=B(rbytes(r, r.randrange(3), SAFE)), tail=B(rbytes(r, r.randrange(4))))


@_kw('SearchBuf')
def kw_SearchBuf(r):
    return dict(a=B(rbytes(r, r.randrange(7), b'aABC')), b=B(rbytes(r, r.randrange(7), b'ABC')),
                c=rint(r, 1))


@_kw('Seqs')
def kw_Seqs(r):
    n = r.randrange(6)
    until = [P('Opt', **kw_Opt(r)) for _ in range(r.randrange(3))]
    until = [u for u in until if u['p'][1]['len'] != 0] + [P('Opt', len=0, data=B(b''))]
    uexpr = [r.randrange(128) for _ in range(r.randrange(3))] + [r.randrange(128, 256)]
    return dict(n=n, fixed=L([rint(r, 2) for _ in range(3)]),
                byfield=L([rint(r, 1) for _ in range(n)]),
                byexpr=L([P('Point', **kw_Point(r)) for _ in range((n + 1) // 2)]),
                until=L(until), uexpr=L(uexpr),
                w=L([rint(r, 1), rint(r, 1)] if n > 2 else []),
                al=L([rint(r, 1), rint(r, 1)]),
                defaulted=L([P('Point', **kw_Point(r))]),
                datas=L([B(rbytes(r, r.randrange(3), SAFE)) for _ in range(n % 3)]))


@_kw('Moves')
def kw_Moves(r):
    return dict(off=r.choice([1, 2, 3, 4, rint(r, 1) % 9 + 1]), at_=B(rbytes(r, 2)),
                sh=rint(r, 1), al=rint(r, 2), al2=rint(r, 1), cal=B(rbytes(r, 1)),
                back=rint(r, 1))


@_kw('Vec')
def kw_Vec(r):
    return dict(data=B(rbytes(r, 2)), k=rint(r, 1))


@_kw('Tensor')
def kw_Tensor(r):
    return dict(hdr=rint(r, 1), vecs=L([P('Vec', **kw_Vec(r)), P('Vec', **kw_Vec(r))]),
                cur=rint(r, 1), absolute=B(rbytes(r, 1)))


@_kw('Aligned')
def kw_Aligned(r):
    a = r.randrange(4)
    return dict(a=a, b=rint(r, 2), s=L([rint(r, 1) for _ in range(a)]),
                c=B(rbytes(r, r.randrange(6), SAFE)), p=P('Point', **kw_Point(r)))


@_kw('UsesLocal')
def kw_UsesLocal(r):
    kw = dict(b=L([P('LocalPt', **kw_LocalPt(r)), P('LocalPt', **kw_LocalPt(r))]))
    if r.random() < 0.5:
        kw['a'] = P('LocalPt', **kw_LocalPt(r))
    if r.random() < 0.5:
        kw['c'] = P('LocalPt', **kw_LocalPt(r))
    return kw


@_kw('Outer')
def kw_Outer(r):
    magic = r.choice([b'OK', b'EX', b'EX', rbytes(r, 2)])
    return dict(magic=B(magic), hdr=P('BitsP', **kw_BitsP(r)), refs=P('Refs', **kw_Refs(r)),
                opts=L([P('Opt', **kw_Opt(r)), P('Opt', **kw_Opt(r))]),
                w=P('Whens', **kw_Whens(r)), al=P('AutoLen', **kw_AutoLen(r)),
                ex=P('ExprP', **kw_ExprP(r)) if magic == b'EX' else None)


def _tower(x, y, n, left=True):
    e = x
    for i in range(n):
        nxt = y if i % 2 else x
        e = (e + nxt) if left else (nxt - e)
    return e


@_kw('DeepExpr')
def kw_DeepExpr(r):
    a, b = rint(r, 1), rint(r, 1)
    return dict(a=a, b=b, l=B(rbytes(r, _tower(a, b, 70) % 5)),
                r=B(rbytes(r, _tower(a, b, 61, left=False) % 4)),
                m=B(rbytes(r, 1)) if _tower(a, b, 47) % 2 == 1 else None,
                n=B(rbytes(r, 1)) if _tower(a, b, 48) % 2 == 1 else None,
                c=B(rbytes(r, ([_tower(a, b, 55), 1][a < 3]) % 3)))


@_kw('Embeds')
def kw_Embeds(r):
    kw = dict(z=rint(r, 1))
    if r.random() < 0.7:
        kw.update(x=rint(r, 1), y=rint(r, 2, True))
    return kw


def handmade_raws(r, cls):
    ''' Valid inputs that cannot be obtained packing a packet built by hand. '''
    if cls == 'Regexes':
        return (rbytes(r, r.randrange(4), SAFE) + r.choice([b':', b'=']) +
                rbytes(r, r.randrange(4), SAFE) + r.choice([b'\n', b'\r\n']) +
                rbytes(r, r.randrange(3), SAFE) + r.choice([b';', b',', b';;,', b',;']) +
                rbytes(r, r.randrange(3), SAFE) + b'#' +
                r.choice([b'Z', b'ab!', b'!', b'aZ!', b'Zq!']) + rbytes(r, r.randrange(5)))
    if cls == 'SearchBuf':
        return (rbytes(r, r.randrange(6), b'aABC') + b'ab' + rbytes(r, r.randrange(6), b'ABC') +
                b'x' * r.randrange(1, 4) + rbytes(r, 1))
    if cls == 'Refs':
        raw = rbytes(r, 6)
        kind = r.choice([1, 2, 3, 4, 5])
        raw += bytes([kind])
        raw += {1: rbytes(r, 2), 2: rbytes(r, 4), 3: rbytes(r, 3),
                4: b'\x02hi', 5: rbytes(r, r.randrange(3), b'abc') + r.choice([b'x', b'y'])}[kind]
        raw += rbytes(r, 2) if kind & 1 else b'\x03abc'
        return raw + rbytes(r, 3)
    return None


JUNK = [None, -1, 2**70, -2**70, 1.5, {'s': 'text'}, B(b''), B(b'junk-junk'),
        L([]), L([1, 2, 3]), L([None]), P('Point', x=1, y=1), P('Opt', len=1, data=B(b'x')),
        256, 65536, True]

# some nested paths (str -> getattr, int -> index); a missing one is just
# another (identical on both sides) exception
PATHS = {
    'Refs': [['p', 'x'], ['q', 'y'], ['dyn', 'x'], ['lam', 'data'], ['lamp', 'y']],
    'Seqs': [['fixed', 1], ['byexpr', 0, 'x'], ['until', 0, 'data'], ['defaulted', 0, 'y'],
             ['al', 0], ['w', 1]],
    'Whens': [['c', 'x'], ['f', 0]],
    'Tensor': [['vecs', 0, 'data'], ['vecs', 1, 'k']],
    'Aligned': [['p', 'y'], ['s', 0]],
    'AutoLen': [['items', 0]],
    'ExprP': [['s', 0], ['s', 2]],
    'UsesLocal': [['a', 'x'], ['b', 1, 'y'], ['c', 'z', 0], ['b', 0, 'z', 1]],
    'Outer': [['hdr', 'frag'], ['refs', 'p', 'x'], ['refs', 'kind'], ['opts', 0, 'data'],
              ['opts', 1, 'len'], ['w', 't'], ['al', 'body'], ['al', 'items', 0], ['ex', 'a']],
    'Embeds': [['pt', 'x'], ['pt', 'y']],
}
LISTS = {
    'Seqs': [['fixed'], ['byfield'], ['byexpr'], ['until'], ['w'], ['al'], ['defaulted'], ['datas'], ['uexpr']],
    'NoGen': [['z']],
    'Whens': [['f']],
    'Tensor': [['vecs']],
    'Aligned': [['s']],
    'AutoLen': [['items']],
    'ExprP': [['s']],
    'UsesLocal': [['b'], ['a', 'z'], ['c', 'z'], ['b', 0, 'z']],
    'Outer': [['opts'], ['al', 'items'], ['w', 'f']],
}
DESCRIPTORS = {'AutoLen': ['length', 'cnt', 'bits']}


def mutate(r, raw):
    raw = bytearray(raw)
    k = r.randrange(6)
    if k == 0 and raw:
        del raw[r.randrange(len(raw)):]
    elif k == 1 and raw:
        for _ in range(r.randrange(1, 4)):
            raw[r.randrange(len(raw))] = r.randrange(256)
    elif k == 2:
        raw += rbytes(r, r.randrange(1, 9))
    elif k == 3 and raw:
        i = r.randrange(len(raw))
        raw[i:i] = rbytes(r, r.randrange(1, 4))
    elif k == 4 and raw:
        i = r.randrange(len(raw))
        del raw[i:i + r.randrange(1, 4)]
    else:
        raw[:1] = rbytes(r, 1)
    return bytes(raw)


def make_seed_requests(r, per_class):
    return [(cls, KW[cls](r)) for cls in TOP_CLASSES for _ in range(per_class)]


def make_script(r, seeds, nops, nslots=5):
    ops = []
    slot_cls = {}
    for _ in range(nops):
        k = r.random()
        slot = r.randrange(nslots)
        if k < 0.16 or not slot_cls:
            cls = r.choice(TOP_CLASSES)
            j = r.random()
            if j < 0.15:
                kw = {}
            elif j < 0.85:
                kw = KW[cls](r)
                if r.random() < 0.3:  # only a subset
                    kw = dict((a, v) for a, v in kw.items() if r.random() < 0.5)
            else:
                kw = KW[cls](r)
                for a in r.sample(sorted(kw), min(len(kw), r.randrange(1, 3))):
                    kw[a] = r.choice(JUNK)
            ops.append(['new', slot, cls, kw])
            slot_cls[slot] = cls
        elif k < 0.46:
            cls = r.choice(TOP_CLASSES)
            j = r.random()
            pool = seeds.get(cls) or [b'']
            if j < 0.5:
                raw = r.choice(pool)
            elif j < 0.85:
                raw = mutate(r, r.choice(pool))
            elif j < 0.95:
                raw = rbytes(r, r.randrange(0, 40))
            else:
                raw = b''
            offset = 0
            if r.random() < 0.08:
                offset = r.choice([1, 2, 3, 5, len(raw), len(raw) + 3])
                if r.random() < 0.5:
                    raw = rbytes(r, offset) + raw
            silent = r.random() < 0.05
            ops.append(['unpack', slot, cls, raw.hex(), offset, silent])
            slot_cls[slot] = cls
        else:
            if slot not in slot_cls:
                slot = r.choice(sorted(slot_cls))
            cls = slot_cls[slot]
            if k < 0.70:
                ops.append(['pack', slot])
            elif k < 0.84:
                kw = KW[cls](r)
                if r.random() < 0.5 and cls in PATHS:
                    path = r.choice(PATHS[cls])
                    value = r.choice([rint(r, 1), rint(r, 2, True), B(rbytes(r, r.randrange(4))),
                                      r.choice(JUNK)])
                else:
                    attr = r.choice(sorted(kw))
                    path = [attr]
                    value = kw[attr] if r.random() < 0.75 else r.choice(JUNK)
                ops.append(['set', slot, path, value])
            elif k < 0.92 and cls in LISTS:
                path = r.choice(LISTS[cls])
                j = r.random()
                if j < 0.5:
                    value = r.choice([rint(r, 1), rint(r, 2), P('Point', **kw_Point(r)),
                                      P('Opt', **kw_Opt(r)), P('LocalPt', **kw_LocalPt(r)),
                                      P('Vec', **kw_Vec(r)), B(rbytes(r, 2, SAFE))])
                    ops.append(['lappend', slot, path, value])
                elif j < 0.8:
                    ops.append(['lpop', slot, path])
                else:
                    ops.append(['lclear', slot, path])
            elif k < 0.95 and cls in DESCRIPTORS:
                ops.append(['del', slot, [r.choice(DESCRIPTORS[cls])]])
            elif k < 0.975:
                ops.append(['roundtrip', slot])
            else:
                ops.append(['eq', slot, r.randrange(nslots)])
    return ops


# --------------------------------------------------------------------------
# Worker side
# --------------------------------------------------------------------------
def worker_setup(expected_root, scratch):
    # never pick a bisturi from the folder of this script nor from the cwd
    sys.path[:] = [p for p in sys.path if os.path.abspath(p or '.') not in (HERE, os.getcwd())]
    sys.path.insert(0, expected_root)
    sys.path.insert(0, scratch)
    import bisturi
    got = os.path.dirname(os.path.dirname(os.path.abspath(bisturi.__file__)))
    assert got == expected_root, (got, expected_root)

    defs_path = os.path.join(scratch, 'dt_defs.py')
    if not os.path.exists(defs_path):
        with open(defs_path, 'w') as f:
            f.write(DEFS)
    import dt_defs
    return dt_defs


class Replayer:
    def __init__(self, defs):
        from bisturi.packet import Packet, PacketError
        self.Packet = Packet
        self.PacketError = PacketError
        self.classes = defs.CLASSES
        self.stats = {}

    def decode(self, v):
        if isinstance(v, dict):
            if 'b' in v:
                return bytes.fromhex(v['b'])
            if 's' in v:
                return v['s']
            if 'l' in v:
                return [self.decode(x) for x in v['l']]
            if 'p' in v:
                cls, kw = v['p']
                return self.classes[cls](**dict((k, self.decode(x)) for k, x in kw.items()))
            raise ValueError(v)
        return v

    def names_of(self, pkt):
        cls = type(pkt)
        names = list(cls.__slots__)
        for _, f, _, _ in cls.get_fields():
            dn = getattr(f, 'descriptor_name', None)
            if dn and dn not in names:
                names.append(dn)
        return names

    def dump(self, v, depth=0):
        if isinstance(v, self.Packet):
            if depth > 12:
                return '<deep>'
            d = {'__cls__': type(v).__name__}
            if hasattr(v, '__dict__'):
                d['__has_dict__'] = True
            for n in self.names_of(v):
                try:
                    d[n] = self.dump(getattr(v, n), depth + 1)
                except AttributeError:
                    d[n] = '<unset>'
                except Exception as e:
                    d[n] = '<exc:%s>' % type(e).__name__
            return d
        if isinstance(v, bool):
            return 'bool:%s' % v
        if isinstance(v, int) or v is None:
            return v
        if isinstance(v, bytes):
            return 'b:' + v.hex()
        if isinstance(v, float):
            return 'f:' + repr(v)
        if isinstance(v, str):
            return 's:' + v
        if isinstance(v, (list, tuple)):
            return [type(v).__name__] + [self.dump(x, depth + 1) for x in v]
        return '<%s>' % type(v).__name__

    def mutable_ids(self, v, acc, depth=0):
        if depth > 12:
            return
        if isinstance(v, self.Packet):
            acc.add(id(v))
            for n in type(v).__slots__:
                try:
                    self.mutable_ids(getattr(v, n), acc, depth + 1)
                except Exception:
                    pass
        elif isinstance(v, list):
            acc.add(id(v))
            for x in v:
                self.mutable_ids(x, acc, depth + 1)

    def outcome_of_error(self, e):
        if isinstance(e, self.PacketError):
            return ['PacketError', bool(e.was_error_found_in_unpacking_phase),
                    [list(x) for x in e.fields_stack],
                    self.dump(getattr(e, 'packet', '<nopacket>'))]
        return ['exc', type(e).__name__]

    def resolve(self, obj, path):
        for p in path:
            obj = obj[p] if isinstance(p, int) else getattr(obj, p)
        return obj

    def stat(self, key):
        self.stats[key] = self.stats.get(key, 0) + 1

    def run(self, ops):
        live = {}
        records = []
        prev = {}
        for op in ops:
            kind, slot = op[0], op[1]
            try:
                if kind == 'new':
                    kw = dict((k, self.decode(v)) for k, v in op[3].items())
                    live[slot] = self.classes[op[2]](**kw)
                    out = ['ok']
                elif kind == 'unpack':
                    pkt = self.classes[op[2]].unpack(bytes.fromhex(op[3]), op[4], op[5])
                    if pkt is None:
                        out = ['silent-none']
                    else:
                        live[slot] = pkt
                        out = ['ok']
                elif kind == 'pack':
                    first = live[slot].pack()
                    second = live[slot].pack()
                    out = ['ok', first.hex(), first == second]
                elif kind == 'set':
                    path = op[2]
                    target = self.resolve(live[slot], path[:-1])
                    value = self.decode(op[3])
                    if isinstance(path[-1], int):
                        target[path[-1]] = value
                    else:
                        setattr(target, path[-1], value)
                    out = ['ok']
                elif kind == 'del':
                    delattr(live[slot], op[2][0])
                    out = ['ok']
                elif kind == 'lappend':
                    self.resolve(live[slot], op[2]).append(self.decode(op[3]))
                    out = ['ok']
                elif kind == 'lpop':
                    self.resolve(live[slot], op[2]).pop()
                    out = ['ok']
                elif kind == 'lclear':
                    del self.resolve(live[slot], op[2])[:]
                    out = ['ok']
                elif kind == 'roundtrip':
                    raw = live[slot].pack()
                    again = type(live[slot]).unpack(raw)
                    out = ['ok', raw.hex(), self.dump(again), again.pack().hex(),
                           again == live[slot]]
                elif kind == 'eq':
                    out = ['ok', live[slot] == live.get(op[2])]
                else:
                    raise RuntimeError(kind)
            except KeyError as e:
                if kind != 'new' and slot not in live:
                    out = ['noslot']
                else:
                    out = self.outcome_of_error(e)
            except Exception as e:
                out = self.outcome_of_error(e)

            self.stat('%s:%s' % (kind, out[0] if out[0] != 'exc' else 'exc-' + out[1]))
            if kind in ('unpack', 'pack', 'new') and out[0] != 'noslot':
                cname = op[2] if kind != 'pack' else type(live[slot]).__name__
                self.stat('@%s:%s:%s' % (cname, kind, 'ok' if out[0] in ('ok', 'silent-none') else 'err'))

            dumps = dict((s, self.dump(p)) for s, p in live.items())
            # C13 bookkeeping: which bystanders changed, who shares what
            changed = sorted(s for s in dumps if s != slot and s in prev and prev[s] != dumps[s])
            if changed:
                self.stat('bystander-changed')
            shared = 0
            seen = {}
            for s, p in live.items():
                acc = set()
                self.mutable_ids(p, acc)
                for i in acc:
                    if i in seen and seen[i] != s:
                        shared += 1
                    seen[i] = s
            if shared:
                self.stat('shared-mutable')
            prev = dumps

            others = hashlib.sha1(json.dumps(dumps, sort_keys=True).encode()).hexdigest()[:16]
            records.append([out, dumps.get(slot), others, changed, shared])
        return records


def worker_main(args):
    import faulthandler
    faulthandler.enable()
    defs = worker_setup(args.root, args.scratch)
    with open(args.scripts_file) as f:
        job = json.load(f)

    if job['mode'] == 'seeds':
        rp = Replayer(defs)
        out = []
        for cls, kw in job['requests']:
            try:
                pkt = defs.CLASSES[cls](**dict((k, rp.decode(v)) for k, v in kw.items()))
                out.append([cls, pkt.pack().hex()])
            except Exception:
                pass
        json.dump(out, sys.stdout)
        return

    scripts = job['scripts']
    results = [None] * len(scripts)
    stats = {}
    if args.threads <= 1:
        rp = Replayer(defs)
        for i, ops in enumerate(scripts):
            results[i] = rp.run(ops)
        stats = rp.stats
    else:
        import threading
        sys.setswitchinterval(1e-6)
        faulthandler.dump_traceback_later(args.deadlock_timeout, exit=True)
        todo = list(range(len(scripts)))
        todo_lock = threading.Lock()
        barrier = threading.Barrier(args.threads)
        errors = []

        def body():
            rp = Replayer(defs)
            barrier.wait()
            try:
                while True:
                    with todo_lock:
                        if not todo:
                            break
                        i = todo.pop()
                    results[i] = rp.run(scripts[i])
            except BaseException as e:  # pragma: no cover
                errors.append(repr(e))
            with todo_lock:
                for k, v in rp.stats.items():
                    stats[k] = stats.get(k, 0) + v

        ths = [threading.Thread(target=body) for _ in range(args.threads)]
        [t.start() for t in ths]
        [t.join() for t in ths]
        faulthandler.cancel_dump_traceback_later()
        assert not errors, errors

    json.dump({'results': results, 'stats': stats}, sys.stdout)


# --------------------------------------------------------------------------
# Docs mode (worker): run the examples of the docs as doctests
# --------------------------------------------------------------------------
def docs_worker_main(args):
    import doctest, glob, re, io
    sys.path[:] = [p for p in sys.path if os.path.abspath(p or '.') not in (HERE, os.getcwd())]
    sys.path.insert(0, args.root)
    import bisturi
    assert os.path.dirname(os.path.dirname(os.path.abspath(bisturi.__file__))) == args.root
    os.chdir(args.scratch)

    files = sorted(glob.glob(os.path.join(HERE, 'docs', 'reference', '*.md')))
    files += sorted(glob.glob(os.path.join(args.root, 'bisturi', '*.py')))
    doctest.ELLIPSIS_MARKER = '<...>'  # the docs are written for byexample
    flags = doctest.ELLIPSIS | doctest.NORMALIZE_WHITESPACE
    parser = doctest.DocTestParser()
    outcome = {}
    for path in files:
        with open(path) as f:
            text = f.read()
        test = parser.get_doctest(text, {}, os.path.basename(path), path, 0)

        class R(doctest.DocTestRunner):
            def report_success(self, out, test, example, got):
                outcome['%s#%i' % (test.name, test.examples.index(example))] = 'ok'

            def report_failure(self, out, test, example, got):
                outcome['%s#%i' % (test.name, test.examples.index(example))] = 'fail'

            def report_unexpected_exception(self, out, test, example, exc_info):
                outcome['%s#%i' % (test.name, test.examples.index(example))] = 'exc:' + exc_info[0].__name__

        R(verbose=False, optionflags=flags).run(test, out=lambda s: None)
    json.dump(outcome, sys.stdout)


# --------------------------------------------------------------------------
# Exprs mode: random deferred expressions compiled and evaluated directly
# --------------------------------------------------------------------------
# (no pow nor lshift here: a random tree of them needs more memory than atoms has
# the universe; they are exercised, tamed, by the ExprP packet class)
BIN_OPS = ['add', 'sub', 'mul', 'truediv', 'floordiv', 'mod', 'le', 'lt', 'ge', 'gt',
           'eq', 'ne', 'and_', 'or_', 'xor', 'rshift']
RBIN_OPS = ['add', 'sub', 'mul', 'truediv', 'floordiv', 'mod', 'and_', 'or_', 'xor', 'rshift']


def gen_expr(r, depth):
    if depth <= 0 or r.random() < 0.15:
        k = r.random()
        if k < 0.6:
            return ['field', r.choice(['a', 'b', 'c'])]
        if k < 0.7:
            return ['item', ['field', 's'], r.choice([0, 1, 2, 5, -1])]
        if k < 0.8:
            return ['len', ['field', r.choice(['s', 'd'])]]
        return ['lit', r.choice([0, 1, 2, 3, 7, -1, 255])]
    k = r.random()
    if k < 0.5:
        return ['bin', r.choice(BIN_OPS), gen_expr(r, depth - 1), gen_expr(r, depth - 1)]
    if k < 0.6:
        return ['rbin', r.choice(RBIN_OPS), r.choice([0, 1, 2, 10, 64]), gen_expr(r, depth - 1)]
    if k < 0.7:
        return ['un', r.choice(['neg', 'inv', 'truth']), gen_expr(r, depth - 1)]
    if k < 0.8:
        return ['chooses_list', gen_expr(r, depth - 1),
                [gen_expr(r, depth - 2) for _ in range(r.randrange(1, 4))]]
    if k < 0.9:
        keys = r.sample([0, 1, 2, 3, True, False], r.randrange(1, 4))
        return ['chooses_map', gen_expr(r, depth - 1), [[key, gen_expr(r, depth - 2)] for key in keys]]
    return ['ite', gen_expr(r, depth - 1), gen_expr(r, depth - 2), gen_expr(r, depth - 2)]


def gen_tower(r, n):
    e = ['field', 'a']
    for i in range(n):
        op = r.choice(['add', 'sub', 'xor', 'floordiv', 'mod'])
        leaf = r.choice([['field', 'b'], ['field', 'c'], ['lit', 3], ['item', ['field', 's'], 4]])
        e = ['bin', op, e, leaf] if r.random() < 0.7 else ['bin', op, leaf, e]
    return e


def gen_env(r):
    def v():
        k = r.random()
        if k < 0.75:
            return r.choice([0, 1, 2, 3, 5, 8, 200, r.randrange(256)])
        return r.choice([None, -3, 1.5])

    return dict(a=v(), b=v(), c=v(), s=L([r.randrange(4) for _ in range(r.randrange(5))]),
                d=B(rbytes(r, r.randrange(3))))


def exprs_worker_main(args):
    import operator, types
    defs = worker_setup(args.root, args.scratch)
    from bisturi.packet import Packet
    from bisturi.field import Int, Data
    from bisturi.deferred import compile_expr_into_callable

    fields = dict((n, f) for n, f, _, _ in defs.ExprEnv.get_fields())
    rp = Replayer(defs)

    def build(x):
        k = x[0]
        if k == 'field':
            return fields[x[1]]
        if k == 'lit':
            return x[1]
        if k == 'item':
            return build(x[1])[x[2]]
        if k == 'len':
            return build(x[1]).__len__()
        if k == 'bin':
            l, r_ = build(x[2]), build(x[3])
            if isinstance(l, (int, float)) and isinstance(r_, (int, float)):
                return getattr(operator, x[1])(fields['a'], r_)
            return getattr(operator, x[1])(l, r_)
        if k == 'rbin':
            r_ = build(x[3])
            if isinstance(r_, (int, float)):
                r_ = fields['b']
            return getattr(operator, x[1])(x[2], r_)
        if k == 'un':
            a = build(x[2])
            if isinstance(a, (int, float)):
                a = fields['c']
            return {'neg': lambda: -a, 'inv': lambda: ~a, 'truth': lambda: a.__nonzero__()}[x[1]]()
        if k == 'chooses_list':
            a = build(x[1])
            if isinstance(a, (int, float)):
                a = fields['a']
            return a.chooses([build(y) for y in x[2]])
        if k == 'chooses_map':
            a = build(x[1])
            if isinstance(a, (int, float)):
                a = fields['a']
            return a.chooses(dict((key, build(y)) for key, y in x[2]))
        if k == 'ite':
            a = build(x[1])
            if isinstance(a, (int, float)):
                a = fields['b']
            return a.if_true_then_else(build(x[2]), build(x[3]))
        raise ValueError(k)

    with open(args.scripts_file) as f:
        job = json.load(f)
    envs = [dict((k, rp.decode(v)) for k, v in env.items()) for env in job['envs']]
    out = []
    for spec in job['exprs']:
        try:
            fn = compile_expr_into_callable(build(spec))
        except Exception as e:
            out.append(['compile-exc', type(e).__name__])
            continue
        res = []
        for env in envs:
            pkt = types.SimpleNamespace(**env)
            try:
                val = fn(pkt=pkt, raw=b'abc', offset=1, root=pkt)
                res.append(['ok', type(val).__name__, repr(val)])
            except Exception as e:
                res.append(['exc', type(e).__name__, str(e)])
        out.append(res)
    json.dump(out, sys.stdout)


# --------------------------------------------------------------------------
# Driver
# --------------------------------------------------------------------------
def spawn(root, scratch, job_file, threads=1, docs=False, timeout=1800, deadlock_timeout=300,
          optimize=False):
    env = dict(os.environ)
    env['PYTHONPATH'] = root
    env['PYTHONDONTWRITEBYTECODE'] = '1'
    env['PYTHONHASHSEED'] = '0'
    cmd = [sys.executable, '-P']
    if optimize:
        cmd.append('-O')
    cmd += [os.path.abspath(__file__), {True: '--docs-worker', False: '--worker', 'exprs': '--exprs-worker'}[docs], '--root', root,
            '--scratch', scratch, '--scripts-file', job_file, '--threads', str(threads),
            '--deadlock-timeout', str(deadlock_timeout)]
    p = subprocess.run(cmd, env=env, cwd=scratch, stdout=subprocess.PIPE, stderr=subprocess.PIPE,
                       timeout=timeout)
    if p.returncode != 0:
        sys.stderr.write(p.stderr.decode(errors='replace')[-6000:])
        raise SystemExit('worker failed (root=%s, threads=%i): exit code %i' %
                         (root, threads, p.returncode))
    return json.loads(p.stdout.decode())


def first_difference(a, b, scripts):
    for si, (ra, rb) in enumerate(zip(a, b)):
        if ra == rb:
            continue
        for oi, (xa, xb) in enumerate(zip(ra, rb)):
            if xa != xb:
                return ('script %i, op %i: %s\n   ORIGINAL: %s\n   MODIFIED: %s' %
                        (si, oi, json.dumps(scripts[si][oi])[:600], json.dumps(xa)[:1500],
                         json.dumps(xb)[:1500]))
    return None


def count_differences(a, b):
    return sum(1 for ra, rb in zip(a, b) for xa, xb in zip(ra, rb) if xa != xb)


def main():
    ap = argparse.ArgumentParser()
    ap.add_argument('--seed', type=int, default=20260927)
    ap.add_argument('--scripts', type=int, default=300)
    ap.add_argument('--ops', type=int, default=60)
    ap.add_argument('--threads', type=int, default=1)
    ap.add_argument('--docs', action='store_true')
    ap.add_argument('--examples', action='store_true',
                    help='run examples/*.py (a copy of them) under both packages')
    ap.add_argument('--optimize', action='store_true', help='run the workers with python -O')
    ap.add_argument('--keep', action='store_true')
    # worker options
    ap.add_argument('--worker', action='store_true')
    ap.add_argument('--docs-worker', action='store_true')
    ap.add_argument('--exprs-worker', action='store_true')
    ap.add_argument('--exprs', action='store_true',
                    help='compile and evaluate random deferred expressions directly')
    ap.add_argument('--root')
    ap.add_argument('--scratch')
    ap.add_argument('--scripts-file')
    ap.add_argument('--deadlock-timeout', type=int, default=300)
    args = ap.parse_args()

    if args.worker:
        return worker_main(args)
    if args.docs_worker:
        return docs_worker_main(args)
    if args.exprs_worker:
        return exprs_worker_main(args)

    assert os.path.isdir(os.path.join(ORIG_ROOT, 'bisturi')), 'orig_pkg/bisturi is missing'
    top = tempfile.mkdtemp(prefix='.difftest-', dir=HERE)
    scratch_orig = os.path.join(top, 'orig')
    scratch_mod = os.path.join(top, 'mod')
    os.mkdir(scratch_orig)
    os.mkdir(scratch_mod)
    job_file = os.path.join(top, 'job.json')
    t0 = time.time()
    try:
        if args.docs:
            with open(job_file, 'w') as f:
                f.write('{}')
            a = spawn(ORIG_ROOT, scratch_orig, job_file, docs=True)
            b = spawn(MOD_ROOT, scratch_mod, job_file, docs=True)
            diffs = sorted(k for k in set(a) | set(b) if a.get(k) != b.get(k))
            print('docs examples: %i run, original ok=%i, modified ok=%i, DIFFERENCES=%i' %
                  (len(a), sum(v == 'ok' for v in a.values()),
                   sum(v == 'ok' for v in b.values()), len(diffs)))
            for k in diffs[:20]:
                print('   %s: original=%s modified=%s' % (k, a.get(k), b.get(k)))
            return 1 if diffs else 0

        if args.examples:
            outs = []
            for root, scratch in ((ORIG_ROOT, scratch_orig), (MOD_ROOT, scratch_mod)):
                folder = os.path.join(scratch, 'examples')
                shutil.copytree(os.path.join(HERE, 'examples'), folder,
                                ignore=shutil.ignore_patterns('__pkts__', '__pycache__'))
                env = dict(os.environ, PYTHONPATH=root, PYTHONDONTWRITEBYTECODE='1')
                res = {}
                for name in sorted(os.listdir(folder)):
                    if name.endswith('.py'):
                        for attempt in ('cold', 'warm'):
                            p = subprocess.run([sys.executable, '-P', name], cwd=folder, env=env,
                                               stdout=subprocess.PIPE, stderr=subprocess.PIPE,
                                               timeout=300)
                            err = p.stderr.decode(errors='replace').strip().splitlines()
                            res[name + '/' + attempt] = [p.returncode, p.stdout.decode(errors='replace'),
                                                         err[-1] if err else '']
                outs.append(res)
            diffs = sorted(k for k in outs[0] if outs[0][k] != outs[1].get(k))
            print('examples: %i runs, original exit-0=%i, modified exit-0=%i, DIFFERENCES=%i' %
                  (len(outs[0]), sum(v[0] == 0 for v in outs[0].values()),
                   sum(v[0] == 0 for v in outs[1].values()), len(diffs)))
            for k in diffs:
                print('   %s: original=%r modified=%r' % (k, outs[0][k][::2], outs[1][k][::2]))
            return 1 if diffs else 0

        r = random.Random(args.seed)
        if args.exprs:
            exprs = [gen_expr(r, r.randrange(1, 7)) for _ in range(1500)]
            exprs += [gen_tower(r, n) for n in (10, 30, 45, 46, 47, 48, 49, 50, 51, 52, 60, 90, 200)
                      for _ in range(8)]
            envs = [gen_env(r) for _ in range(25)]
            with open(job_file, 'w') as f:
                json.dump({'exprs': exprs, 'envs': envs}, f)
            a = spawn(ORIG_ROOT, scratch_orig, job_file, docs='exprs', timeout=300)
            b = spawn(MOD_ROOT, scratch_mod, job_file, docs='exprs', timeout=300)
            ndiff = sum(1 for x, y in zip(a, b) if x != y)
            flat = [x for res in a if res and res[0] != 'compile-exc' for x in res]
            kinds = {}
            for x in flat:
                key = x[0] if x[0] == 'ok' else 'exc-' + x[1]
                kinds[key] = kinds.get(key, 0) + 1
            print('exprs: %i expressions x %i environments; outcomes (original): %s' %
                  (len(exprs), len(envs), ', '.join('%s=%i' % kv for kv in sorted(kinds.items()))))
            for i, (x, y) in enumerate(zip(a, b)):
                if x != y:
                    print('   first difference in expression %i: %s' % (i, json.dumps(exprs[i])[:400]))
                    for j, (u, w) in enumerate(zip(x, y)):
                        if u != w:
                            print('      env %s\n      original=%s\n      modified=%s' % (envs[j], u, w))
                            break
                    break
            print('EXPRESSIONS WITH DIFFERENCES: %i' % ndiff)
            return 1 if ndiff else 0

        with open(job_file, 'w') as f:
            json.dump({'mode': 'seeds', 'requests': make_seed_requests(r, 25)}, f)
        seeds = {}
        for cls, raw in spawn(ORIG_ROOT, scratch_orig, job_file):
            seeds.setdefault(cls, []).append(bytes.fromhex(raw))
        for cls in TOP_CLASSES:
            for _ in range(25):
                raw = handmade_raws(r, cls)
                if raw is not None:
                    seeds.setdefault(cls, []).append(raw)

        scripts = [make_script(r, seeds, args.ops) for _ in range(args.scripts)]
        nops = sum(len(s) for s in scripts)
        with open(job_file, 'w') as f:
            json.dump({'mode': 'replay', 'scripts': scripts}, f)

        runs = []
        runs.append(('original/cold', spawn(ORIG_ROOT, scratch_orig, job_file, optimize=args.optimize)))
        runs.append(('original/warm', spawn(ORIG_ROOT, scratch_orig, job_file, optimize=args.optimize)))
        if args.threads > 1:
            for i in range(3):
                runs.append(('modified/%i-threads/run%i' % (args.threads, i),
                             spawn(MOD_ROOT, scratch_mod, job_file, threads=args.threads,
                                   optimize=args.optimize)))
        else:
            runs.append(('modified/cold', spawn(MOD_ROOT, scratch_mod, job_file, optimize=args.optimize)))
            runs.append(('modified/warm', spawn(MOD_ROOT, scratch_mod, job_file, optimize=args.optimize)))

        ref_name, ref = runs[0]
        total = 0
        for name, run in runs[1:]:
            n = count_differences(ref['results'], run['results'])
            total += n
            print('%-28s vs %-14s: %i operations, %i differences' % (name, ref_name, nops, n))
            if n:
                print(first_difference(ref['results'], run['results'], scripts))

        st = ref['stats']
        summary = dict((k, v) for k, v in st.items() if not k.startswith('@'))
        print('outcomes (original): ' + ', '.join('%s=%i' % kv for kv in sorted(summary.items())))
        print('per class (original) unpack ok/err, pack ok/err:')
        for cls in TOP_CLASSES:
            g = lambda k: st.get('@%s:%s' % (cls, k), 0)
            print('   %-10s unpack %4i/%-4i pack %4i/%-4i' %
                  (cls, g('unpack:ok'), g('unpack:err'), g('pack:ok'), g('pack:err')))
        print('seed=%i scripts=%i ops=%i threads=%i elapsed=%.1fs  TOTAL DIFFERENCES: %i' %
              (args.seed, args.scripts, nops, args.threads, time.time() - t0, total))
        return 1 if total else 0
    finally:
        if args.keep:
            print('scratch kept in', top)
        else:
            shutil.rmtree(top, ignore_errors=True)


if __name__ == '__main__':
    sys.exit(main())
