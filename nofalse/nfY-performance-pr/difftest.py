#!/venv/bin/python
'''Differential test: ORIGINAL bisturi (pristine copy in orig_pkg/bisturi) versus the
MODIFIED bisturi (./bisturi).

    /venv/bin/python difftest.py            # full run
    /venv/bin/python difftest.py --quick    # smaller run (smoke test)
    /venv/bin/python difftest.py --optimize # the workers run with python -O (no asserts)
    other flags: --jobs=N (parallel workers, 8), --keep (keep ./_difftest_work),
                 --show-messages (show the first error messages that differ)

The driver starts, for each of the 16 combinations of generate_for_pack /
generate_for_unpack / vectorize / annotate, one worker process per package (the package
is chosen with PYTHONPATH; PYTHONSAFEPATH=1 keeps the directory of the script out of
sys.path).  A worker defines all the packet classes below with that configuration and
runs the same deterministic (seeded) scenarios:

 - meta:      __slots__, get_fields() entries, pack_impl/unpack_impl class attributes,
              no __dict__, descriptors
 - unpack:    random valid / truncated / corrupted / garbage inputs, with offsets,
              negative offsets and offsets past the end; values of every slot, bytes of
              pack(), PacketError (phase, fields_stack, partially parsed packet)
 - assign:    random assignments (in range, out of range, bool, IntEnum, wrong types) to
              default built and parsed packets followed by pack(), twice
 - history:   interleaved operations over several live packets, all of them observed
              after each operation (plus aliasing of mutable objects between packets)
 - threads:   4 threads parse and pack DISTINCT packets of one class with
              sys.setswitchinterval(1e-6); compared with the sequential result
 - misc:      SeekableFile inputs, regular expressions of packets (pattern matching),
              silent unpack
 - redefine:  same named classes with the same names of fields (one cached module for
              all of them), different sizes/kinds of fields
 - fragments: (once, not per configuration) 200 000 random histories of Fragments, each
              one compared also with a model (sparse array of bytes)
 - docs:      (once) the examples of docs/ and of the docstrings, run with doctest

Each worker runs from its own scratch copy of this file (in ./_difftest_work/) so it has
its own __pkts__ cache.  The driver compares the outcomes item by item.  The messages of
the errors are compared separately (they are allowed to differ).  Exit code 0 means zero
differences.
'''
import sys, os, subprocess, pickle, random, zlib, threading, hashlib, enum, io, re
import shutil, time, itertools, traceback

HERE = os.path.dirname(os.path.abspath(__file__))
WORKER = len(sys.argv) > 1 and sys.argv[1] == '--worker'

CONFIGS = [
    dict(generate_for_pack=gp, generate_for_unpack=gu, vectorize=v, annotate=a)
    for gp in (True, False) for gu in (True, False) for v in (True, False)
    for a in (True, False)
]
assert len(CONFIGS) == 16


# ---------------------------------------------------------------------------
#  Driver
# ---------------------------------------------------------------------------
def driver():
    quick = '--quick' in sys.argv
    jobs = 8
    for a in sys.argv[1:]:
        if a.startswith('--jobs='):
            jobs = int(a.split('=')[1])

    work = os.path.join(HERE, '_difftest_work')
    shutil.rmtree(work, ignore_errors=True)
    os.makedirs(work)

    roots = {'orig': os.path.join(HERE, 'orig_pkg'), 'new': HERE}
    assert os.path.isdir(os.path.join(roots['orig'], 'bisturi')), \
            "pristine copy missing: orig_pkg/bisturi"

    same = True
    for name in sorted(os.listdir(os.path.join(HERE, 'bisturi'))):
        if name.endswith('.py'):
            a = open(os.path.join(HERE, 'bisturi', name), 'rb').read()
            try:
                b = open(os.path.join(roots['orig'], 'bisturi', name), 'rb').read()
            except OSError:
                b = None
            same = same and a == b
    if same:
        print("WARNING: ./bisturi is identical to orig_pkg/bisturi, nothing to compare "
              "(apply the change first: git apply variant1.diff)")

    tasks = []  # (what, label)
    for what in ['fragments', 'docs'] + list(range(len(CONFIGS))):
        for label in ('orig', 'new'):
            tasks.append((what, label))

    def launch(what, label):
        d = os.path.join(work, '%s_%s' % (label, what))
        os.makedirs(d)
        script = os.path.join(d, 'difftest_cases.py')
        shutil.copy(os.path.join(HERE, 'difftest.py'), script)
        # the data file used by the pattern matching scenario
        out = os.path.join(d, 'out.pickle')
        env = dict(os.environ)
        env['PYTHONPATH'] = roots[label]
        env['PYTHONSAFEPATH'] = '1'
        env['PYTHONHASHSEED'] = '0'
        env['PYTHONDONTWRITEBYTECODE'] = '1'
        if '--optimize' in sys.argv:
            env['PYTHONOPTIMIZE'] = '1'  # python -O: no asserts
        env['DIFFTEST_DATA'] = os.path.join(HERE, 'pingpattern.data')
        env['DIFFTEST_REPO'] = HERE
        cmd = [
            sys.executable, script, '--worker', label, str(what), out,
            roots[label], 'quick' if quick else 'full'
        ]
        log = open(os.path.join(d, 'log.txt'), 'w')
        return subprocess.Popen(cmd, env=env, cwd=d, stdout=log, stderr=log), out, d

    had_pkts = os.path.exists(os.path.join(HERE, '__pkts__'))
    running = []
    results = {}
    pending = list(tasks)
    t0 = time.time()
    failed = False
    while pending or running:
        while pending and len(running) < jobs:
            # the two 'docs' workers share a cache directory (./__pkts__): one at a time
            busy_docs = any(w == 'docs' for w, _, _, _, _ in running)
            candidates = [t for t in pending if not (t[0] == 'docs' and busy_docs)]
            if not candidates:
                break
            what, label = candidates[0]
            pending.remove((what, label))
            proc, out, d = launch(what, label)
            running.append((what, label, proc, out, d))

        time.sleep(0.2)
        for item in list(running):
            what, label, proc, out, d = item
            rc = proc.poll()
            if rc is None:
                continue
            running.remove(item)
            if rc != 0:
                failed = True
                print("WORKER FAILED:", what, label, "rc", rc)
                print(open(os.path.join(d, 'log.txt')).read()[-3000:])
            else:
                with open(out, 'rb') as f:
                    results[(what, label)] = pickle.load(f)

    if not had_pkts:
        shutil.rmtree(os.path.join(HERE, '__pkts__'), ignore_errors=True)

    if failed:
        print("FAIL: some worker did not finish")
        return 2

    print("workers done in %.1fs" % (time.time() - t0))

    total_items = 0
    total_diffs = 0
    total_msg_diffs = 0
    total_thread_mismatch = 0
    total_model_mismatch = 0
    total_errors_seen = 0
    shown = 0
    for what in ['fragments', 'docs'] + list(range(len(CONFIGS))):
        o = results[(what, 'orig')]
        n = results[(what, 'new')]
        title = what if what in ('fragments', 'docs') else \
                "config %2i %s" % (what, ' '.join(
                    '%s=%i' % (k[:12], v) for k, v in CONFIGS[what].items()))

        assert o['package'] != n['package'], (o['package'], n['package'])
        diffs = 0
        msg_diffs = 0
        items = 0
        for section in sorted(set(o['sections']) | set(n['sections'])):
            so = o['sections'].get(section)
            sn = n['sections'].get(section)
            if so is None or sn is None or len(so) != len(sn):
                diffs += 1
                print("  !! section %s: different shape" % section)
                continue

            for i, (a, b) in enumerate(zip(so, sn)):
                items += 1
                if a != b:
                    diffs += 1
                    if shown < 25:
                        shown += 1
                        print("  !! DIFF %s %s #%i\n     orig: %.1500r\n     new:  %.1500r" %
                              (title, section, i, a, b))

        mo, mn = o['messages'], n['messages']
        if len(mo) != len(mn):
            msg_diffs += abs(len(mo) - len(mn))
        for a, b in zip(mo, mn):
            if a != b:
                msg_diffs += 1
                if msg_diffs <= 2 and '--show-messages' in sys.argv:
                    print("  .. message differs:\n     orig: %r\n     new:  %r" % (a, b))

        tm = o['thread_mismatches'] + n['thread_mismatches']
        mm = o.get('model_mismatches', 0) + n.get('model_mismatches', 0)
        print("%-75s items %7i  errors seen %6i  diffs %i  message-only diffs %i  "
              "thread mismatches (orig/new) %i/%i%s" % (
            title, items, n['errors_seen'], diffs, msg_diffs,
            o['thread_mismatches'], n['thread_mismatches'],
            ("  model mismatches (orig/new) %i/%i" % (o['model_mismatches'],
                n['model_mismatches'])) if what == 'fragments' else ''))
        total_items += items
        total_diffs += diffs
        total_msg_diffs += msg_diffs
        total_thread_mismatch += tm
        total_model_mismatch += mm
        total_errors_seen += n['errors_seen']

    print()
    print("TOTAL items compared: %i   (outcomes that were errors: %i)" %
          (total_items, total_errors_seen))
    print("TOTAL differences: %i" % total_diffs)
    print("TOTAL differences only in the text of an error message: %i" % total_msg_diffs)
    print("TOTAL thread-vs-sequential mismatches: %i" % total_thread_mismatch)
    print("TOTAL fragments-vs-model mismatches: %i" % total_model_mismatch)
    ok = not (total_diffs or total_thread_mismatch or total_model_mismatch)
    print("RESULT:", "OK, zero differences" if ok else "FAIL")
    if ok and '--keep' not in sys.argv:
        shutil.rmtree(work, ignore_errors=True)
    return 0 if ok else 1


if not WORKER:
    if __name__ == '__main__':
        sys.exit(driver())
    raise ImportError("difftest.py is a script")

# ---------------------------------------------------------------------------
#  Worker
# ---------------------------------------------------------------------------
_, _, LABEL, WHAT, OUT, ROOT, SIZE = sys.argv
QUICK = SIZE == 'quick'

import bisturi
assert os.path.dirname(os.path.dirname(os.path.abspath(bisturi.__file__))) == \
        os.path.abspath(ROOT), (bisturi.__file__, ROOT)

from bisturi.packet import Packet, PacketError
from bisturi.field import Field, Int, Data, Bits, Ref, Em, EOS
from bisturi.fragments import Fragments
from bisturi.descriptor import Auto, AutoLength

SECTIONS = {}
MESSAGES = []
STATE = {'thread_mismatches': 0, 'model_mismatches': 0, 'errors_seen': 0}


_PLAIN = (type(None), bool, int, float, str, bytes)


def plain(x):
    ''' Only builtin objects go to the driver (an IntEnum can end up as the offset
        of a fields_stack, for example). '''
    t = type(x)
    if t in _PLAIN:
        return x
    if t in (list, tuple):
        return t(plain(y) for y in x)
    if t is dict:
        return dict((plain(k), plain(v)) for k, v in x.items())
    return ('<%s>' % t.__name__, repr(x))


def emit(section, item):
    SECTIONS.setdefault(section, []).append(plain(item))


def finish():
    with open(OUT, 'wb') as f:
        pickle.dump(
            dict(
                package=os.path.abspath(bisturi.__file__),
                sections=SECTIONS,
                messages=plain(MESSAGES),
                **STATE
            ), f, -1
        )
    sys.exit(0)


def seed_of(*parts):
    return zlib.crc32(repr(parts).encode())


# ---------------------------------------------------------------------------
#  Fragments differential (and model check)
# ---------------------------------------------------------------------------
class SparseModel:
    ''' What a Fragments is said to be: a sparse array of bytes. '''

    def __init__(self):
        self.cells = {}
        self.extent = 0
        self.cursor = 0

    def insert(self, p, s):
        if any((p + i) in self.cells for i in range(len(s))):
            return False  # must raise, nothing changes
        for i, c in enumerate(s):
            self.cells[p + i] = c
        self.cursor = p + len(s)
        self.extent = max(self.extent, p + len(s))
        return True

    def tobytes(self, fill):
        return bytes(self.cells.get(i, fill) for i in range(self.extent))


def fragments_differential():
    rnd = random.Random(20260927)
    histories = 20000 if QUICK else 200000
    chunks = [b'', b'a', b'bc', b'def', b'ghij', b'klmnopq']
    digest = hashlib.sha256()
    block = []
    for h in range(histories):
        fill = b'.' if rnd.random() < 0.9 else b'#'
        f = Fragments(fill) if fill != b'.' else Fragments()
        model = SparseModel()
        span = rnd.choice([6, 12, 24, 60])
        trace = []
        for _ in range(rnd.randint(1, 12)):
            op = rnd.random()
            if op < 0.35:
                todo = [(None, rnd.choice(chunks))]
                call = lambda: f.append(todo[0][1])
            elif op < 0.45:
                todo = [(None, rnd.choice(chunks)) for _ in range(rnd.randint(0, 3))]
                call = lambda: f.extend(iter([s for _, s in todo]))
            elif op < 0.9:
                todo = [(rnd.randint(0, span), rnd.choice(chunks))]
                call = lambda: f.insert(*todo[0])
            else:
                todo = []
                p = rnd.randint(0, span)
                call = lambda: setattr(f, 'current_offset', p)
                model.cursor = p

            trace.append(todo)
            try:
                call()
                raised = False
                trace.append('ok')
            except Exception as e:
                raised = True
                trace.append(('exc', type(e).__name__, str(e)))

            expected_raise = False
            for p, s in todo:
                if not model.insert(model.cursor if p is None else p, s):
                    expected_raise = True
                    break

            if raised != expected_raise or f.current_offset != model.cursor \
                    or f.end_offset != model.extent:
                STATE['model_mismatches'] += 1

            trace.append((f.current_offset, f.end_offset))
            if rnd.random() < 0.2:
                # observing in the middle must not change anything
                trace.append(f.tobytes())

        out = f.tobytes()
        if out != model.tobytes(fill[0]) or len(out) != model.extent:
            STATE['model_mismatches'] += 1
        if (f == out) is not True or f.tobytes() != out:
            STATE['model_mismatches'] += 1

        item = (trace, out, repr(f), sorted(f.fragments.items()), f.begin_of_fragments)
        digest.update(repr(item).encode())
        block.append(zlib.crc32(repr(item).encode()))
        if len(block) == 1000:
            emit('fragments-blocks', tuple(block))
            block = []
        if h < 300:
            emit('fragments-first-histories', item)

    if block:
        emit('fragments-blocks', tuple(block))
    emit('fragments-digest', digest.hexdigest())

    # documented example, literally
    f = Fragments()
    doc = [repr(f), f.tobytes()]
    f.append(b'AAA'); f.append(b'BBB'); f.extend([b'CCC', b'DDD']); f.insert(16, b'EEE')
    f.insert(12, b'XXX'); f.append(b'F')
    doc += [repr(f), f.tobytes(), f == b'AAABBBCCCDDDXXXFEEE']
    for args in ((None, b'ZZZ'), (2, b'ZZZ')):
        try:
            f.append(args[1]) if args[0] is None else f.insert(*args)
        except Exception as e:
            doc.append(str(e))
    emit('fragments-doc', doc)
    if doc[3] != b'AAABBBCCCDDDXXXFEEE' or len(doc) != 7:
        STATE['model_mismatches'] += 1


def docs_examples():
    ''' The examples of the documentation (and of the docstrings), run with doctest:
        which ones pass and which don't (a few are written for byexample, not for
        doctest) must be the same. '''
    import doctest, glob
    repo = os.environ['DIFFTEST_REPO']
    os.chdir(repo)  # the examples open files relative to the root of the repository
    parser = doctest.DocTestParser()
    files = sorted(glob.glob(os.path.join(repo, 'docs', '*', '*.md'))) + \
            [os.path.join(repo, 'README.md')] + \
            sorted(glob.glob(os.path.join(ROOT, 'bisturi', '*.py')))
    flags = doctest.ELLIPSIS | doctest.NORMALIZE_WHITESPACE | doctest.IGNORE_EXCEPTION_DETAIL
    for f in files:
        text = open(f).read().replace('<...>', '...')
        text = re.sub(r'(?m)^```.*$', '', text)
        text = re.sub(r'(?m)^(\s*)>>>$', r'\1>>> pass', text)
        text = re.sub(r'(?m)^-->$', '', text)
        text = re.sub(r'(?m)#\s*byexample:.*$', '', text)
        name = os.path.basename(f)
        try:
            test = parser.get_doctest(text, {}, name, f, 0)
        except ValueError as e:
            emit('docs', (name, 'cannot be parsed by doctest'))
            continue
        fails = []
        runner = doctest.DocTestRunner(verbose=False, optionflags=flags)
        runner.report_failure = lambda out, test, example, got: \
                fails.append((example.lineno, 'fails', got if 'Traceback' not in got else 'traceback'))
        runner.report_unexpected_exception = lambda out, test, example, exc_info: \
                fails.append((example.lineno, 'raises', type(exc_info[1]).__name__))
        r = runner.run(test, out=lambda s: None, clear_globs=True)
        emit('docs', (name, r.attempted, r.failed, fails))
        STATE['errors_seen'] += r.failed


if WHAT == 'fragments':
    fragments_differential()
    finish()

if WHAT == 'docs':
    docs_examples()
    finish()

# ---------------------------------------------------------------------------
#  The packet classes (every field kind and option of docs/reference)
# ---------------------------------------------------------------------------
CONF = CONFIGS[int(WHAT)]


def bconf(**extra):
    d = dict(CONF)
    d.update(extra)
    return d


def rb(rnd, n):
    return bytes(rnd.getrandbits(8) for _ in range(n))


def rbnot(rnd, n, forbidden):
    return bytes(rnd.choice([c for c in range(256) if c not in forbidden]) for _ in range(n))


class E(enum.IntEnum):
    A = 1
    B = 200
    C = 70000


CASES = []  # (class, generator of valid inputs)


def case(gen):
    def deco(cls):
        CASES.append((cls, gen))
        return cls
    return deco


# --- 03 Int -----------------------------------------------------------------
@case(lambda r: rb(r, 28))
class IntBasic(Packet):
    __bisturi__ = bconf()
    a = Int()
    b = Int(1)
    c = Int(endianness='little')
    d = Int(1, signed=True)
    e = Int(endianness='network')
    f = Int(endianness='local')
    g = Int(2, signed=True, endianness='little')
    h = Int(8, signed=True)


@case(lambda r: rb(r, 41))
class IntRare(Packet):
    __bisturi__ = bconf()
    a = Int(3)
    b = Int(3, endianness='little')
    c = Int(16, signed=True)
    d = Int(3, endianness='network')
    e = Int(3, endianness='local')
    f = Int(5, signed=True, endianness='little')
    g = Int(1)
    h = Int(7, default=77)


@case(lambda r: rb(r, 15))
class IntLittle(Packet):
    __bisturi__ = bconf(endianness='little')
    a = Int(2, endianness='little')
    b = Int(2, default=513)
    c = Int(2, endianness='network')
    d = Int(3)
    e = Data(2)
    f = Int(4, signed=True, default=-2)


@case(lambda r: rb(r, 18))
class Mixed(Packet):
    __bisturi__ = bconf()
    a = Int(1)
    b = Data(2)
    c = Int(2, endianness='little')
    d = Int(4, endianness='little')
    e = Int(2)
    f = Data(3, default=b'xyz')
    g = Int(3)
    h = Int(1)
    i = Data(0)


# --- 02 / 04 Data -----------------------------------------------------------
def gen_tlp(r):
    n = r.randint(0, 9)
    return rb(r, 1) + n.to_bytes(4, 'big') + rb(r, n)


@case(gen_tlp)
class TLP(Packet):
    __bisturi__ = bconf()
    type = Int(1)
    length = Int()
    payload = Data(length)


def gen_based_on_other(r):
    n = r.randint(0, 5)
    return bytes([n]) + rb(r, 2) + rb(r, n) + rb(r, 2 * n)


@case(gen_based_on_other)
class BasedOnOther(Packet):
    __bisturi__ = bconf()
    length = Int(1)
    a = Data(2)
    b = Data(length)
    c = Data(length * 2)


def gen_based_on_pattern(r):
    a = rbnot(r, r.randint(0, 4), b'\x00') + b'\x00'
    b = rbnot(r, r.randint(0, 4), b'f') + b'fff'
    c = rbnot(r, r.randint(0, 4), b'X') + b'X' * r.randint(1, 3)
    d = rbnot(r, r.randint(0, 4), b'X')
    if r.random() < 0.5:
        d += b'X' * r.randint(1, 2) + rbnot(r, r.randint(0, 2), b'X')
    return a + b + c + d


@case(gen_based_on_pattern)
class BasedOnPattern(Packet):
    __bisturi__ = bconf()
    a = Data(until_marker=b'\0', include_delimiter=True)
    b = Data(until_marker=b'fff')
    c = Data(until_marker=re.compile(b'X+|$'), include_delimiter=True)
    d = Data(until_marker=re.compile(b'X+|$'))


def gen_search_limit(r):
    a = rbnot(r, r.randint(0, 5), b'\x00') + b'\x00'  # sometimes too far away
    b = rbnot(r, r.randint(0, 5), b'z') + r.choice([b'xz', b'yz'])
    return a + b + rb(r, r.randint(0, 6))


@case(gen_search_limit)
class SearchLimit(Packet):
    __bisturi__ = bconf(search_buffer_length=4)
    a = Data(until_marker=b'\0')
    b = Data(until_marker=re.compile(b'[xy]z'), consume_delimiter=False)
    sep = Data(2)
    c = Data(until_marker=EOS, include_delimiter=False)


def gen_no_consume(r):
    a = rbnot(r, r.randint(0, 4), b';') + b';'
    b = rbnot(r, r.randint(0, 4), b'-') + b'--'
    c = rbnot(r, r.randint(0, 3), b'ab') + b'ab'
    return a + b + c + rb(r, r.randint(0, 3))


@case(gen_no_consume)
class NoConsume(Packet):
    __bisturi__ = bconf()
    a = Data(until_marker=b';', consume_delimiter=False)
    sep = Data(1, default=b';')
    b = Data(until_marker=b'--', include_delimiter=True, default=b'--')
    c = Data(until_marker=re.compile(b'(?<=a)b'))  # looks behind
    rest = Data(until_marker=EOS)


def gen_based_on_func(r):
    n = r.choice([0, 1, 2, 3, 255])
    return bytes([n]) + rb(r, n if n < 255 else r.randint(0, 6)) + rb(r, n & 1)


@case(gen_based_on_func)
class BasedOnFunc(Packet):
    __bisturi__ = bconf()

    def calc_size(pkt, raw, offset, **k):
        return pkt.size if pkt.size < 255 else len(raw) - offset

    size = Int(1)
    payload = Data(calc_size)
    tail = Data(lambda root, pkt, **k: root.size & 1)


# --- 05 Bits ----------------------------------------------------------------
@case(lambda r: rb(r, 9))
class BitsExample(Packet):
    __bisturi__ = bconf()
    fragment_offset = Bits(12)
    flags = Bits(4)
    i = Int(2)
    x1 = Bits(1, default=1)
    x7 = Bits(7)
    y3 = Bits(3)
    y5 = Bits(5, default=21)
    y8 = Bits(8)
    last = Int(1)
    z8 = Bits(8)


# --- 06 Ref -----------------------------------------------------------------
@case(lambda r: rb(r, 6))
class MAC(Packet):
    __bisturi__ = bconf()
    oui = Data(3)
    nic = Data(3)


def gen_ethernet(r):
    n = r.randint(0, 5)
    return rb(r, 12) + bytes([n]) + rb(r, n)


@case(gen_ethernet)
class Ethernet(Packet):
    __bisturi__ = bconf()
    destination = MAC
    source = Ref(MAC(nic=b'\xff\xff\x02'))
    size = Int(1)
    payload = Data(lambda pkt, raw, offset, **k: pkt.size if pkt.size <= 150 else len(raw) - offset)


@case(lambda r: gen_ethernet(r) + rb(r, 1))
class Frame(Packet):
    __bisturi__ = bconf()
    address = Ref(Ethernet, embed=True)
    z = Int(1)


# --- 07 dynamic -------------------------------------------------------------
def gen_domain(r):
    n = r.randint(0, 6)
    return bytes([n]) + rb(r, n)


@case(gen_domain)
class DomainName(Packet):
    __bisturi__ = bconf()
    length = Int(1)
    name = Data(length)


def gen_socks(r):
    t = r.choice([1, 4, 3])
    return bytes([t]) + {1: lambda: rb(r, 4), 4: lambda: rb(r, 16), 3: lambda: gen_domain(r)}[t]()


@case(gen_socks)
class SOCKS(Packet):
    __bisturi__ = bconf()
    type = Int(1, default=0x01)
    address = Ref(type.chooses({
        0x01: Data(4),
        0x04: Data(16),
        0x03: DomainName(),
    }), default=b'\x00\x00\x00\x00')


def gen_dyn_int(r):
    t = r.randint(0, 2)
    return bytes([t]) + rb(r, [1, 2, 3][t]) + rb(r, 1)


@case(gen_dyn_int)
class DynInt(Packet):
    __bisturi__ = bconf()
    t = Int(1)
    v = Ref(lambda pkt, **k: [Int(1), Int(2, endianness='little'), Int(3)][pkt.t % 3], default=0)
    end = Int(1)


# --- 08 sequences -----------------------------------------------------------
def gen_tlv(r, t=None):
    n = r.randint(0, 3)
    return bytes([r.randint(1, 255) if t is None else t, n]) + rb(r, n)


@case(gen_tlv)
class TypeLenValue(Packet):
    __bisturi__ = bconf()
    type = Int(1)
    length = Int(1)
    value = Data(length)


def gen_attrs_count(r):
    n = r.randint(0, 4)
    return bytes([n]) + b''.join(gen_tlv(r) for _ in range(n))


@case(gen_attrs_count)
class AttributesCount(Packet):
    __bisturi__ = bconf()
    count = Int(1)
    attributes = Ref(TypeLenValue).repeated(count)


def gen_attrs_until(r):
    return b''.join(gen_tlv(r) for _ in range(r.randint(0, 3))) + b'\x00\x00'


@case(gen_attrs_until)
class AttributesUntil(Packet):
    __bisturi__ = bconf()
    attributes = Ref(TypeLenValue).repeated(until=lambda pkt, **k: pkt.attributes[-1].type == 0)


def gen_attrs_when(r):
    if r.random() < 0.3:
        return b'\x00' + gen_attrs_when2(r)
    return bytes([r.randint(1, 255)]) + gen_attrs_until(r) + gen_attrs_when2(r)


def gen_attrs_when2(r):
    if r.random() < 0.3:
        return b'\x00'
    return bytes([r.randint(1, 255)]) + gen_tlv(r) + gen_tlv(r)


@case(gen_attrs_when)
class AttributesWhen(Packet):
    __bisturi__ = bconf()
    has_attributes = Int(1)
    attributes = Ref(TypeLenValue).repeated(
        when=lambda pkt, **k: pkt.has_attributes,
        until=lambda pkt, **k: pkt.attributes[-1].type == 0
    )
    has_more = Int(1)
    more = Ref(TypeLenValue).repeated(count=2, when=lambda pkt, **k: pkt.has_more)


@case(lambda r: b''.join(gen_tlv(r) for _ in range(r.randint(1, 3))) + rb(r, 4))
class AttributesChecksum(Packet):
    __bisturi__ = bconf()
    attributes = Ref(TypeLenValue).repeated(
        until=lambda raw, offset, **k: offset >= (len(raw) - 4)
    )
    checksum = Int(4)


def gen_option(r):
    t = r.choice([0, 0, 1, 2, 7])
    out = bytes([t])
    if t != 0:
        out += rb(r, 4)
    if t != 0:
        out += rb(r, 2)
    if t > 1:
        out += rb(r, 6)
    return out


@case(gen_option)
class Option(Packet):
    __bisturi__ = bconf()
    type = Int(1)
    num = Int(4).when(lambda pkt, **k: pkt.type != 0)
    opt = Int(2, endianness='little').when(type != 0)
    mac = Ref(MAC).when(type > 1)


def gen_seq_kinds(r):
    n = r.randint(0, 3)
    out = bytes([n]) + rb(r, 2 * 2) + rb(r, 3 * n) + rb(r, 2 * n)
    for _ in range(n):
        out += rbnot(r, r.randint(0, 3), b',;') + r.choice([b',', b';;'])
    out += rbnot(r, r.randint(0, 2), b'\x00') + b'\x00' + rbnot(r, r.randint(0, 2), b'\x00') + b'\x00'
    return out


@case(gen_seq_kinds)
class SeqKinds(Packet):
    __bisturi__ = bconf()
    n = Int(1)
    shorts = Int(2).repeated(2, default=[1, 2])
    rares = Int(3, endianness='little').repeated(n)
    datas = Data(2).repeated(count=lambda pkt, **k: pkt.n)
    words = Data(until_marker=re.compile(b',|;;')).repeated(n)
    names = Data(until_marker=b'\x00').repeated(2)


def gen_room(r):
    def bag_nonzero():
        n = r.randint(1, 2)
        return bytes([n]) + rb(r, n)

    def box():
        return b''.join(bag_nonzero() for _ in range(r.randint(0, 2))) + b'\x00'

    out = box() + box()
    for _ in range(2):
        out = pad(out, 6) + box()
    return out


class Bag(Packet):
    __bisturi__ = bconf()
    num = Int(1)
    objects = Int(1).repeated(num)


class Box(Packet):
    __bisturi__ = bconf()
    bags = Ref(Bag).repeated(until=lambda pkt, **k: pkt.bags[-1].num == 0)


@case(gen_room)
class Room(Packet):
    __bisturi__ = bconf()
    tight = Ref(Box).repeated(2, default=[Box(bags=[Bag()]), Box(bags=[Bag()])])
    no_so_tight = Ref(Box).repeated(2, aligned=6, default=[Box(bags=[Bag()]), Box(bags=[Bag()])])


# --- 09 / 15 expressions ----------------------------------------------------
def gen_deferred(r):
    n = r.choice([0, 0, 1, 2, 3])
    out = bytes([n]) + rb(r, n) + rb(r, n)
    if n:
        msg = rbnot(r, r.randint(0, 2), b'\x00')
        out += msg + b'\x00'
        if msg:
            out += rbnot(r, r.randint(0, 2), b'\x00') + b'\x00'
    return out + rb(r, r.randint(0, 2))


@case(gen_deferred)
class DeferredValue(Packet):
    __bisturi__ = bconf()
    number = Int(1)
    payload = Data(number)
    elements = Int(1).repeated(number)
    msg = Data(until_marker=b'\x00').when(number)
    author = Data(until_marker=b'\x00').when(msg)


def gen_arith(r):
    rows, cols = r.randint(0, 3), r.randint(0, 3)
    return bytes([rows, cols]) + rb(r, rows * cols) + rb(r, 8 - ((rows * cols) % 8))


@case(gen_arith)
class ArithExpressions(Packet):
    __bisturi__ = bconf()
    rows = Int(1)
    cols = Int(1)
    values = Int(1).repeated(rows * cols)
    padding = Data(8 - ((rows * cols) % 8))


def gen_seq_expr(r):
    items = r.choice([b'\xff', b'\xbe\xef', b'']) + rb(r, 4)
    items = items[:4]
    out = items
    if items[0] == 0xff:
        out += rb(r, 4)
    if items[:2] == b'\xbe\xef':
        out += rb(r, 4)
    return out


@case(gen_seq_expr)
class SequenceExpressions(Packet):
    __bisturi__ = bconf()
    items = Int(1).repeated(4)
    extra_data = Data(4).when(items[0] == 0xff)
    hidden_data = Data(4).when(items[:2] == [0xbe, 0xef])


def gen_magic(r):
    magic = r.choice([b'v002', b'xyz1', b'xyz\x00', rb(r, 4)])
    out = magic
    if magic == b'v002':
        out += rb(r, 2)
    if magic[:3] == b'xyz':
        out += rb(r, 4)
    return out


@case(gen_magic)
class Magic(Packet):
    __bisturi__ = bconf()
    magic = Data(4, default=b'v002')
    v2_only_field = Data(2).when(magic == b'v002')
    hidden_field = Data(4).when((magic[:3] == b'xyz') & (magic[3] != b'\x00'))


def gen_choose(r):
    a, b = r.randint(0, 6), r.randint(0, 6)
    out = bytes([a, b])
    if a == 1:
        out += rb(r, 1)
    out += rb(r, min(a, b)) if a < b else rb(r, b)
    out += rb(r, 4 if a > 4 else a)
    out += rb(r, 2 if a <= b else 1)
    return out


@case(gen_choose)
class ChooseExpressions(Packet):
    __bisturi__ = bconf()
    a = Int(1)
    b = Int(1)
    extra = Data(byte_count=1).when((a == 1).chooses(False, True))
    mindata = Data(byte_count=(a < b).chooses([b, a]))
    truncated = Data(byte_count=(a > 4).chooses({True: 4, False: a}))
    ite = Data(byte_count=(a <= b).if_true_then_else(2, 1))


def gen_choose_kw(r):
    k = r.choice([b'small', b'large', b'extra_large'])
    return k + b'\x00' + rb(r, {b'small': 2, b'large': 4, b'extra_large': 8}[k])


@case(gen_choose_kw)
class ChooseKeywords(Packet):
    __bisturi__ = bconf()
    size_type = Data(until_marker=b'\x00')
    data = Data(byte_count=size_type.chooses(small=2, large=4, extra_large=8))


def gen_operators(r):
    a, b = r.randint(0, 255), r.randint(0, 255)
    sizes = [
        ((a + 1) * 2 - b // 2) % 7,
        (a >> 6) | (b & 3),
        (-a + 1000) % 5,
        (~a) & 3,
        (2**(a & 3)) % 5,
        (a ^ b) % 4,
        3 - (a % 3),
        (100 - a) % 3 if a <= 100 else 0,
        (1 << (b & 1)) + (7 // (1 + (a & 1))),
        int(a >= b) + int(a > b) + int(a != b) + int(a < b),
    ]
    return bytes([a, b]) + b''.join(rb(r, n) for n in sizes)


@case(gen_operators)
class Operators(Packet):
    __bisturi__ = bconf()
    a = Int(1)
    b = Int(1)
    f0 = Data(((a + 1) * 2 - b // 2) % 7)
    f1 = Data((a >> 6) | (b & 3))
    f2 = Data((-a + 1000) % 5)
    f3 = Data((~a) & 3)
    f4 = Data((2**(a & 3)) % 5)
    f5 = Data((a ^ b) % 4)
    f6 = Data(3 - (a % 3))
    f7 = Data((a <= 100).chooses([0, (100 - a) % 3]))
    f8 = Data((1 << (b & 1)) + (7 // (1 + (a & 1))))
    f9 = Data((a >= b).chooses(0, 1) + (a > b).chooses(0, 1) + (a != b).chooses(0, 1) + (a < b).chooses(0, 1))


def gen_callables(r):
    n = r.randint(0, 3)
    out = bytes([n]) + rb(r, 2 * n) + rb(r, 2 * n)
    out += rbnot(r, r.randint(0, 3), b'\x00') + b'\x00'
    return out


@case(gen_callables)
class VariableUsingCallable(Packet):
    __bisturi__ = bconf()
    amount = Int(byte_count=1)
    data = Data(byte_count=lambda pkt, **k: pkt.amount * 2)
    seq = Int(byte_count=1).repeated(count=lambda pkt, **k: pkt.amount * 2)
    seq2 = Int(byte_count=1).repeated(until=lambda pkt, **k: pkt.seq2[-1] == 0)


class Lower(Packet):
    __bisturi__ = bconf()
    data = Data(byte_count=lambda root, **k: root.amount)


def gen_higher(r):
    n = r.randint(0, 4)
    return bytes([n]) + rb(r, n)


@case(gen_higher)
class Higher(Packet):
    __bisturi__ = bconf()
    amount = Int(byte_count=1)
    lower = Ref(Lower)


# --- 10 custom field --------------------------------------------------------
class Rot(Field):
    ''' A user defined field, written like the one of the docs. '''

    def __init__(self, byte_count, delta=1, default=b''):
        Field.__init__(self)
        self.default = default
        self.delta = delta
        self.byte_count = byte_count

    def unpack(self, pkt, raw, offset=0, **k):
        if isinstance(self.byte_count, int):
            byte_count = self.byte_count
        else:
            byte_count = getattr(pkt, self.byte_count.field_name)
        chunk = raw[offset:offset + byte_count]
        if len(chunk) != byte_count:
            raise Exception("short")
        delta = self.delta if isinstance(self.delta, int) else getattr(pkt, self.delta.field_name)
        setattr(pkt, self.field_name, bytes((c + delta) % 256 for c in chunk))
        return offset + byte_count

    def pack(self, pkt, fragments, **k):
        delta = self.delta if isinstance(self.delta, int) else getattr(pkt, self.delta.field_name)
        fragments.append(bytes((c - delta) % 256 for c in getattr(pkt, self.field_name)))
        return fragments


def gen_custom(r):
    n = r.randint(0, 4)
    out = bytes([n, r.randint(0, 255)]) + rb(r, n) + rb(r, 2 * 2)
    t = r.randint(0, 1)
    return out + bytes([t]) + rb(r, 3 * t)


@case(gen_custom)
class Custom(Packet):
    __bisturi__ = bconf()
    length = Int(1)
    delta = Int(1)
    data = Rot(byte_count=length, delta=delta)
    pairs = Rot(2, 3).repeated(2)
    t = Int(1)
    opt = Rot(3, default=b'abc').when(t)


# --- 11 positions -----------------------------------------------------------
def gen_folder(r):
    off = r.randint(1, 8)
    return bytes([off]) + rb(r, off - 1) + rb(r, 4) + rb(r, r.randint(0, 2))


@case(gen_folder)
class Folder(Packet):
    __bisturi__ = bconf()
    offset_of_file = Int(1)
    file_data = Data(4).at(offset_of_file)


def gen_folder2(r):
    return bytes([r.randint(0, 12)]) + rb(r, 8) + rb(r, r.randint(0, 8))


@case(gen_folder2)
class FolderOverlap(Packet):
    __bisturi__ = bconf()
    offset_of_file = Int(1)
    payload = Data(8)
    file_data = Data(4).at(offset_of_file)


class Vec(Packet):
    __bisturi__ = bconf()
    data = Data(4).at(2)


@case(lambda r: rb(r, 12 + 3))
class Tensor(Packet):
    __bisturi__ = bconf()
    vecs = Ref(Vec).repeated(2)
    tail = Int(1).at(1, 'current-offset')
    begin = Data(2).at(0, 'begins')


class Opt(Packet):
    __bisturi__ = bconf()
    len = Int(1)
    data = Data(len)


def gen_opt(r):
    n = r.randint(0, 4)
    return bytes([n]) + rb(r, n)


def gen_datagram_shift(r):
    n = r.randint(0, 3)
    return bytes([n]) + rb(r, 3) + b''.join(gen_opt(r) for _ in range(n)) + rb(r, 4)


@case(gen_datagram_shift)
class DatagramShift(Packet):
    __bisturi__ = bconf()
    count_options = Int(1)
    options = Ref(Opt).repeated(count_options).shift(3)
    checksum = Int(4)


@case(lambda r: rb(r, 5))
class Backwards(Packet):
    __bisturi__ = bconf()
    i = Int(1).at(4)
    d = Data(4).shift(-4 - 1)


def pad(out, to):
    return out + b'.' * (-len(out) % to)


def gen_datagram_aligned(r):
    n = r.randint(0, 3)
    out = pad(bytes([n]), 4)
    out += b''.join(gen_opt(r) for _ in range(n))
    return out + rb(r, 4)


@case(gen_datagram_aligned)
class DatagramAligned(Packet):
    __bisturi__ = bconf()
    count_options = Int(1)
    options = Ref(Opt).repeated(count_options).aligned(4)
    checksum = Int(4)


def gen_datagram_each(r):
    n = r.randint(0, 3)
    out = bytes([n])
    for _ in range(n):
        out = pad(out, 4) + gen_opt(r)
    return out + rb(r, 4)


@case(gen_datagram_each)
class DatagramEachAligned(Packet):
    __bisturi__ = bconf()
    count_options = Int(1)
    options = Ref(Opt).repeated(count_options, aligned=4)
    checksum = Int(4)


def gen_datagram_conf(r):
    n = r.randint(0, 3)
    out = bytes([n])
    for _ in range(n):
        out = pad(out, 4) + gen_opt(r)
    return pad(out, 4) + rb(r, 4)


@case(gen_datagram_conf)
class DatagramAlignConf(Packet):
    __bisturi__ = bconf(align=4)
    count_options = Int(1)
    options = Ref(Opt).repeated(count_options)
    checksum = Int(4)


class PointB(Packet):
    __bisturi__ = bconf()
    x = Int(2)
    y = Int(2).aligned(4, 'begins')


class PointI(Packet):
    __bisturi__ = bconf()
    x = Int(2)
    y = Int(2).aligned(4, 'innermost-pkt')


class PointC(Packet):
    __bisturi__ = bconf()
    x = Int(1)
    y = Int(2).aligned(4, 'current-offset')  # never moves


def gen_named_point(r):
    out = rbnot(r, r.randint(0, 4), b'\x00') + b'\x00'
    out += rb(r, 2)
    out = pad(out, 4) + rb(r, 2)       # PointB, global alignment
    start = len(out)
    out += rb(r, 2)
    out += b'.' * (-(len(out) - start) % 4) + rb(r, 2)  # PointI, local alignment
    out += rb(r, 3)
    return out


@case(gen_named_point)
class NamedPoint(Packet):
    __bisturi__ = bconf()
    name = Data(until_marker=b'\0')
    point = Ref(PointB)
    local_point = Ref(PointI)
    current_point = Ref(PointC)


def gen_tail(r):
    n = r.randint(0, 6)
    return pad(bytes([n]) + rb(r, n), 4) + rb(r, 1)


@case(gen_tail)
class DatagramTail(Packet):
    __bisturi__ = bconf()
    size = Int(1)
    data = Data(size)
    tail = Em().aligned(4)
    after = Int(1)


def gen_callable_move(r):
    d = r.randint(2, 6)
    return bytes([d]) + rb(r, d - 1) + rb(r, 2) + rb(r, 4)


@case(gen_callable_move)
class CallableMove(Packet):
    __bisturi__ = bconf()
    d = Int(1)
    x = Int(2).at(lambda pkt, **k: pkt.d)
    y = Data(1).at(lambda pkt, **k: 2 + (pkt.d & 1), 'current-offset')


# --- 14 descriptors ---------------------------------------------------------
def gen_auto(r):
    n = r.randint(0, 5)
    m = r.randint(0, 3)
    return bytes([r.randint(0, 255), n, m * 8]) + rb(r, n) + rb(r, m)


@case(gen_auto)
class AutoExample(Packet):
    __bisturi__ = bconf()
    kind = Int(1)
    length = Int(1).describe(AutoLength("a"))
    length_in_bits = Int(1).describe(Auto(lambda pkt: len(pkt.b) * 8))
    a = Data(length)
    b = Data(length_in_bits // 8)


def gen_auto_seq(r):
    n = r.randint(0, 4)
    return n.to_bytes(2, 'little') + rb(r, 3 * n) + rb(r, 1)


@case(gen_auto_seq)
class AutoSeq(Packet):
    __bisturi__ = bconf()
    count = Int(2, endianness='little').describe(AutoLength("items"))
    items = Int(3).repeated(count)
    end = Int(1)


# --- deep nesting (several levels in the fields_stack) ----------------------
def gen_deep(r):
    n = r.randint(0, 2)
    out = bytes([n])
    for _ in range(n):
        out += gen_attrs_count(r) + gen_option(r)
    return out + gen_socks(r)


class Middle(Packet):
    __bisturi__ = bconf()
    attrs = Ref(AttributesCount)
    option = Ref(Option)


@case(gen_deep)
class Deep(Packet):
    __bisturi__ = bconf()
    n = Int(1)
    middles = Ref(Middle).repeated(n)
    socks = Ref(SOCKS)


# --- 13 pattern matching ----------------------------------------------------
def gen_ip(r):
    hl = r.randint(5, 7)
    total = hl * 4 + r.randint(0, 6)
    return bytes([0x40 | hl, r.randint(0, 255)]) + total.to_bytes(2, 'big') + rb(r, 2) + \
            rb(r, 2) + rb(r, 4) + rb(r, 8) + rb(r, hl * 4 - 20) + rb(r, total - hl * 4)


@case(gen_ip)
class IP(Packet):
    __bisturi__ = bconf()
    version = Bits(4)
    header_length = Bits(4)
    type_of_service = Int(1)
    total_length = Int(2)
    identification = Int(2)
    fragment_offset = Bits(13)
    flags = Bits(3)
    others = Data(4)
    source_address = Data(4)
    destination_address = Data(4)
    options = Data(header_length * 4 - 20)
    data = Data(total_length - header_length * 4)


# --- a user that has its own __init__ (it runs for the parsed packets too) ------------
@case(lambda r: rb(r, 2))
class WithInit(Packet):
    __bisturi__ = bconf(additional_slots=['extra'])
    a = Int(1)
    b = Int(1)

    def __init__(self, _initialize_fields=True, **defaults):
        Packet.__init__(self, _initialize_fields, **defaults)
        self.extra = 5 if _initialize_fields else 6


@case(lambda r: rb(r, 1 + 2 + 2 * 2))
class UsesWithInit(Packet):
    __bisturi__ = bconf()
    n = Int(1)
    one = Ref(WithInit)
    two = Ref(WithInit).repeated(2)


# --- classes that cannot be pickled (their prototypes are cloned with deepcopy) ------
def local_classes():
    class LocalLeaf(Packet):
        __bisturi__ = bconf()
        n = Int(1)
        items = Int(2).repeated(n, default=[7, 8])
        mac = Ref(MAC)

    def gen_leaf(r):
        n = r.randint(0, 3)
        return bytes([n]) + rb(r, 2 * n) + rb(r, 6)

    class LocalTree(Packet):
        __bisturi__ = bconf()
        first = Ref(LocalLeaf(n=2, items=[1, 2]))
        second = LocalLeaf
        count = Int(1)
        leaves = Ref(LocalLeaf).repeated(count, default=[LocalLeaf(), LocalLeaf(items=[5])])
        maybe = Ref(LocalLeaf).when(count > 1)
        dyn = Ref(lambda pkt, **k: LocalLeaf(), default=LocalLeaf(items=[9, 9]))

    def gen_tree(r):
        c = r.randint(0, 3)
        out = gen_leaf(r) + gen_leaf(r) + bytes([c]) + b''.join(gen_leaf(r) for _ in range(c))
        if c > 1:
            out += gen_leaf(r)
        return out + gen_leaf(r)

    CASES.append((LocalLeaf, gen_leaf))
    CASES.append((LocalTree, gen_tree))
    return LocalLeaf, LocalTree


LocalLeaf, LocalTree = local_classes()

ALL_CLASSES = [c for c, _ in CASES] + [Bag, Box, Lower, Vec, Opt, PointB, PointI, PointC, Middle]
assert len(CASES) >= 25, len(CASES)


# ---------------------------------------------------------------------------
#  Observation of packets and outcomes
# ---------------------------------------------------------------------------
UNSET = '<unset>'


def public_names(cls):
    names = [n for n, _ in cls.__bisturi__['original_fields_in_class']]
    for n, _, _, _ in cls.get_fields():
        if not n.startswith('_') and n not in names:
            names.append(n)
    return names


def norm(v, depth=0):
    if depth > 12:
        return '<too deep>'
    if isinstance(v, Packet):
        return ('pkt', type(v).__name__, dump(v, depth + 1))
    if isinstance(v, (list, tuple)):
        return (type(v).__name__, [norm(x, depth + 1) for x in v])
    if isinstance(v, Field):
        return ('field', type(v).__name__)
    return (type(v).__name__, repr(v))


def dump(pkt, depth=0):
    ''' Everything that can be seen in a packet: all its slots (hidden ones too) and
        its descriptors. '''
    cls = type(pkt)
    out = []
    seen = set()
    for name in list(cls.__slots__) + public_names(cls):
        if name in seen:
            continue
        seen.add(name)
        try:
            v = getattr(pkt, name)
        except AttributeError:
            out.append((name, UNSET))
            continue
        except Exception as e:
            out.append((name, ('raises', type(e).__name__)))
            continue
        out.append((name, norm(v, depth)))
    out.append(('__dict__', hasattr(pkt, '__dict__')))
    return out


def error_outcome(e):
    STATE['errors_seen'] += 1
    if isinstance(e, PacketError):
        MESSAGES.append(e.original_error_message)
        partial = getattr(e, 'packet', None)
        return (
            'PacketError', e.was_error_found_in_unpacking_phase,
            [tuple(x) for x in e.fields_stack],
            dump(partial) if isinstance(partial, Packet) else repr(partial)
        )
    MESSAGES.append(str(e))
    return ('exception', type(e).__name__)


def do_pack(pkt):
    try:
        return ('bytes', pkt.pack())
    except Exception as e:
        return error_outcome(e)


def do_unpack(cls, raw, offset=0, **kw):
    try:
        return cls.unpack(raw, offset, **kw), None
    except Exception as e:
        return None, error_outcome(e)


def observe_unpack(cls, raw, offset=0):
    pkt, err = do_unpack(cls, raw, offset)
    if err is not None:
        return ('unpack', err)
    d = dump(pkt)
    p1 = do_pack(pkt)
    d2 = dump(pkt)
    p2 = do_pack(pkt)
    return ('unpack ok', d, p1, d2 == d or d2, p2 == p1 or p2)


# ---------------------------------------------------------------------------
#  Scenarios
# ---------------------------------------------------------------------------
def scenario_meta():
    for cls in ALL_CLASSES:
        fields = []
        for name, f, pack, unpack in cls.get_fields():
            fields.append((
                name, type(f).__name__, callable(pack), callable(unpack),
                pack == f.pack, unpack == f.unpack,
                getattr(f, 'field_name', None), getattr(f, 'descriptor_name', None),
                f.is_fixed, f.struct_code, f.is_bigendian,
            ))
        p = cls()
        emit('meta', (
            cls.__name__, list(cls.__slots__), fields,
            'pack_impl' in cls.__dict__, 'unpack_impl' in cls.__dict__,
            cls.pack_impl is not Packet.pack_impl, cls.unpack_impl is not Packet.unpack_impl,
            hasattr(p, '__dict__'),
            sorted(n for n, v in cls.__dict__.items() if isinstance(v, Auto)),
            sorted(k for k in cls.__bisturi__ if k != 'original_fields_in_class'),
            [n for n, _ in cls.__bisturi__['original_fields_in_class']],
            dump(p), do_pack(p),
            [type(s).__name__ for s in cls.get_sync_before_pack_methods()],
            len(cls.get_sync_after_unpack_methods()),
        ))


def mutate_raw(rnd, raw):
    ''' Derive an input (and an offset) from a valid one. '''
    kind = rnd.random()
    offset = 0
    if kind < 0.30:
        pass  # valid as it is
    elif kind < 0.45:
        raw = raw[:rnd.randint(0, len(raw))]  # truncated
    elif kind < 0.60:
        raw = bytearray(raw)  # corrupted
        for _ in range(rnd.randint(1, 3)):
            if raw:
                raw[rnd.randrange(len(raw))] = rnd.choice([0, 1, 2, 255, rnd.getrandbits(8)])
        raw = bytes(raw)
    elif kind < 0.65:
        raw = rb(rnd, rnd.randint(0, 40))  # garbage
    elif kind < 0.72:
        raw = raw + rb(rnd, rnd.randint(1, 5))  # trailing data
    elif kind < 0.82:
        prefix = rb(rnd, rnd.randint(1, 7))  # valid, at an offset
        raw, offset = prefix + raw, len(prefix)
        if rnd.random() < 0.3:
            raw = raw[:rnd.randint(offset, len(raw))]
    elif kind < 0.92:
        # negative offsets: at -len(raw) the valid packet begins; others at random
        prefix = rb(rnd, rnd.randint(0, 4))
        offset = -len(raw) if (raw and rnd.random() < 0.5) else -rnd.randint(1, len(raw) + 6)
        raw = prefix + raw
        if rnd.random() < 0.3:
            raw = raw + rb(rnd, rnd.randint(1, 4))
    else:
        offset = len(raw) + rnd.randint(0, 5)  # at or past the end
    return raw, offset


def scenario_unpack(cls, gen, count):
    rnd = random.Random(seed_of('unpack', cls.__name__))
    section = 'unpack ' + cls.__name__
    for i in range(count):
        raw, offset = mutate_raw(rnd, gen(rnd))
        emit(section, ((raw, offset), observe_unpack(cls, raw, offset)))


INTS = [
    0, 1, 2, 7, 127, 128, 255, 256, -1, -128, -129, 32767, 65535, 65536, 2**24 - 1, 2**24,
    2**31 - 1, 2**31, 2**32 - 1, 2**32, 2**63, 2**64 - 1, 2**64, -2**63, 2**70, -2**70,
    True, False, E.A, E.B, E.C, 1.5, 2.0, None, 'x', b'x',
]
BYTESES = [b'', b'a', b'ab', b'abc', b'abcd', b'\x00', b'x' * 16, b'y' * 300, 'text', 5, None,
           bytearray(b'ab'), b'f;-\x00,X']


WILD = [False]  # sane values only (same type, small) or anything


def random_value_like(rnd, v, depth=0):
    ''' A candidate to be assigned where v is now. '''
    wild = WILD[0]
    if isinstance(v, bool) or isinstance(v, int):
        if not wild:
            return rnd.choice([rnd.randint(0, 127), rnd.randint(0, 7), True, E.A])
        return rnd.choice(INTS) if rnd.random() < 0.6 else rnd.randint(-300, 70000)
    if isinstance(v, bytes):
        x = rnd.random()
        if x < 0.4 or not wild:
            return rb(rnd, len(v)) if x < 0.7 else rb(rnd, rnd.randint(0, 4))
        if x < 0.6:
            return rb(rnd, rnd.randint(0, 8))
        return rnd.choice(BYTESES)
    if isinstance(v, list):
        new = list(v)
        x = rnd.random()
        if x < 0.2:
            return []
        if new and x < 0.5:
            i = rnd.randrange(len(new))
            new[i] = random_value_like(rnd, new[i], depth + 1)
            return new
        if new and x < 0.7:
            proto = new[rnd.randrange(len(new))]
            new.append(type(proto)() if isinstance(proto, Packet) else
                       random_value_like(rnd, proto, depth + 1))
            return new
        if (new and x < 0.8) or not wild:
            if new:
                del new[rnd.randrange(len(new))]
            return new
        return rnd.choice([[1, 2, 3], [256], [E.A, True], ['a'], [None], [b'ab', b'c'], 7, None])
    if isinstance(v, Packet):
        if rnd.random() < 0.3 or depth > 3:
            return type(v)()
        new = type(v)()
        for _ in range(rnd.randint(1, 2)):
            mutate_packet(rnd, new, depth + 1)
        return new
    if v is None:
        if not wild:
            return None
        return rnd.choice([None, 0, 7, 300, b'ab', b'abcd', b'abc', [], MAC()])
    return rnd.choice([0, b'', None])


def mutate_packet(rnd, pkt, depth=0):
    ''' One random assignment (or delete) in the packet (or in a packet inside). '''
    names = public_names(type(pkt))
    name = rnd.choice(names)
    try:
        current = getattr(pkt, name)
    except Exception:
        current = 0

    descriptors = [n for n, v in type(pkt).__dict__.items() if isinstance(v, Auto)]
    if name in descriptors and rnd.random() < 0.4:
        try:
            delattr(pkt, name)
            return ('del', name)
        except Exception as e:
            return ('del', name, type(e).__name__)

    if isinstance(current, Packet) and rnd.random() < 0.5 and depth < 3:
        return ('in', name, mutate_packet(rnd, current, depth + 1))

    if isinstance(current, list) and current and rnd.random() < 0.3:
        # in place
        i = rnd.randrange(len(current))
        if isinstance(current[i], Packet) and depth < 3:
            return ('in', name, i, mutate_packet(rnd, current[i], depth + 1))
        current[i] = random_value_like(rnd, current[i], depth + 1)
        return ('item', name, i, norm(current[i]))

    value = random_value_like(rnd, current, depth)
    try:
        setattr(pkt, name, value)
        return ('set', name, norm(value))
    except Exception as e:
        return ('set', name, norm(value), type(e).__name__)


def random_kwargs(rnd, cls):
    proto = cls()
    kwargs = {}
    for name in public_names(cls):
        if rnd.random() < 0.35:
            try:
                kwargs[name] = random_value_like(rnd, getattr(proto, name))
            except Exception:
                pass
    return kwargs


def scenario_assign(cls, gen, count):
    rnd = random.Random(seed_of('assign', cls.__name__))
    section = 'assign ' + cls.__name__
    for i in range(count):
        how = rnd.random()
        WILD[0] = rnd.random() < 0.4
        log = []
        if how < 0.4:
            pkt = cls()
        elif how < 0.6:
            kwargs = random_kwargs(rnd, cls)
            log.append(('kwargs', sorted((k, norm(v)) for k, v in kwargs.items())))
            try:
                pkt = cls(**kwargs)
            except Exception as e:
                emit(section, (log, 'constructor raises', type(e).__name__))
                continue
        else:
            pkt, err = do_unpack(cls, gen(rnd))
            if pkt is None:
                emit(section, (log, 'unpack', err))
                continue

        for _ in range(rnd.randint(1, 4)):
            log.append(mutate_packet(rnd, pkt))
        d1 = dump(pkt)
        p1 = do_pack(pkt)
        d2 = dump(pkt)
        p2 = do_pack(pkt)
        back = None
        if p1[0] == 'bytes':
            back = observe_unpack(cls, p1[1])
        emit(section, (log, d1, p1, d2, p2 == p1 or p2, back))


def reachable_mutables(v, acc, depth=0):
    if depth > 10:
        return
    if isinstance(v, Packet):
        acc.add(id(v))
        for name in type(v).__slots__:
            try:
                reachable_mutables(getattr(v, name), acc, depth + 1)
            except AttributeError:
                pass
    elif isinstance(v, list):
        acc.add(id(v))
        for x in v:
            reachable_mutables(x, acc, depth + 1)


def scenario_history(classes, count, length):
    ''' Interleaved operations over several live packets of the same and related
        classes; after each one all of them are observed. '''
    gens = dict((c, g) for c, g in CASES)
    rnd = random.Random(seed_of('history', [c.__name__ for c in classes]))
    section = 'history ' + '+'.join(c.__name__ for c in classes)
    for h in range(count):
        live = []
        for step in range(length):
            WILD[0] = rnd.random() < 0.25
            op = rnd.random()
            cls = rnd.choice(classes)
            if op < 0.2 or not live:
                if rnd.random() < 0.5:
                    live.append(cls())
                    what = ('new', cls.__name__)
                else:
                    kwargs = random_kwargs(rnd, cls)
                    try:
                        live.append(cls(**kwargs))
                        what = ('new kw', cls.__name__, sorted(kwargs))
                    except Exception as e:
                        what = ('new kw raises', type(e).__name__)
            elif op < 0.45:
                raw = gens[cls](rnd)
                if rnd.random() < 0.3:
                    raw, offset = mutate_raw(rnd, raw)
                else:
                    offset = 0
                pkt, err = do_unpack(cls, raw, offset)
                if pkt is not None:
                    if live and rnd.random() < 0.5:
                        live[rnd.randrange(len(live))] = pkt  # replaces one
                    else:
                        live.append(pkt)
                what = ('unpack', cls.__name__, raw, offset, err)
            elif op < 0.75:
                what = ('mutate', mutate_packet(rnd, rnd.choice(live)))
            elif op < 0.9:
                i = rnd.randrange(len(live))
                what = ('pack', i, do_pack(live[i]))
            else:
                i = rnd.randrange(len(live))
                what = ('drop', i)
                del live[i]

            snapshot = [(type(p).__name__, dump(p), do_pack(p)) for p in live]
            # two packets must not share a list or a packet
            owners = {}
            shared = 0
            for n, p in enumerate(live):
                acc = set()
                reachable_mutables(p, acc)
                for ident in acc:
                    if owners.setdefault(ident, n) != n:
                        shared += 1
            emit(section, (h, step, what, snapshot, shared))
            if len(live) > 5:
                del live[0]


def scenario_threads(cls, gen, packets, rounds):
    ''' 4 threads, distinct packets, same class; compared with the sequential run. '''
    rnd = random.Random(seed_of('threads', cls.__name__))
    raws = []
    for _ in range(packets):
        raw, offset = (gen(rnd), 0) if rnd.random() < 0.8 else mutate_raw(rnd, gen(rnd))
        raws.append((raw, offset))

    def work(raw, offset):
        pkt, err = None, None
        try:
            pkt = cls.unpack(raw, offset)
        except PacketError as e:
            return ('error', e.was_error_found_in_unpacking_phase, list(e.fields_stack))
        except Exception as e:
            return ('exception', type(e).__name__)
        d = dump(pkt)
        try:
            p = pkt.pack()
        except PacketError as e:
            p = ('error', e.was_error_found_in_unpacking_phase, list(e.fields_stack))
        q = cls()  # default built ones too
        try:
            q2 = q.pack()
        except PacketError as e:
            q2 = ('error', list(e.fields_stack))
        return (d, p, dump(pkt) == d, dump(q), q2)

    sequential = [work(*x) for x in raws]
    emit('threads ' + cls.__name__, sequential)

    old = sys.getswitchinterval()
    sys.setswitchinterval(1e-6)
    try:
        for _ in range(rounds):
            results = [None] * len(raws)
            barrier = threading.Barrier(4)

            def run(t):
                barrier.wait()
                for i in range(t, len(raws), 4):
                    results[i] = work(*raws[i])

            threads = [threading.Thread(target=run, args=(t, )) for t in range(4)]
            for t in threads:
                t.start()
            for t in threads:
                t.join()
            for a, b in zip(sequential, results):
                if a != b:
                    STATE['thread_mismatches'] += 1
    finally:
        sys.setswitchinterval(old)


def scenario_misc():
    from bisturi.util import SeekableFile
    from bisturi.pattern_matching import anything_like, Any, filter_like
    import bisturi.pattern_matching as pattern_matching

    gens = dict((c, g) for c, g in CASES)

    # files
    rnd = random.Random(seed_of('files'))
    for cls in (TLP, BasedOnPattern, IntRare, Mixed, SearchLimit, AttributesCount, BitsExample):
        for _ in range(20):
            raw = gens[cls](rnd) + rb(rnd, 1)
            if rnd.random() < 0.3:
                raw = raw[:rnd.randint(1, len(raw))]
            offset = 0
            if rnd.random() < 0.3:
                raw, offset = rb(rnd, 3) + raw, 3
            out = []
            for wrap in (lambda x: x, lambda x: SeekableFile(io.BytesIO(x))):
                pkt, err = do_unpack(cls, wrap(raw), offset)
                out.append(err if pkt is None else (dump(pkt), do_pack(pkt)))
            emit('files', (cls.__name__, raw, offset, out))

    # not bytes, silent
    for raw in (bytearray(b'abcdef'), 'abcdef', memoryview(b'abcdefgh'), None, 5):
        pkt, err = do_unpack(Mixed, raw)
        emit('not bytes', err if pkt is None else dump(pkt))
    for cls in (TLP, Deep, Mixed):
        for _ in range(20):
            raw, offset = mutate_raw(rnd, gens[cls](rnd))
            pkt = cls.unpack(raw, offset, silent=True)
            emit('silent', None if pkt is None else dump(pkt))

    # calling unpack_impl/pack_impl directly, in a packet already used
    for cls in (Mixed, TLP, AttributesCount, BitsExample, AutoExample, SeqKinds,
                ArithExpressions, VariableUsingCallable, LocalTree, Room, DatagramEachAligned):
        pkt = cls()
        for _ in range(10):
            raw, offset = mutate_raw(rnd, gens[cls](rnd))
            try:
                r = pkt.unpack_impl(raw, offset, root=pkt)
            except PacketError as e:
                r = ('PacketError', list(e.fields_stack))
                MESSAGES.append(e.original_error_message)
            f = Fragments()
            f.current_offset = rnd.randint(0, 3)
            try:
                r2 = pkt.pack_impl(f, root=pkt)
                r2 = (r2 is f, f.tobytes(), f.current_offset, f.end_offset,
                      sorted(f.fragments.items()), list(f.begin_of_fragments))
            except PacketError as e:
                r2 = ('PacketError', list(e.fields_stack))
                MESSAGES.append(e.original_error_message)
            emit('impl', (cls.__name__, raw, offset, r, dump(pkt), r2))

    # regular expressions of packets
    ip = anything_like(IP)
    steps = [
        ('destination_address', b"\xff\xff\xff\xff"), ('destination_address', Any()),
        ('fragment_offset', 7), ('fragment_offset', Any()), ('flags', 3), ('fragment_offset', 7),
        ('fragment_offset', Any()), ('flags', Any()), ('version', 4), ('header_length', 5),
        ('total_length', 30), ('total_length', 84),
    ]
    patterns = [ip.as_regular_expression().pattern]
    for name, value in steps:
        setattr(ip, name, value)
        try:
            patterns.append(ip.as_regular_expression().pattern)
        except Exception as e:
            patterns.append(type(e).__name__)
    emit('patterns', patterns)

    data = open(os.environ['DIFFTEST_DATA'], 'rb').read()
    raw_packets = [data[i * 84:(i + 1) * 84] for i in range(1210 if not QUICK else 200)]
    out = [len(list(filter_like(ip, raw_packets)))]
    ip.identification = 0x2fbb
    out.append(list(filter_like(ip, raw_packets)))
    found = list(pattern_matching.filter(ip, raw_packets))
    out.append([dump(p) for p in found])
    for raw in raw_packets[:100]:
        out.append(observe_unpack(IP, raw))
    emit('filter', out)

    for cls in (TLP, BasedOnPattern, Ethernet, Option):
        p = anything_like(cls)
        try:
            emit('patterns', (cls.__name__, p.as_regular_expression().pattern))
        except Exception as e:
            emit('patterns', (cls.__name__, type(e).__name__))
        q = cls()
        try:
            emit('patterns', (cls.__name__, q.as_regular_expression().pattern))
        except Exception as e:
            emit('patterns', (cls.__name__, type(e).__name__))

    # equality and repr
    for cls, gen in CASES[:12]:
        raw = gen(rnd)
        a, _ = do_unpack(cls, raw)
        b, _ = do_unpack(cls, raw)
        if a is not None:
            emit('eq', (cls.__name__, a == b, a == cls(), repr(a)))

    # descriptors, step by step (as in the docs)
    p = AutoExample.unpack(b'\x07\x02\x10abcd')
    log = [dump(p)]
    p.a = b'abc'; log.append((p.length, dump(p), do_pack(p)))
    q = AutoExample(length=3, a=b'ab'); log.append((q.length, dump(q), do_pack(q)))
    del q.length; log.append((q.length, dump(q), do_pack(q)))
    q.length = True; log.append((q.length, dump(q), do_pack(q)))
    q.length_in_bits = E.B; q.b = b'123'; log.append((q.length_in_bits, dump(q), do_pack(q)))
    del q.length_in_bits; del q.length; log.append((q.length_in_bits, dump(q), do_pack(q)))
    log.append(isinstance(AutoExample.length, AutoLength))
    emit('descriptors', log)


def twin_1():
    class Twin(Packet):
        __bisturi__ = bconf()
        a = Int(1)
        b = Int(2)
    return Twin


def twin_2():
    class Twin(Packet):
        __bisturi__ = bconf()
        a = Int(2)
        b = Int(2)
    return Twin


def twin_3():
    class Twin(Packet):
        __bisturi__ = bconf()
        a = Int(2, endianness='little')
        b = Int(2, endianness='little')
    return Twin


def twin_4():
    class Twin(Packet):
        __bisturi__ = bconf()
        a = Data(2)
        b = Int(2)
    return Twin


def twin_5():
    class Twin(Packet):
        __bisturi__ = bconf()
        a = Int(3)
        b = Int(2)
    return Twin


def twin_6():
    class Twin(Packet):
        __bisturi__ = bconf(generate_for_pack=not CONF['generate_for_pack'])
        a = Int(1)
        b = Int(2)
    return Twin


def scenario_redefine():
    ''' Same named classes, same names of fields, one cached module for all of them:
        each class must behave as its declaration says, the old ones too. '''
    rnd = random.Random(seed_of('redefine'))
    makers = [twin_1, twin_2, twin_3, twin_4, twin_5, twin_6]
    alive = []
    for step in range(14):
        maker = makers[step] if step < len(makers) else rnd.choice(makers)
        alive.append(maker())
        raw = rb(rnd, 6)
        out = [maker.__name__]
        for cls in alive:
            out.append(observe_unpack(cls, raw))
            out.append(observe_unpack(cls, raw[:3]))
            p = cls()
            out.append((dump(p), do_pack(p)))
        emit('redefine', out)


# ---------------------------------------------------------------------------
N_UNPACK = 40 if QUICK else 260
N_ASSIGN = 25 if QUICK else 140
scenario_meta()
for cls, gen in CASES:
    scenario_unpack(cls, gen, N_UNPACK)
    scenario_assign(cls, gen, N_ASSIGN)

HISTORIES = [
    [Mixed], [AutoExample, AutoSeq], [Ethernet, Frame, MAC], [SOCKS, DynInt, Deep],
    [AttributesCount, AttributesUntil, AttributesWhen, TypeLenValue], [Room, SeqKinds],
    [Option, DeferredValue, Magic], [BitsExample, IP], [BasedOnPattern, SearchLimit, NoConsume],
    [DatagramEachAligned, Tensor, FolderOverlap, NamedPoint], [Custom, Operators, ChooseExpressions],
    [LocalTree, LocalLeaf], [LocalTree],
]
for classes in HISTORIES:
    scenario_history(classes, 4 if QUICK else 14, 25)

for cls in (Mixed, AttributesCount, SOCKS, Room, AutoExample, BasedOnPattern, BitsExample,
            Operators, Deep, DatagramEachAligned, SeqKinds, Option, LocalTree, ArithExpressions):
    scenario_threads(cls, dict(CASES)[cls], 24 if QUICK else 48, 2 if QUICK else 5)

scenario_misc()
scenario_redefine()
finish()
