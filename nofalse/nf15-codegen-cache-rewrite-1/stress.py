#!/venv/bin/python
''' Stress of the generated-code cache of bisturi (bisturi/codegen.py) with
    REAL processes, in a scratch directory (removed at the end).

    What is checked, always from the outside (fresh interpreters):

      * every definition of a packet class succeeds (exit status 0, no
        traceback), whatever the cache holds;
      * the class packs/unpacks per ITS declaration;
      * the functions installed are the generated ones, they come from a
        COMPLETE module (cookie and end marker present and equal in the
        globals of the functions that run) and that cookie is the one of this
        very declaration (learned once on an empty private cache).

    Phases:

      0 reference     cookies, generated sources (same size for A and B),
                      file mode of the cache file
      1 sequences     runs A/B/... sharing one cache, bytecode on/off/mixed,
                      and between runs: nothing, .py deleted (not the .pyc),
                      .pyc deleted, mtimes forced equal (os.utime), both in
                      turns, the source swapped by the other declaration's one with the same
                      size and mtime, a foreign .pyc planted with the header
                      of the current source, truncation
      2 hostile       garbage/empty/truncated/unfinished/directory in place
                      of the cache file; __pkts__ that cannot be created
      3 in-process    re-definitions in one process, options changed,
                      generation switched off and on again
      4 crashes       a child is killed (os._exit) at EVERY point of the
                      cache update (before/after each mutating file-system
                      call, partial writes), then fresh processes define both
                      declarations
      5 concurrency   8 processes released together, half of them define A
                      and half B (same class name, same cache file), 30
                      rounds (+ rounds with 8 identical definitions, + rounds
                      where a pruning cache prunes at once)

    Exit status 0 iff nothing failed.
'''
import concurrent.futures
import importlib.util
import json
import os
import py_compile
import shutil
import subprocess
import sys
import tempfile
import threading
import time

REPO = os.path.dirname(os.path.abspath(__file__))
PY = sys.executable
ROUNDS = int(os.environ.get('STRESS_ROUNDS', '30'))
NPROC = 8
FIXED_MTIME = 1500000000

CHILD = r'''
import sys, os, io, json, builtins, time, traceback
cfg = json.loads(sys.argv[1])
sys.path.insert(0, cfg['repo'])
from bisturi.packet import Packet
from bisturi.field import Int
import bisturi.codegen

STATE = {'armed': False, 'n': 0}
CRASH_AT = cfg.get('crash_at')


def point(label):
    if not STATE['armed']:
        return
    n = STATE['n']
    STATE['n'] = n + 1
    if CRASH_AT is not None and n == CRASH_AT:
        sys.stdout.write(json.dumps({'crashed': label, 'n': n}) + '\n')
        sys.stdout.flush()
        os._exit(77)


def ours(path):
    if isinstance(path, int):
        return False
    try:
        return '__pkts__' in os.fspath(path)
    except TypeError:
        return False


class WProxy:
    # a file whose write() reaches the disk piece by piece, with a crash
    # point after every piece
    def __init__(self, f):
        self._f = f

    def write(self, data):
        n = len(data)
        pos = 0
        for cut in sorted({0, 1, n // 3, n // 2, n - 1, n}):
            if cut < pos or cut > n:
                continue
            self._f.write(data[pos:cut])
            self._f.flush()
            pos = cut
            point('written %d/%d' % (cut, n))
        return n

    def close(self):
        point('before close')
        self._f.close()
        point('after close')

    def __enter__(self):
        return self

    def __exit__(self, *exc):
        self.close()
        return False

    def __getattr__(self, name):
        return getattr(self._f, name)


def instrument():
    def wrap(mod, name, npaths=1):
        real = getattr(mod, name)

        def wrapper(*a, **k):
            hit = STATE['armed'] and any(ours(x) for x in a[:npaths])
            if hit:
                point('before %s' % name)
            r = real(*a, **k)
            if hit:
                point('after %s' % name)
            return r
        setattr(mod, name, wrapper)

    for name in ('makedirs', 'mkdir', 'remove', 'unlink', 'chmod', 'utime',
                 'rmdir', 'truncate'):
        wrap(os, name)
    for name in ('replace', 'rename', 'link', 'symlink'):
        wrap(os, name, 2)

    real_fchmod = os.fchmod

    def fchmod(*a, **k):
        point('before fchmod')
        r = real_fchmod(*a, **k)
        point('after fchmod')
        return r
    os.fchmod = fchmod

    real_os_open = os.open
    FDS = set()

    def os_open(path, flags, *a, **k):
        w = STATE['armed'] and ours(path) and \
            (flags & (os.O_WRONLY | os.O_RDWR | os.O_CREAT))
        if w:
            point('before os.open')
        fd = real_os_open(path, flags, *a, **k)
        if w:
            FDS.add(fd)
            point('after os.open')
        return fd
    os.open = os_open

    real_os_write = os.write

    def os_write(fd, data):
        if not (STATE['armed'] and fd in FDS):
            return real_os_write(fd, data)
        n = len(data)
        pos = 0
        for cut in sorted({0, 1, n // 3, n // 2, n - 1, n}):
            if cut < pos or cut > n:
                continue
            chunk = data[pos:cut]
            while chunk:
                chunk = chunk[real_os_write(fd, chunk):]
            pos = cut
            point('os.write %d/%d' % (cut, n))
        return n
    os.write = os_write

    real_open = io.open

    def open_(file, mode='r', *a, **k):
        w = STATE['armed'] and any(c in mode for c in 'wxa+') and \
            (ours(file) or (isinstance(file, int) and file in FDS))
        if w and not isinstance(file, int):
            point('before open')
        f = real_open(file, mode, *a, **k)
        if w:
            if not isinstance(file, int):
                point('after open')
            return WProxy(f)
        return f
    io.open = open_
    builtins.open = open_


if cfg.get('instrument'):
    instrument()

if cfg.get('prune_now') and hasattr(bisturi.codegen, 'PRUNE_AFTER_SECONDS'):
    # a cache that prunes the files of the other declarations does it at
    # once: every writer deletes the files of the others
    bisturi.codegen.PRUNE_AFTER_SECONDS = -3600

EXPECT = {
    'A': ((1, 0x0203), b'\x05\x00\x06'),
    'B': ((0x0102, 3), b'\x00\x05\x06'),
}


def define(decl, opts):
    if decl == 'A':
        if opts is None:
            class P(Packet):
                a = Int(1); b = Int(2)
        else:
            class P(Packet):
                __bisturi__ = dict(opts)
                a = Int(1); b = Int(2)
    else:
        if opts is None:
            class P(Packet):
                a = Int(2); b = Int(1)
        else:
            class P(Packet):
                __bisturi__ = dict(opts)
                a = Int(2); b = Int(1)
    return P


def verify(P, decl, opts):
    opts = opts or {}
    values, raw = EXPECT[decl]
    p = P.unpack(b'\x01\x02\x03')
    assert (p.a, p.b) == values, ('unpack', decl, (p.a, p.b))
    got = P(a=5, b=6).pack()
    assert got == raw, ('pack', decl, got)
    assert p.pack() == b'\x01\x02\x03', ('repack', decl)

    cookies = set()
    gens = []
    for what, base in (('pack', Packet.pack_impl),
                       ('unpack', Packet.unpack_impl)):
        impl = getattr(P, what + '_impl')
        if opts.get('generate_for_' + what, True):
            assert impl is not base, ('not generated', what)
            g = impl.__globals__
            c = g.get('BISTURI_PACKET_COOKIE')
            assert c is not None and c == g.get('BISTURI_PACKET_COMPLETE'), \
                ('incomplete module is running', what, c)
            cookies.add(c)
            gens.append(g)
        else:
            assert impl is base, ('generated but switched off', what)
    assert len(cookies) <= 1, cookies
    if len(gens) == 2:
        assert gens[0] is gens[1], 'pack and unpack from different modules'
    return cookies.pop() if cookies else None


def barrier():
    go = cfg.get('go')
    if not go:
        return
    open(go + '.ready.%d' % os.getpid(), 'w').close()
    deadline = time.time() + 60
    while not os.path.exists(go):
        if time.time() > deadline:
            raise RuntimeError('barrier timeout')


def main():
    barrier()
    report = []
    classes = []
    for decl, opts in cfg['decls']:
        STATE['armed'] = True
        try:
            P = define(decl, opts)
        finally:
            STATE['armed'] = False
        cookie = verify(P, decl, opts)
        classes.append((P, decl, opts, cookie))
        report.append([decl, opts, cookie])
    # the classes defined earlier are still what they were
    for P, decl, opts, cookie in classes:
        assert verify(P, decl, opts) == cookie
    print(json.dumps({'ok': report, 'events': STATE['n']}))


try:
    main()
except AssertionError:
    traceback.print_exc()
    sys.stdout.flush()
    os._exit(3)
except BaseException:
    traceback.print_exc()
    sys.stdout.flush()
    os._exit(4)
'''

FAILURES = []
COUNTS = {'processes': 0}


def fail(msg):
    FAILURES.append(msg)
    print('FAIL: ' + msg, flush=True)


def make_dir(root, name, template=None):
    d = os.path.join(root, name)
    if template is not None:
        shutil.copytree(template, d)      # copy2: mtimes preserved
    else:
        os.makedirs(d)
        with open(os.path.join(d, 'pk.py'), 'w') as f:
            f.write(CHILD)
    return d


def child_env(bytecode):
    env = dict(os.environ)
    env.pop('PYTHONDONTWRITEBYTECODE', None)
    env.pop('PYTHONPYCACHEPREFIX', None)
    if not bytecode:
        env['PYTHONDONTWRITEBYTECODE'] = '1'
    return env


def spawn(d, decls, bytecode=True, **extra):
    cfg = {'repo': REPO, 'decls': [
        [x, None] if isinstance(x, str) else list(x) for x in decls
    ]}
    cfg.update(extra)
    COUNTS['processes'] += 1
    return subprocess.Popen(
        [PY, os.path.join(d, 'pk.py'), json.dumps(cfg)], cwd=d,
        env=child_env(bytecode), stdout=subprocess.PIPE,
        stderr=subprocess.STDOUT, text=True
    )


def finish(proc, timeout=120):
    try:
        out, _ = proc.communicate(timeout=timeout)
    except subprocess.TimeoutExpired:
        proc.kill()
        out, _ = proc.communicate()
        return -9, out, None
    last = None
    for line in out.splitlines():
        if line.startswith('{'):
            try:
                last = json.loads(line)
            except ValueError:
                pass
    return proc.returncode, out, last


def run(d, decls, bytecode=True, **extra):
    return finish(spawn(d, decls, bytecode, **extra))


REF = {}
REF_LOCK = threading.Lock()


def key_of(decl, opts):
    return json.dumps([decl, opts], sort_keys=True)


def reference_cookie(root, decl, opts):
    ''' The cookie of a declaration, learned on an empty private cache. '''
    k = key_of(decl, opts)
    with REF_LOCK:
        return _reference_cookie(root, k, decl, opts)


def _reference_cookie(root, k, decl, opts):
    if k not in REF:
        d = make_dir(root, 'ref%d' % len(REF))
        rc, out, res = run(d, [[decl, opts]], bytecode=False)
        if rc != 0 or not res:
            fail('reference run of %s failed (%s):\n%s' % (k, rc, out))
            REF[k] = None
        else:
            REF[k] = res['ok'][0][2]
        shutil.rmtree(d, ignore_errors=True)
    return REF[k]


def check(root, what, result, decls):
    ''' A finished child must have defined its classes, each with the
        behaviour and the code of its own declaration. '''
    rc, out, res = result
    if rc != 0 or not res or 'ok' not in res:
        fail('%s: exit %s\n%s' % (what, rc, out))
        return False
    good = True
    for (decl, opts, cookie), wanted in zip(res['ok'], decls):
        if isinstance(wanted, str):
            wanted = [wanted, None]
        ref = reference_cookie(root, wanted[0], wanted[1])
        if decl != wanted[0] or cookie != ref:
            fail('%s: %s runs code with cookie %s, expected %s' % (
                what, key_of(decl, opts), cookie, ref))
            good = False
    return good


def pkts(d):
    return os.path.join(d, '__pkts__')


def cache_sources(d):
    folder = pkts(d)
    if not os.path.isdir(folder):
        return []
    return sorted(
        os.path.join(folder, n) for n in os.listdir(folder)
        if n.endswith('.py') and os.path.isfile(os.path.join(folder, n))
    )


def pyc_of(path):
    return importlib.util.cache_from_source(path)


def leftovers(d):
    folder = pkts(d)
    if not os.path.isdir(folder):
        return []
    return [n for n in os.listdir(folder)
            if not n.endswith('.py') and n != '__pycache__']


# --------------------------------------------------------------------------
# phase 0
# --------------------------------------------------------------------------

def phase_reference(root):
    info = {}
    for decl in 'AB':
        d = make_dir(root, 'solo' + decl)
        old = os.umask(0o022)
        try:
            result = run(d, [decl], bytecode=True)
        finally:
            os.umask(old)
        check(root, 'solo ' + decl, result, [decl])
        # once more, warm: the cached module is reused
        first = {p: os.stat(p).st_mtime_ns for p in cache_sources(d)}
        check(root, 'solo warm ' + decl, run(d, [decl], bytecode=True), [decl])
        second = {p: os.stat(p).st_mtime_ns for p in cache_sources(d)}
        if first != second:
            fail('solo %s: a matching cache file was rewritten' % decl)
        files = cache_sources(d)
        if len(files) != 1:
            fail('solo %s: expected one cache file, got %r' % (decl, files))
            continue
        with open(files[0], 'rb') as f:
            src = f.read()
        mode = os.stat(files[0]).st_mode & 0o777
        if mode != 0o644:
            fail('solo %s: cache file mode is %o, expected 644' % (decl, mode))
        pyc = None
        if os.path.exists(pyc_of(files[0])):
            with open(pyc_of(files[0]), 'rb') as f:
                pyc = f.read()
        by_cpython = pyc is not None
        if pyc is None:
            # the library does not go through the bytecode cache: compile it
            # ourselves, the hostile scenarios plant it anyway
            cfile = os.path.join(root, 'solo%s.pyc' % decl)
            py_compile.compile(files[0], cfile=cfile, doraise=True)
            with open(cfile, 'rb') as f:
                pyc = f.read()
        if leftovers(d):
            fail('solo %s: leftovers %r' % (decl, leftovers(d)))
        info[decl] = {'dir': d, 'name': os.path.basename(files[0]),
                      'src': src, 'pyc': pyc, 'by_cpython': by_cpython}
    if len(info) == 2:
        if len(info['A']['src']) != len(info['B']['src']):
            fail('generated sources of A and B differ in size: the stale '
                 'bytecode scenarios are not the intended ones')
        if info['A']['src'] == info['B']['src']:
            fail('generated sources of A and B are equal?!')
        print('  cache names: A=%s B=%s; source size %d; pyc written by '
              'CPython: %s' % (info['A']['name'], info['B']['name'],
                               len(info['A']['src']),
                               info['A']['by_cpython']), flush=True)
    return info


# --------------------------------------------------------------------------
# phase 1
# --------------------------------------------------------------------------

def other_source(info, data):
    if data == info['A']['src']:
        return info['B']['src']
    if data == info['B']['src']:
        return info['A']['src']
    return None


def op_none(d, info):
    pass


def op_rm_py(d, info):
    for p in cache_sources(d):
        os.remove(p)


def op_rm_pyc(d, info):
    shutil.rmtree(os.path.join(pkts(d), '__pycache__'), ignore_errors=True)


def op_utime(d, info):
    for p in cache_sources(d):
        os.utime(p, (FIXED_MTIME, FIXED_MTIME))


def op_rm_py_utime(d, info, step=0):
    # even steps: the clock of the source is forced (the next run of the same
    # declaration compiles bytecode stamped with that very time); odd steps:
    # the source is deleted and its bytecode stays, so the next source is born
    # next to an orphan .pyc and then gets the same time stamp (and size)
    if step % 2 == 0:
        op_utime(d, info)
    else:
        op_rm_py(d, info)


def op_swap_source(d, info):
    # the other declaration's source, same size, same mtime; .pyc untouched
    for p in cache_sources(d):
        st = os.stat(p)
        with open(p, 'rb') as f:
            data = f.read()
        new = other_source(info, data)
        if new is None:
            continue
        with open(p, 'wb') as f:
            f.write(new)
        os.utime(p, ns=(st.st_atime_ns, st.st_mtime_ns))


def op_plant_pyc(d, info):
    # a .pyc compiled from the OTHER declaration whose header (mtime, size)
    # is the one of the current source
    for p in cache_sources(d):
        st = os.stat(p)
        with open(p, 'rb') as f:
            data = f.read()
        foreign = info['B' if data == info['A']['src'] else 'A']['pyc']
        if foreign is None:
            continue
        header = foreign[:8] + \
            (int(st.st_mtime) & 0xffffffff).to_bytes(4, 'little') + \
            (st.st_size & 0xffffffff).to_bytes(4, 'little')
        os.makedirs(os.path.dirname(pyc_of(p)), exist_ok=True)
        with open(pyc_of(p), 'wb') as f:
            f.write(header + foreign[16:])


def op_truncate(d, info):
    for p in cache_sources(d):
        st = os.stat(p)
        os.truncate(p, st.st_size // 2)
        os.utime(p, ns=(st.st_atime_ns, st.st_mtime_ns))


OPS = [op_none, op_rm_py, op_rm_pyc, op_utime, op_rm_py_utime,
       op_swap_source, op_plant_pyc, op_truncate]


def one_sequence(root, info, name, bc_mode, op, seq):
    d = make_dir(root, name)
    for i, decl in enumerate(seq):
        bytecode = {'on': True, 'off': False, 'alt': i % 2 == 0,
                    'alt2': (i // 2) % 2 == 0}[bc_mode]
        check(root, '%s step %d (%s, bytecode %s)' % (
            name, i, decl, bytecode), run(d, [decl], bytecode), [decl])
        if op is op_rm_py_utime:
            op(d, info, i)
        else:
            op(d, info)
    shutil.rmtree(d, ignore_errors=True)


def phase_sequences(root, info, pool):
    jobs = []
    for bc_mode in ('on', 'off', 'alt', 'alt2'):
        for op in OPS:
            for seq in ('AABBABBA', 'BABAABBB'):
                name = 'seq_%s_%s_%s' % (bc_mode, op.__name__, seq)
                jobs.append(pool.submit(
                    one_sequence, root, info, name, bc_mode, op, seq))
    for j in jobs:
        j.result()
    return len(jobs)


# --------------------------------------------------------------------------
# phase 2
# --------------------------------------------------------------------------

def phase_hostile(root, info, pool):
    srcA = info['A']['src']
    end = srcA.rfind(b'BISTURI_PACKET_COMPLETE')
    contents = {
        'empty': b'',
        'garbage': b'def pack_impl(:\n',
        'half': srcA[:len(srcA) // 2],
        'no_end_marker': srcA[:end],
        'end_marker_cut': srcA[:-3],
        'raises': b'raise SystemError("boom")\n' + srcA,
        'foreign_markers': b"BISTURI_PACKET_COOKIE = 'x'\n"
                           b"BISTURI_PACKET_COMPLETE = 'x'\n",
        'nul': b'\0' * len(srcA),
        'not_utf8': b'\xff\xfe' + srcA,
    }
    names = sorted({info['A']['name'], info['B']['name']})

    def scenario(label, prepare):
        for order in ('AB', 'BA'):
            for bytecode in (True, False):
                d = make_dir(root, 'hostile_%s_%s_%d' % (
                    label, order, bytecode))
                prepare(d)
                for decl in order + order:
                    check(root, 'hostile %s: %s (bytecode %s)' % (
                        label, decl, bytecode), run(d, [decl], bytecode),
                        [decl])
                shutil.rmtree(d, ignore_errors=True)

    def with_content(data):
        def prepare(d):
            os.makedirs(pkts(d))
            for n in names:
                with open(os.path.join(pkts(d), n), 'wb') as f:
                    f.write(data)
        return prepare

    def cache_file_is_dir(d):
        for n in names:
            os.makedirs(os.path.join(pkts(d), n))

    def cache_file_is_dangling_link(d):
        os.makedirs(pkts(d))
        for n in names:
            os.symlink(os.path.join(d, 'nowhere', 'x.py'),
                       os.path.join(pkts(d), n))

    def folder_is_file(d):
        with open(pkts(d), 'w') as f:
            f.write('not a directory\n')

    def pycache_is_file(d):
        os.makedirs(pkts(d))
        with open(os.path.join(pkts(d), '__pycache__'), 'w') as f:
            f.write('not a directory\n')

    def orphan_foreign_pyc(d):
        # bytecode of A under every cache name, no source at all
        for n in names:
            p = os.path.join(pkts(d), n)
            os.makedirs(os.path.dirname(pyc_of(p)), exist_ok=True)
            if info['A']['pyc'] is not None:
                with open(pyc_of(p), 'wb') as f:
                    f.write(info['A']['pyc'])

    jobs = [pool.submit(scenario, label, with_content(data))
            for label, data in contents.items()]
    for fn in (cache_file_is_dir, cache_file_is_dangling_link, folder_is_file,
               pycache_is_file, orphan_foreign_pyc):
        jobs.append(pool.submit(scenario, fn.__name__, fn))
    for j in jobs:
        j.result()
    return len(jobs)


# --------------------------------------------------------------------------
# phase 3
# --------------------------------------------------------------------------

def phase_inprocess(root):
    off = {'generate_for_pack': False, 'generate_for_unpack': False}
    decls = [
        ['A', None], ['B', None], ['A', None], ['B', None], ['B', None],
        ['A', {'generate_for_pack': False}], ['A', None],
        ['B', {'generate_for_unpack': False}], ['B', None],
        ['A', {'vectorize': False}], ['B', {'vectorize': False}],
        ['A', off], ['B', None], ['B', off], ['A', None],
        ['A', {'annotate': False}], ['B', {'annotate': False}], ['A', None],
        ['B', {'annotate': False, 'vectorize': False}], ['A', {}], ['B', {}],
    ]
    d = make_dir(root, 'inprocess')
    n = 0
    for bytecode in (True, False, True, False):
        for variant in (decls, decls[::-1]):
            check(root, 'in-process re-definitions (bytecode %s)' % bytecode,
                  run(d, variant, bytecode), variant)
            n += 1
    shutil.rmtree(d, ignore_errors=True)
    return n


# --------------------------------------------------------------------------
# phase 4
# --------------------------------------------------------------------------

def crash_series(root, name, template, decl, crash_bytecode):
    ''' Kill a child at every crash point of its cache update. '''
    # how many points?
    d = make_dir(root, name + '_count', template)
    rc, out, res = run(d, [decl], crash_bytecode, instrument=True)
    shutil.rmtree(d, ignore_errors=True)
    if rc != 0 or not res:
        fail('%s: instrumented run failed (%s)\n%s' % (name, rc, out))
        return 0, []
    points = res['events']
    labels = []
    for n in range(points + 1):
        d = make_dir(root, '%s_%d' % (name, n), template)
        rc, out, res = run(d, [decl], crash_bytecode, instrument=True,
                           crash_at=n)
        if n == points:
            if rc != 0:
                fail('%s: crash point %d should not exist (exit %s)\n%s' % (
                    name, n, rc, out))
        elif rc != 77 or not res or 'crashed' not in res:
            fail('%s: child did not crash at point %d (exit %s)\n%s' % (
                name, n, rc, out))
        else:
            labels.append(res['crashed'])
        followers = ('AB', 'BA', 'AA', 'BB')[n % 4]
        for i, follower in enumerate(followers + 'AB'):
            bytecode = (n + i) % 2 == 0
            check(root, '%s: %s after a crash at point %d %r (bytecode %s)' % (
                name, follower, n, labels[-1:] or None, bytecode),
                run(d, [follower], bytecode), [follower])
        shutil.rmtree(d, ignore_errors=True)
    return points, labels


def phase_crashes(root, info, pool):
    templates = {'empty': make_dir(root, 'tmpl_empty')}
    for decl in 'AB':
        templates['has' + decl] = info[decl]['dir']     # .py and .pyc
        t = make_dir(root, 'tmpl_nopyc' + decl, info[decl]['dir'])
        shutil.rmtree(os.path.join(pkts(t), '__pycache__'),
                      ignore_errors=True)
        templates['nopyc' + decl] = t
        t = make_dir(root, 'tmpl_old' + decl, info[decl]['dir'])
        op_utime(t, info)       # bytecode becomes stale, sources prunable
        templates['old' + decl] = t
    jobs = {}
    for tname, template in templates.items():
        for decl in 'AB':
            for crash_bytecode in (True, False):
                name = 'crash_%s_%s_%d' % (tname, decl, crash_bytecode)
                jobs[name] = pool.submit(
                    crash_series, root, name, template, decl, crash_bytecode)
    total = 0
    shown = False
    for name, j in jobs.items():
        points, labels = j.result()
        total += points
        if not shown and name.startswith('crash_hasB_A'):
            shown = True
            print('  crash points of an update (%s): %s' % (
                name, ', '.join(labels)), flush=True)
    if total == 0:
        fail('no crash point was exercised: instrumentation is blind')
    return total


# --------------------------------------------------------------------------
# phase 5
# --------------------------------------------------------------------------

def concurrent_round(root, d, rnd, decl_of, redefine=3, **extra):
    go = os.path.join(root, 'go_%s_%d' % (os.path.basename(d), rnd))
    procs = []
    for i in range(NPROC):
        decl = decl_of(i)
        decls = [decl] * redefine
        procs.append((i, decls, spawn(
            d, decls, bytecode=(i // 2) % 2 == 0, go=go, **extra)))
    deadline = time.time() + 60
    while time.time() < deadline:
        ready = [n for n in os.listdir(root)
                 if n.startswith(os.path.basename(go) + '.ready.')]
        if len(ready) >= NPROC or any(
                p.poll() is not None for _, _, p in procs):
            break
        time.sleep(0.002)
    open(go, 'w').close()
    for i, decls, p in procs:
        check(root, 'concurrent round %d, process %d (%s)' % (
            rnd, i, decls[0]), finish(p), decls)
    for n in os.listdir(root):
        if n.startswith(os.path.basename(go)):
            os.remove(os.path.join(root, n))


def phase_concurrency(root):
    d = make_dir(root, 'conc')
    for rnd in range(ROUNDS):
        if rnd % 3 == 0:
            shutil.rmtree(pkts(d), ignore_errors=True)
        concurrent_round(root, d, rnd, lambda i: 'AB'[i % 2])
        # a sequential run of each right after the storm
        for decl in ('AB', 'BA')[rnd % 2]:
            check(root, 'after round %d: %s' % (rnd, decl),
                  run(d, [decl], bytecode=rnd % 2 == 0), [decl])
    left = leftovers(d)
    nfiles = len(cache_sources(d))
    d2 = make_dir(root, 'conc_same')
    for rnd in range(max(2, ROUNDS // 5)):
        if rnd % 2 == 0:
            shutil.rmtree(pkts(d2), ignore_errors=True)
        concurrent_round(root, d2, rnd, lambda i: 'AB'[rnd % 2])
    left += leftovers(d2)
    # again, with pruning (if the library prunes) made immediate
    d3 = make_dir(root, 'conc_prune')
    for rnd in range(max(3, ROUNDS // 2)):
        if rnd % 4 == 0:
            shutil.rmtree(pkts(d3), ignore_errors=True)
        concurrent_round(root, d3, rnd, lambda i: 'AB'[i % 2],
                         prune_now=True)
        for decl in ('AB', 'BA')[rnd % 2]:
            check(root, 'after pruning round %d: %s' % (rnd, decl),
                  run(d3, [decl], bytecode=rnd % 2 == 0, prune_now=True),
                  [decl])
    left += leftovers(d3)
    if left:
        fail('temporary files left behind without any crash: %r' % left)
    return nfiles


def main():
    started = time.time()
    root = tempfile.mkdtemp(prefix='bisturi_stress_')
    print('scratch: %s' % root, flush=True)
    try:
        with concurrent.futures.ThreadPoolExecutor(max_workers=6) as pool:
            print('phase 0: reference', flush=True)
            info = phase_reference(root)
            if len(info) != 2 or FAILURES:
                return 1
            print('phase 1: sequences', flush=True)
            n = phase_sequences(root, info, pool)
            print('  %d sequences of 8 runs' % n, flush=True)
            print('phase 2: hostile cache contents', flush=True)
            n = phase_hostile(root, info, pool)
            print('  %d kinds of hostile cache' % n, flush=True)
            print('phase 3: re-definitions in one process', flush=True)
            phase_inprocess(root)
            print('phase 4: crashes', flush=True)
            n = phase_crashes(root, info, pool)
            print('  %d crashes injected' % n, flush=True)
        print('phase 5: %d concurrent processes, %d rounds' % (
            NPROC, ROUNDS), flush=True)
        n = phase_concurrency(root)
        print('  cache files after the mixed rounds: %d' % n, flush=True)
    finally:
        shutil.rmtree(root, ignore_errors=True)
    print('%d processes, %.0f s, %d failure(s)' % (
        COUNTS['processes'], time.time() - started, len(FAILURES)))
    return 1 if FAILURES else 0


if __name__ == '__main__':
    sys.exit(main())
