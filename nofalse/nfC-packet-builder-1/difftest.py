#!/venv/bin/python
'''Differential test: ORIGINAL bisturi (pristine copy under orig_pkg/) versus
the bisturi package of this working tree.

    /venv/bin/python difftest.py [--histories N] [--seed S] [--keep]

The driver runs the very same deterministic workload (the "worker" below) in
sub-processes, once with PYTHONPATH=<here>/orig_pkg and once with
PYTHONPATH=<here>, each one in its own scratch directory (so each one has its
own __pkts__ code cache).  The modified package is run a second time over its
now warm code cache.  Every observation is written as a line of a log; the
logs must be identical, line by line.  Besides the differential comparison
the worker counts two kind of absolute violations that must be zero on every
side: bystander packets that changed and mutable objects shared between two
live packets.

The workload:
  * ~30 packet classes defined twice (generated code / generic code), as
    module level classes (the template below is written to a real module) and
    as classes defined inside functions (re-defined many times with different
    declarations under the same name);
  * thousands of random histories over several live packets: construct with
    keyword subsets, unpack valid / damaged input, set fields (out of range,
    bool, IntEnum, wrong types), mutate lists / dicts / nested packets in
    place, delete attributes, pack twice, ==, repr, deepcopy / prototype /
    pickle clones, assert_consistency, re-definition of local classes;
  * a threaded section: several threads run private histories over packets
    of the same classes at the same time.
'''
import sys, os, re, random, subprocess, shutil, argparse, hashlib

HERE = os.path.dirname(os.path.abspath(__file__))

# ---------------------------------------------------------------------------
# The packet classes (written to <workdir>/dtc_g.py and <workdir>/dtc_n.py)
# ---------------------------------------------------------------------------
TEMPLATE = r'''
import re, enum
from bisturi.packet import Packet
from bisturi.field import Int, Data, Bits, Ref, Field, Em
from bisturi.descriptor import Auto, AutoLength

GEN = %(GEN)r
CONF = {'generate_for_pack': GEN, 'generate_for_unpack': GEN}


def conf(**kw):
    d = dict(CONF)
    d.update(kw)
    return d


class Color(enum.IntEnum):
    RED = 1
    GREEN = 2
    BLUE = 3


class Ints(Packet):
    __bisturi__ = conf()
    a = Int(1)
    b = Int(2, default=0x1234)
    c = Int(3, default=7)
    d = Int(4, signed=True, default=-2)
    e = Int(8, endianness='little')
    f = Int(2, signed=True, endianness='little')
    g = Int(5, signed=True, endianness='little', default=-3)


class Datas(Packet):
    __bisturi__ = conf()
    n = Int(1)
    fixed = Data(3)
    var = Data(n)
    expr = Data(n * 2 + 1)
    lam = Data(lambda pkt, **k: pkt.n & 3)
    cstr = Data(until_marker=b'\0')
    line = Data(until_marker=b'\r\n', include_delimiter=True)
    rx = Data(until_marker=re.compile(b'[;,]'))
    rest = Data(until_marker=re.compile(b'$'))


class BitsP(Packet):
    __bisturi__ = conf()
    hi = Bits(3)
    mid = Bits(4, default=5)
    lo = Bits(9)
    x = Int(1)
    f1 = Bits(4)
    f2 = Bits(4, default=15)


class Point(Packet):
    __bisturi__ = conf()
    x = Int(1)
    y = Int(1)


class Line(Packet):
    __bisturi__ = conf()
    begin = Ref(Point(x=1, y=2))
    end = Ref(Point)
    extra = Ref(lambda **k: Point(), default=Point(y=7))


class DomainName(Packet):
    __bisturi__ = conf()
    length = Int(1)
    name = Data(length)


class Socks(Packet):
    __bisturi__ = conf()
    type = Int(1, default=0x01)
    address = Ref(type.chooses({
                        0x01: Data(4),
                        0x04: Data(16),
                        0x03: DomainName(),
                        }), default=b'\x00\x00\x00\x00')


class Bag(Packet):
    __bisturi__ = conf()
    num = Int(1)
    objects = Int(1).repeated(num)


class Box(Packet):
    __bisturi__ = conf()
    bags = Ref(Bag).repeated(until=lambda pkt, **k: pkt.bags[-1].num == 0)


class Room(Packet):
    __bisturi__ = conf()
    tight = Ref(Box).repeated(2, default=[Box(bags=[Bag()]), Box(bags=[Bag()])])
    no_so_tight = Ref(Box).repeated(2, aligned=6, default=[Box(bags=[Bag()]), Box(bags=[Bag()])])


class Opt(Packet):
    __bisturi__ = conf()
    type = Int(1)
    a = Data(2).when(type)
    b = Ref(Point).when(type == 1, default=Point(x=9, y=8))
    c = Int(2).when((type > 1) & (type < 9), default=5)
    d = Int(1).repeated(2, when=(type == 3), default=[1, 2])
    e = Ref(Bag).repeated(type & 1, default=[Bag(num=1, objects=[4])])


class Pos(Packet):
    __bisturi__ = conf()
    hdr = Int(1)
    off = Int(1, default=6)
    body = Data(2).at(off)
    tail = Int(2).shift(1)
    al = Int(1).aligned(4)
    mark = Em()
    far = Data(1).at(16, 'begins')


class PosHolder(Packet):
    __bisturi__ = conf()
    pre = Int(3)
    p = Ref(Pos)
    inner = Int(1).at(2, 'innermost-pkt').repeated(1)
    q = Ref(Pos(hdr=3, off=9)).aligned(32)


class AL(Packet):
    __bisturi__ = conf()
    length = Int(1).describe(AutoLength('a'))
    a = Data(length)
    nbits = Int(2).describe(Auto(lambda pkt: len(pkt.items) * 8))
    items = Int(1).repeated(nbits // 8)


class ALHolder(Packet):
    __bisturi__ = conf()
    first = Ref(AL)
    others = Ref(AL).repeated(lambda pkt, **k: pkt.first.length & 3, default=[AL(a=b'xy')])
    total = Int(1).describe(Auto(lambda pkt: len(pkt.others) + 1))


class Inner(Packet):
    __bisturi__ = conf()
    k = Int(1)
    vals = Int(2).repeated(k)


class Mid(Packet):
    __bisturi__ = conf()
    n = Int(1)
    inners = Ref(Inner).repeated(n)
    one = Ref(Inner(k=1, vals=[7]))


class Outer(Packet):
    __bisturi__ = conf()
    magic = Data(2, default=b'OK')
    count = Int(1, default=2)
    mids = Ref(Mid).repeated(count, default=[Mid(), Mid(n=1, inners=[Inner(k=2, vals=[1, 2])])])
    last = Ref(Mid)


class Point3D(Packet):
    __bisturi__ = conf()
    point_2d = Ref(Point(x=1, y=2), embed=True)
    z = Int(1)


class KV(Field):
    def __init__(self, default=None):
        Field.__init__(self)
        self.default = {'k': 1, 'v': b'x', 'tags': []} if default is None else default

    def unpack(self, pkt, raw, offset=0, **k):
        key = raw[offset]
        n = raw[offset + 1]
        v = raw[offset + 2:offset + 2 + n]
        if len(v) != n:
            raise ValueError("short KV: %%d < %%d" %% (len(v), n))
        setattr(pkt, self.field_name, {'k': key, 'v': v, 'tags': []})
        return offset + 2 + n

    def pack(self, pkt, fragments, **k):
        d = getattr(pkt, self.field_name)
        fragments.append(bytes([d['k'], len(d['v'])]) + d['v'])
        return fragments


class KVP(Packet):
    __bisturi__ = conf()
    pre = Int(1)
    kv = KV()
    kvs = KV().repeated(pre)
    post = KV(default={'k': 9, 'v': b'zz', 'tags': [1]}).when(pre > 1)


class Aligned(Packet):
    __bisturi__ = conf(align=4, endianness='little', additional_slots=['note'])
    a = Int(1)
    b = Int(2)
    c = Data(3)
    d = Int(1).repeated(2)


SHARED = conf(endianness='little')


class Sh1(Packet):
    __bisturi__ = SHARED
    x = Int(2)
    y = Int(4)


class Sh2(Packet):
    __bisturi__ = SHARED
    p = Int(2)
    q = Ref(Sh1)


class Point3(Point):
    __bisturi__ = conf()
    z = Int(1)


class Holder(Packet):
    __bisturi__ = conf()
    t = Int(1)
    o = Ref(Point).when(t, default=Point(x=3))
    l = Ref(Point).repeated(t, default=[Point(), Point(x=1)])


class HH(Packet):
    __bisturi__ = conf()
    h1 = Ref(Holder)
    h2 = Ref(Holder(t=1))
    hs = Ref(Holder).repeated(2, default=[Holder(), Holder(t=2, l=[Point(y=5)])])


class Dyn(Packet):
    __bisturi__ = conf()
    t = Int(1)
    v = Ref(lambda pkt, **k: Int(2) if pkt.t == 0 else Data(pkt.t & 7), default=0)
    w = Ref(lambda pkt, **k: Point() if pkt.t & 1 else Bag(), default=Point(y=7))


class Half(Packet):
    __bisturi__ = {'generate_for_pack': GEN, 'generate_for_unpack': not GEN, 'vectorize': False, 'annotate': False}
    a = Int(1)
    b = Int(1)
    c = Data(2)
    d = Ref(Point)


def make_local(kind):
    if kind == 0:
        class Local(Packet):
            __bisturi__ = conf()
            a = Int(1)
            b = Int(2)
    elif kind == 1:
        class Local(Packet):
            __bisturi__ = conf()
            a = Int(2)
            b = Int(1)
    elif kind == 2:
        class Sub(Packet):
            __bisturi__ = conf()
            t = Int(1)
            d = Data(t)

        class Local(Packet):
            __bisturi__ = conf()
            a = Int(1)
            s = Ref(Sub)
            l = Ref(Sub).repeated(a, default=[Sub(t=1, d=b'q')])
            o = Ref(Sub).when(a, default=Sub(t=2, d=b'zz'))
    elif kind == 3:
        class Sub(Packet):
            __bisturi__ = conf()
            t = Int(2)
            d = Int(1).repeated(t)

        class Local(Packet):
            __bisturi__ = conf(endianness='little')
            s = Ref(Sub(t=1, d=[5]))
            n = Int(1).describe(AutoLength('l'))
            l = Ref(lambda **k: Sub(), default=Sub(t=2, d=[1, 2])).repeated(n)
    else:
        class Local(Packet):
            __bisturi__ = conf(vectorize=False)
            a = Int(1)
            b = Int(2)
    return Local


LOCAL_KINDS = 5


def make_empty():
    class Empty(Packet):
        __bisturi__ = conf()
        not_a_field = 1

    return Empty


def make_shared_conf_pair():
    shared = conf(endianness='little')

    class First(Packet):
        __bisturi__ = shared
        a = Int(2)

    class Second(Packet):
        __bisturi__ = shared
        b = Int(4)
        c = Ref(First)

    return First, Second

TOP = [Ints, Datas, BitsP, Point, Line, DomainName, Socks, Bag, Box, Room, Opt,
       Pos, PosHolder, AL, ALHolder, Inner, Mid, Outer, Point3D, KVP, Aligned,
       Sh1, Sh2, Point3, Holder, HH, Dyn, Half]

# what the elements of a list field are (to create new elements)
ELEM = {
    'Bag.objects': 'int', 'Box.bags': Bag, 'Room.tight': Box,
    'Room.no_so_tight': Box, 'Opt.d': 'int', 'Opt.e': Bag,
    'PosHolder.inner': 'int', 'AL.items': 'int', 'ALHolder.others': AL,
    'Inner.vals': 'int', 'Mid.inners': Inner, 'Outer.mids': Mid,
    'KVP.kvs': 'kv', 'Aligned.d': 'int', 'Holder.l': Point, 'HH.hs': Holder,
}

# what an optional field (None) can hold
ALT = {
    'Opt.a': 'bytes', 'Opt.b': Point, 'Opt.c': 'int', 'KVP.post': 'kv',
    'Holder.o': Point, 'Socks.address': 'socks', 'Dyn.v': 'dynv', 'Dyn.w': 'dynw',
}
'''

# ---------------------------------------------------------------------------
# Worker
# ---------------------------------------------------------------------------
_ADDR = re.compile(r'0x[0-9a-fA-F]{6,}')


class Worker:
    def __init__(self, workdir, logpath, seed, histories, pkgdir=None):
        self.workdir = workdir
        self.pkgdir = pkgdir
        self.seed = seed
        self.histories = histories
        self.log_file = open(logpath, 'w', encoding='utf-8', errors='backslashreplace')
        self.nlines = 0
        self.bystander_violations = 0
        self.shared_violations = 0
        self.purity_violations = 0
        self.prefix = ''

    # -- logging ------------------------------------------------------------
    def log(self, text, out=None):
        text = _ADDR.sub('0xADDR', text).replace(self.workdir, '<WD>')
        line = self.prefix + text.replace('\n', '\\n')
        if out is not None:
            out.append(line)
            return
        self.log_file.write(line + '\n')
        self.nlines += 1

    # -- setup --------------------------------------------------------------
    def setup(self):
        import importlib
        # the directory of this script is sys.path[0]: it must not decide
        # which bisturi is imported
        sys.path[:] = [p for p in sys.path if os.path.abspath(p or '.') != HERE]
        sys.path.insert(0, self.pkgdir)
        sys.path.insert(0, self.workdir)
        for name, gen in (('dtc_g', True), ('dtc_n', False)):
            with open(os.path.join(self.workdir, name + '.py'), 'w') as f:
                f.write(TEMPLATE % {'GEN': gen})
        importlib.invalidate_caches()
        import dtc_g, dtc_n
        self.mods = [dtc_g, dtc_n]
        import bisturi, bisturi.packet, bisturi.descriptor
        self.Packet = bisturi.packet.Packet
        self.PacketError = bisturi.packet.PacketError
        self.Auto = bisturi.descriptor.Auto
        assert os.path.dirname(os.path.dirname(os.path.abspath(bisturi.__file__))) == self.pkgdir, bisturi.__file__
        self.log('PKG %s' % ('orig_pkg' in bisturi.__file__))
        for m in self.mods:
            for cls in m.TOP:
                self.describe_class(m, cls)
            try:
                cls = m.make_empty()
                self.log('EMPTY %s => %r %r %r' % (m.__name__, cls.__slots__, cls().pack(), self.dump(cls.unpack(b'xx'))))
            except Exception as e:
                self.log('EMPTY %s => ERR %s' % (m.__name__, self.err(e)))
            first, second = m.make_shared_conf_pair()
            self.log('SHAREDCONF %s => %r %r %r %r' % (
                m.__name__, first(a=1).pack(), second(b=2).pack(), self.dump(second.unpack(b'abcdef')),
                [sorted(k for k in c.__bisturi__ if k != 'original_fields_in_class') for c in (first, second)]))

    def describe_class(self, m, cls, out=None):
        conf = cls.__bisturi__
        ofc = [n for n, _ in conf.get('original_fields_in_class', [])] \
            if conf is not m.SHARED and cls.__name__ not in ('Sh1', 'Sh2') else '-'
        self.log('CLASS %s.%s slots=%r conf=%r ofc=%r fields=%r before=%d after=%d own_impl=%r' % (
            m.__name__, cls.__name__, list(cls.__slots__),
            sorted((k, repr(v)) for k, v in conf.items() if k != 'original_fields_in_class'),
            ofc,
            [(n, type(f).__name__, f.pack.__name__, f.unpack.__name__) for n, f, _, _ in cls.get_fields()],
            len(cls.get_sync_before_pack_methods()),
            len(cls.get_sync_after_unpack_methods()),
            (cls.pack_impl is self.Packet.pack_impl, cls.unpack_impl is self.Packet.unpack_impl),
        ), out)

    # -- observation helpers --------------------------------------------------
    def slot_names(self, cls):
        names = []
        for k in reversed(cls.__mro__):
            for s in k.__dict__.get('__slots__', ()):
                if s not in names:
                    names.append(s)
        return names

    def descriptor_names(self, cls):
        names = []
        for k in reversed(cls.__mro__):
            for n, v in k.__dict__.items():
                if isinstance(v, self.Auto) and n not in names:
                    names.append(n)
        return names

    def dump(self, v, depth=0, public=False):
        if depth > 12:
            return '<deep>'
        if isinstance(v, self.Packet):
            cls = type(v)
            parts = []
            for s in self.slot_names(cls):
                if public and s.startswith('_'):
                    continue
                try:
                    val = getattr(v, s)
                except AttributeError:
                    continue
                parts.append('%s=%s' % (s, self.dump(val, depth + 1, public)))
            for s in self.descriptor_names(cls):
                try:
                    val = getattr(v, s)
                    parts.append('@%s=%s' % (s, self.dump(val, depth + 1, public)))
                except Exception as e:
                    parts.append('@%s=!%s' % (s, type(e).__name__))
            if hasattr(v, '__dict__'):
                parts.append('HAS__dict__')
            return '%s.%s{%s}' % (cls.__module__, cls.__name__, ' '.join(parts))
        if isinstance(v, list):
            return '[' + ', '.join(self.dump(x, depth + 1, public) for x in v) + ']'
        if isinstance(v, tuple):
            return '(' + ', '.join(self.dump(x, depth + 1, public) for x in v) + ')'
        if isinstance(v, dict):
            return '{' + ', '.join('%r: %s' % (k, self.dump(x, depth + 1, public))
                                   for k, x in sorted(v.items(), key=lambda kv: repr(kv[0]))) + '}'
        if v is None or isinstance(v, (bytes, str)):
            return repr(v)
        return '%s:%r' % (type(v).__name__, v)

    def mutables(self, v, acc, depth=0):
        '''ids of every mutable object reachable from v (v included)'''
        if depth > 12:
            return
        if isinstance(v, self.Packet):
            if id(v) in acc:
                return
            acc[id(v)] = v
            for s in self.slot_names(type(v)):
                try:
                    val = getattr(v, s)
                except AttributeError:
                    continue
                self.mutables(val, acc, depth + 1)
        elif isinstance(v, (list, tuple)):
            if isinstance(v, list):
                if id(v) in acc:
                    return
                acc[id(v)] = v
            for x in v:
                self.mutables(x, acc, depth + 1)
        elif isinstance(v, dict):
            if id(v) in acc:
                return
            acc[id(v)] = v
            for x in v.values():
                self.mutables(x, acc, depth + 1)
        elif isinstance(v, bytearray):
            acc[id(v)] = v

    def tb_norm(self, text):
        out = []
        for line in text.split('\n'):
            m = re.match(r'\s*File "(.*)", line \d+, in (.*)$', line)
            if m:
                out.append('%s:%s' % (os.path.basename(m.group(1)), m.group(2)))
            elif line.startswith('    '):
                continue
            elif line:
                out.append(line)
        return '|'.join(out)

    def err(self, e):
        if isinstance(e, self.PacketError):
            s = str(e)
            head, _, _ = s.partition("Field's exception:\n")
            pkt = getattr(e, 'packet', '<noattr>')
            return 'PacketError(unpack=%r stack=%r msg=%r args=%r supp=%r ctx=%s cause=%r head=%r tb=%r pkt=%s)' % (
                e.was_error_found_in_unpacking_phase, e.fields_stack,
                e.original_error_message, e.args, e.__suppress_context__,
                type(e.__context__).__name__, e.__cause__, head,
                self.tb_norm(e.original_traceback), self.dump(pkt))
        return '%s(%s)' % (type(e).__name__, str(e)[:300])

    # -- value generation -----------------------------------------------------
    INTS = [0, 1, 2, 3, 4, 7, 8, 9, 127, 128, 255, 256, 65535, 65536, -1, -128,
            -129, 2 ** 31, 2 ** 32 - 1, 2 ** 64, -2 ** 63, 2 ** 40]

    def gen_int(self, rnd, m):
        r = rnd.random()
        if r < 0.50:
            return rnd.randrange(0, 6)
        if r < 0.72:
            return rnd.randrange(0, 128)
        if r < 0.82:
            return rnd.choice(self.INTS)
        if r < 0.90:
            return rnd.choice([True, False])
        if r < 0.98:
            return rnd.choice(list(m.Color))
        return rnd.choice([None, b'ab', 'txt', 1.5, [1]])

    def gen_bytes(self, rnd, like=None):
        r = rnd.random()
        if like is not None and r < 0.4:
            return bytes(rnd.randrange(256) for _ in range(len(like)))
        if r < 0.97:
            alphabet = b'ab;,\x00\r\n\xffz'
            return bytes(rnd.choice(alphabet) for _ in range(rnd.randrange(0, 7)))
        return rnd.choice([None, 5, 'str', bytearray(b'ba')])

    def gen_kv(self, rnd):
        return {'k': rnd.randrange(0, 300), 'v': self.gen_bytes(rnd) if rnd.random() < .9 else b'v',
                'tags': [rnd.randrange(9) for _ in range(rnd.randrange(3))]}

    def gen_elem(self, rnd, m, kind, depth):
        if kind == 'int':
            return self.gen_int(rnd, m)
        if kind == 'kv':
            return self.gen_kv(rnd)
        if kind == 'bytes':
            return self.gen_bytes(rnd)
        if kind == 'socks':
            return rnd.choice([self.gen_bytes(rnd, b'1234'), self.gen_bytes(rnd, b'0123456789abcdef'),
                               self.make_packet(rnd, m, m.DomainName, depth + 1)])
        if kind == 'dynv':
            return rnd.choice([self.gen_int(rnd, m), self.gen_bytes(rnd)])
        if kind == 'dynw':
            return self.make_packet(rnd, m, rnd.choice([m.Point, m.Bag]), depth + 1)
        return self.make_packet(rnd, m, kind, depth + 1)

    def make_packet(self, rnd, m, cls, depth=0):
        '''construct with a random subset of keywords'''
        kw = {}
        if depth < 3 and rnd.random() < 0.8:
            try:
                proto = cls()
            except Exception:
                proto = None
            if proto is not None:
                names = [n for n in self.public_names(cls)]
                rnd.shuffle(names)
                for n in names[:rnd.randrange(0, len(names) + 1)]:
                    try:
                        cur = getattr(proto, n)
                    except Exception:
                        continue
                    kw[n] = self.gen_value(rnd, m, cls, n, cur, depth + 1)
        return cls(**kw)

    def public_names(self, cls):
        names = [s for s in self.slot_names(cls) if not s.startswith('_')]
        names += self.descriptor_names(cls)
        return names

    def gen_value(self, rnd, m, cls, name, cur, depth=0):
        key = '%s.%s' % (cls.__name__, name)
        if cur is None or key in ALT_KEYS and rnd.random() < 0.5:
            kind = getattr(m, 'ALT').get(key)
            if kind is None or rnd.random() < 0.2:
                return None
            return self.gen_elem(rnd, m, kind, depth)
        if isinstance(cur, bool) or isinstance(cur, int):
            return self.gen_int(rnd, m)
        if isinstance(cur, (bytes, bytearray)):
            return self.gen_bytes(rnd, cur)
        if isinstance(cur, list):
            kind = getattr(m, 'ELEM').get(key, 'int')
            n = rnd.choice([0, 1, 1, 2, 2, 3, len(cur)])
            return [self.gen_elem(rnd, m, kind, depth) for _ in range(n)]
        if isinstance(cur, dict):
            return self.gen_kv(rnd)
        if isinstance(cur, self.Packet):
            if rnd.random() < 0.1:
                return None
            return self.make_packet(rnd, m, type(cur), depth)
        return self.gen_int(rnd, m)

    # -- one history ------------------------------------------------------------
    def run_history(self, rnd, m, hid, out=None, allow_local=True):
        log = lambda text: self.log(text, out)
        related = rnd.choice(GROUPS)
        classes = [getattr(m, n) for n in related]
        local_classes = []
        live = []          # list of [packet, class]
        pools = {}         # class -> list of valid raws
        nsteps = rnd.randrange(8, 22)
        for cls in classes:
            try:
                pools[cls] = [cls().pack()]
            except Exception:
                pass

        def pick_class():
            if local_classes and rnd.random() < 0.4:
                return rnd.choice(local_classes)
            return rnd.choice(classes)

        def add_live(p):
            if len(live) >= 5:
                live[rnd.randrange(len(live))] = p
            else:
                live.append(p)

        def snapshot():
            return [self.dump(p) for p in live]

        for step in range(nsteps):
            tag = 'h%d.%d' % (hid, step)
            before_ids = [id(p) for p in live]
            before = snapshot()
            targets = []
            r = rnd.random()
            try:
                if r < 0.14 or not live:
                    cls = pick_class()
                    p = self.make_packet(rnd, m, cls)
                    add_live(p)
                    targets = [p]
                    log('%s new %s => %s' % (tag, cls.__name__, self.dump(p)))
                elif r < 0.26:
                    cls = pick_class()
                    pool = pools.get(cls) or [b'']
                    raw = rnd.choice(pool) if rnd.random() < 0.8 else bytes(rnd.randrange(256) for _ in range(rnd.randrange(40)))
                    kind = rnd.random()
                    offset = 0
                    if kind < 0.45:      # damaged
                        raw = bytearray(raw)
                        for _ in range(rnd.randrange(1, 3)):
                            d = rnd.random()
                            if d < 0.4 and raw:
                                del raw[rnd.randrange(len(raw)):]
                            elif d < 0.8 and raw:
                                raw[rnd.randrange(len(raw))] = rnd.randrange(256)
                            else:
                                raw += bytes(rnd.randrange(256) for _ in range(rnd.randrange(1, 5)))
                        raw = bytes(raw)
                    elif kind < 0.55:
                        pad = bytes(rnd.randrange(256) for _ in range(rnd.randrange(1, 4)))
                        raw = pad + raw
                        offset = len(pad)
                    silent = rnd.random() < 0.15
                    arg = raw if rnd.random() < 0.97 else rnd.choice([bytearray(raw), raw.decode('latin1'), None])
                    try:
                        if offset or silent:
                            p = cls.unpack(arg, offset, silent)
                        else:
                            p = cls.unpack(arg)
                    except Exception as e:
                        log('%s unpack %s %r off=%d => ERR %s' % (tag, cls.__name__, raw, offset, self.err(e)))
                        pe = getattr(e, 'packet', None)
                        if isinstance(pe, self.Packet) and rnd.random() < 0.3:
                            add_live(pe)     # a partially parsed packet
                            targets = [pe]
                    else:
                        log('%s unpack %s %r off=%d silent=%r => %s' % (tag, cls.__name__, raw, offset, silent, self.dump(p)))
                        if p is not None:
                            add_live(p)
                            targets = [p]
                elif r < 0.50:
                    # set a field, maybe of a nested packet
                    p = rnd.choice(live)
                    targets = [p]
                    path = []
                    obj = p
                    while True:
                        names = self.public_names(type(obj))
                        if not names:
                            break
                        n = rnd.choice(names)
                        try:
                            cur = getattr(obj, n)
                        except Exception:
                            cur = 0
                        if isinstance(cur, self.Packet) and rnd.random() < 0.6:
                            path.append(n)
                            obj = cur
                            continue
                        if isinstance(cur, list) and cur and isinstance(cur[-1], self.Packet) and rnd.random() < 0.6:
                            i = rnd.randrange(len(cur))
                            path.append('%s[%d]' % (n, i))
                            obj = cur[i]
                            continue
                        val = self.gen_value(rnd, m, type(obj), n, cur)
                        path.append(n)
                        try:
                            setattr(obj, n, val)
                            log('%s set %s = %s' % (tag, '.'.join(path), self.dump(val)))
                        except Exception as e:
                            log('%s set %s = %s => ERR %s' % (tag, '.'.join(path), self.dump(val), self.err(e)))
                        break
                elif r < 0.60:
                    # in place mutation of a list / dict
                    p = rnd.choice(live)
                    targets = [p]
                    cands = []
                    acc = {}
                    self.mutables(p, acc)
                    self.collect_containers(p, '', cands)
                    if cands:
                        path, owner_cls, name, cont = rnd.choice(cands)
                        if isinstance(cont, list):
                            kind = getattr(m, 'ELEM').get('%s.%s' % (owner_cls.__name__, name), 'int')
                            op = rnd.choice(['append', 'append', 'pop', 'insert', 'clear', 'dup', 'reverse'])
                            try:
                                if op == 'append':
                                    cont.append(self.gen_elem(rnd, m, kind, 1))
                                elif op == 'pop':
                                    cont.pop()
                                elif op == 'insert':
                                    cont.insert(0, self.gen_elem(rnd, m, kind, 1))
                                elif op == 'clear':
                                    del cont[:]
                                elif op == 'reverse':
                                    cont.reverse()
                                else:
                                    import copy
                                    cont.append(copy.deepcopy(cont[-1]))
                                log('%s list %s %s' % (tag, path, op))
                            except Exception as e:
                                log('%s list %s %s => ERR %s' % (tag, path, op, self.err(e)))
                        else:
                            k = rnd.choice(['k', 'v', 'tags', 'new'])
                            if k == 'tags' and isinstance(cont.get('tags'), list):
                                cont['tags'].append(rnd.randrange(9))
                            elif k == 'v':
                                cont['v'] = self.gen_bytes(rnd)
                            else:
                                cont[k] = rnd.randrange(300)
                            log('%s dict %s %s' % (tag, path, k))
                    else:
                        log('%s nocontainer' % tag)
                elif r < 0.64:
                    p = rnd.choice(live)
                    targets = [p]
                    names = self.descriptor_names(type(p)) * 3 + self.public_names(type(p))
                    if names:
                        n = rnd.choice(names)
                        try:
                            delattr(p, n)
                            log('%s del %s' % (tag, n))
                        except Exception as e:
                            log('%s del %s => ERR %s' % (tag, n, self.err(e)))
                elif r < 0.82:
                    p = rnd.choice(live)
                    targets = [p]
                    res = []
                    states = []
                    for _ in range(2):
                        pub_before = self.dump_public(p)
                        try:
                            raw = p.pack()
                            res.append(repr(raw))
                            if isinstance(raw, bytes):
                                pool = pools.setdefault(type(p), [])
                                if raw not in pool:
                                    pool.append(raw)
                                    del pool[:-8]
                        except Exception as e:
                            res.append('ERR ' + self.err(e))
                        states.append(pub_before == self.dump_public(p))
                    if res[0] != res[1] or not all(states):
                        self.purity_violations += 1
                    log('%s pack => %s ; %s ; pure=%r' % (tag, res[0], 'SAME' if res[0] == res[1] else res[1], states))
                elif r < 0.87:
                    p, q = rnd.choice(live), rnd.choice(live)
                    targets = [p, q]
                    for a, b in ((p, q), (q, p), (p, 5)):
                        try:
                            log('%s eq => %r %r' % (tag, a == b, a != b))
                        except Exception as e:
                            log('%s eq => ERR %s' % (tag, self.err(e)))
                elif r < 0.91:
                    p = rnd.choice(live)
                    targets = [p]
                    try:
                        log('%s repr => %s' % (tag, repr(p)))
                    except Exception as e:
                        log('%s repr => ERR %s' % (tag, self.err(e)))
                elif r < 0.96:
                    import copy, pickle
                    p = rnd.choice(live)
                    targets = [p]
                    how = rnd.choice(['deepcopy', 'proto', 'pickle', 'proto2', 'copy'])
                    try:
                        if how == 'deepcopy':
                            q = copy.deepcopy(p)
                        elif how == 'proto':
                            q = p.as_prototype().clone()
                        elif how == 'proto2':
                            proto = p.as_prototype()
                            q0 = proto.clone()
                            q = proto.clone()
                            a1, a2 = {}, {}
                            self.mutables(q0, a1)
                            self.mutables(q, a2)
                            if set(a1) & set(a2):
                                self.shared_violations += 1
                                log('%s SHARED-between-clones' % tag)
                        elif how == 'copy':
                            q = copy.deepcopy([p, p])
                            log('%s copy2 same=%r' % (tag, q[0] is q[1]))
                            q = q[0]
                        else:
                            q = pickle.loads(pickle.dumps(p, -1))
                        log('%s clone %s => %s eq=%r' % (tag, how, self.dump(q), self.dump(q) == self.dump(p)))
                        add_live(q)
                        targets.append(q)
                    except Exception as e:
                        log('%s clone %s => ERR %s' % (tag, how, type(e).__name__))
                elif r < 0.98:
                    p = rnd.choice(live)
                    targets = [p]
                    try:
                        log('%s consistency => %r' % (tag, p.assert_consistency(dont_raise=rnd.random() < .5)))
                    except Exception as e:
                        log('%s consistency => ERR %s' % (tag, self.err(e)))
                else:
                    if allow_local:
                        kind = rnd.randrange(m.LOCAL_KINDS)
                        cls = m.make_local(kind)
                        local_classes.append(cls)
                        log('%s local %d' % (tag, kind))
                        self.describe_class(m, cls, out)
                    else:
                        log('%s nolocal' % tag)
            except Exception as e:
                import traceback
                log('%s HARNESS-ERR %s %s' % (tag, type(e).__name__, e))
                raise

            # bystanders
            after = snapshot()
            by_id_before = dict(zip(before_ids, before))
            changed = []
            for p, d in zip(live, after):
                if any(p is t for t in targets):
                    continue
                old = by_id_before.get(id(p))
                if old is not None and old != d:
                    changed.append(d)
            if changed:
                self.bystander_violations += len(changed)
                log('%s BYSTANDERS-CHANGED %r' % (tag, changed))
            # sharing
            seen = {}
            shared = 0
            for i, p in enumerate(live):
                if any(p is q for q in live[:i]):
                    continue
                acc = {}
                self.mutables(p, acc)
                for k, v in acc.items():
                    if k in seen and seen[k] != i:
                        shared += 1
                        log('%s SHARED %s between live %d and %d' % (tag, self.dump(v)[:200], seen[k], i))
                    seen[k] = i
            self.shared_violations += shared
            for t in targets:
                if any(t is p for p in live):
                    log('%s S %s' % (tag, self.dump(t)))

    def dump_public(self, p):
        out = []
        for n in self.public_names(type(p)):
            try:
                out.append('%s=%s' % (n, self.dump(getattr(p, n), 0, True)))
            except Exception as e:
                out.append('%s=!%s' % (n, type(e).__name__))
        return ' '.join(out)

    def collect_containers(self, obj, path, acc, depth=0):
        if depth > 6:
            return
        for n in self.public_names(type(obj)):
            try:
                v = getattr(obj, n)
            except Exception:
                continue
            p = path + '.' + n if path else n
            if isinstance(v, list):
                acc.append((p, type(obj), n, v))
                for i, x in enumerate(v):
                    if isinstance(x, self.Packet):
                        self.collect_containers(x, '%s[%d]' % (p, i), acc, depth + 1)
                    elif isinstance(x, dict):
                        acc.append(('%s[%d]' % (p, i), type(obj), n, x))
            elif isinstance(v, dict):
                acc.append((p, type(obj), n, v))
            elif isinstance(v, self.Packet):
                self.collect_containers(v, p, acc, depth + 1)

    # -- all ----------------------------------------------------------------
    def run(self):
        self.setup()
        for hid in range(self.histories):
            rnd = random.Random(self.seed * 1000003 + hid)
            m = self.mods[hid % 2]
            self.run_history(rnd, m, hid)

        # threads: private histories, at the same time
        import threading
        sys.setswitchinterval(1e-5)
        nthreads = 6
        rounds = max(2, self.histories // 150)
        for rnd_i in range(rounds):
            outs = [[] for _ in range(nthreads)]
            errors = []

            def body(tid):
                try:
                    for j in range(6):
                        hid = 10 ** 6 + rnd_i * 1000 + tid * 10 + j
                        rnd = random.Random(self.seed * 7919 + hid)
                        m = self.mods[(tid + j) % 2]
                        self.run_history(rnd, m, hid, outs[tid], allow_local=False)
                except BaseException as e:
                    import traceback
                    errors.append(traceback.format_exc())

            threads = [threading.Thread(target=body, args=(t, )) for t in range(nthreads)]
            for t in threads:
                t.start()
            for t in threads:
                t.join()
            for tid in range(nthreads):
                for line in outs[tid]:
                    self.log_file.write('T%d ' % tid + line + '\n')
                    self.nlines += 1
            for e in errors:
                self.log('THREAD-HARNESS-ERR ' + e)
        sys.setswitchinterval(0.005)

        self.log('VIOLATIONS bystanders=%d shared=%d impure=%d' % (
            self.bystander_violations, self.shared_violations, self.purity_violations))
        self.log_file.close()
        print('lines=%d bystanders=%d shared=%d impure=%d' % (
            self.nlines, self.bystander_violations, self.shared_violations, self.purity_violations))


ALT_KEYS = ('Opt.a', 'Opt.b', 'Opt.c', 'KVP.post', 'Holder.o', 'Socks.address', 'Dyn.v', 'Dyn.w')

# groups of related classes: the live packets of a history come from one group
GROUPS = [
    ['Ints', 'BitsP', 'Half', 'Point'],
    ['Datas', 'DomainName', 'Socks'],
    ['Point', 'Line', 'Point3D', 'Point3', 'Half'],
    ['Bag', 'Box', 'Room'],
    ['Opt', 'Point', 'Bag', 'Holder', 'HH'],
    ['Pos', 'PosHolder', 'Aligned'],
    ['AL', 'ALHolder'],
    ['Inner', 'Mid', 'Outer'],
    ['KVP', 'Dyn', 'Sh1', 'Sh2'],
    ['KVP', 'Aligned'],
    ['Holder', 'HH', 'Line', 'Room'],
    ['Outer', 'Room', 'ALHolder', 'Dyn', 'Socks'],
]


# ---------------------------------------------------------------------------
# Driver
# ---------------------------------------------------------------------------
def run_worker(label, pythonpath, workdir, logpath, seed, histories):
    env = dict(os.environ)
    env['PYTHONPATH'] = pythonpath
    env['PYTHONHASHSEED'] = '0'
    env['PYTHONDONTWRITEBYTECODE'] = '1'
    os.makedirs(workdir, exist_ok=True)
    cmd = [sys.executable, os.path.abspath(__file__), '--worker', workdir, logpath,
           '--seed', str(seed), '--histories', str(histories), '--pkg', pythonpath]
    r = subprocess.run(cmd, cwd=workdir, env=env, stdout=subprocess.PIPE, stderr=subprocess.STDOUT, text=True)
    print('[%s] exit=%d %s' % (label, r.returncode, r.stdout.strip()[-2000:]))
    return r.returncode, r.stdout


def compare(path_a, path_b, label, maxshow=8):
    with open(path_a, encoding='utf-8') as f:
        a = f.read().split('\n')
    with open(path_b, encoding='utf-8') as f:
        b = f.read().split('\n')
    # the first line says which package was imported: must differ as expected
    ndiff = 0
    for i in range(1, max(len(a), len(b))):
        la = a[i] if i < len(a) else '<missing>'
        lb = b[i] if i < len(b) else '<missing>'
        if la != lb:
            ndiff += 1
            if ndiff <= maxshow:
                print('--- %s: line %d differs\n  A: %s\n  B: %s' % (label, i + 1, la[:1500], lb[:1500]))
    return ndiff


def main():
    ap = argparse.ArgumentParser()
    ap.add_argument('--worker', nargs=2)
    ap.add_argument('--seed', type=int, default=20260927)
    ap.add_argument('--histories', type=int, default=3000)
    ap.add_argument('--keep', action='store_true')
    ap.add_argument('--pkg')
    args = ap.parse_args()

    if args.worker:
        workdir, logpath = args.worker
        Worker(os.path.abspath(workdir), logpath, args.seed, args.histories, os.path.abspath(args.pkg)).run()
        return 0

    orig = os.path.join(HERE, 'orig_pkg')
    if not os.path.isdir(os.path.join(orig, 'bisturi')):
        print('missing pristine copy %s/bisturi' % orig)
        return 2
    base = os.path.join(HERE, 'difftest_work')
    shutil.rmtree(base, ignore_errors=True)
    os.makedirs(base)
    runs = [
        ('orig-cold', orig, os.path.join(base, 'orig')),
        ('mod-cold', HERE, os.path.join(base, 'mod')),
        ('mod-warm', HERE, os.path.join(base, 'mod')),
        ('orig-warm', orig, os.path.join(base, 'orig')),
    ]
    logs = []
    failed = False
    for label, pp, wd in runs:
        logpath = os.path.join(base, label + '.log')
        rc, out = run_worker(label, pp, wd, logpath, args.seed, args.histories)
        if rc != 0:
            failed = True
        if 'bystanders=0 shared=0 impure=0' not in out:
            print('[%s] ABSOLUTE VIOLATIONS (or crash)' % label)
            failed = True
        logs.append((label, logpath))
    with open(logs[0][1]) as f:
        first_orig = f.readline().strip()
    with open(logs[1][1]) as f:
        first_mod = f.readline().strip()
    if first_orig != 'PKG True' or first_mod != 'PKG False':
        print('wrong packages imported: %r %r' % (first_orig, first_mod))
        failed = True
    total = 0
    if not failed:
        for label, logpath in logs[1:]:
            n = compare(logs[0][1], logpath, 'orig-cold vs ' + label)
            print('orig-cold vs %s: %d differing lines' % (label, n))
            total += n
        with open(logs[0][1], 'rb') as f:
            print('log sha1 %s' % hashlib.sha1(f.read()).hexdigest())
    if not args.keep:
        shutil.rmtree(base, ignore_errors=True)
    if failed or total:
        print('DIFFERENCES FOUND' if total else 'FAILED')
        return 1
    print('ZERO DIFFERENCES')
    return 0


if __name__ == '__main__':
    sys.exit(main())
