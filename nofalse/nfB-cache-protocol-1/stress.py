#!/usr/bin/env python
'''
Stress of the generated-code cache (bisturi/codegen.py) with REAL processes.

    /venv/bin/python stress.py [-j N] [--quick] [--keep]

Everything happens in a scratch directory (tempfile.mkdtemp) that is removed
at the end.  Exit status 0 = every process, in every scenario, got the
behaviour of its own declaration and never raised; 1 otherwise.

The script does not know where inside `__pkts__` the cache protocol keeps
its files: it walks the folder looking for `defs_P.py` (source) and
`defs_P.*.pyc` (bytecode), so it works for the flat layout, for one
directory per declaration, with and without bytecode.

What is exercised (see NOTES.md for the reasons):
  sanity      a second identical run reuses the cached file (same inode)
  history     sequences of same-named classes (same-size sources, changed
              options, generation off and on), in one process and across
              processes, bytecode on/off, equal mtimes forced
  mix         every combination of {A, B, none, garbage, directory} as the
              source with {A, B, none, garbage} as the bytecode, same size and
              same mtime (includes '.py deleted but .pyc kept')
  hostile     garbage, null bytes, truncated files, directories and files in
              the way, read-only folder, folder that is a file
  truncate    the cached file cut at EVERY byte offset (in one process) and
              at line boundaries (fresh processes)
  crash       a child killed with os._exit before every file-system call of
              the cache update (and after the last one), and after k bytes of
              the source / of the bytecode, from three initial states; then
              fresh processes
  concurrent  8 processes released at once define two different same-named
              classes in the same folder, 30 rounds
'''
import argparse
import concurrent.futures
import json
import os
import shutil
import subprocess
import sys
import tempfile
import threading
import time
import traceback

HERE = os.path.dirname(os.path.abspath(__file__))
FIXED_T = 1000000000

# key -> (fields (name, size, endianness), __bisturi__ options)
FA = [('a', 1, None), ('b', 2, None)]
FB = [('a', 2, None), ('b', 1, None)]
FC = [('a', 2, 'little'), ('b', 1, None)]
OFF = {'generate_for_pack': False, 'generate_for_unpack': False}
DECLS = {
    'A': (FA, None),
    'B': (FB, None),
    'C': (FC, None),
    'A_novec': (FA, {'vectorize': False}),
    'B_novec': (FB, {'vectorize': False}),
    'A_noann': (FA, {'annotate': False}),
    'B_noann': (FB, {'annotate': False}),
    'A_off': (FA, OFF),
    'B_off': (FB, OFF),
    'A_packonly': (FA, {'generate_for_unpack': False}),
    'B_unpackonly': (FB, {'generate_for_pack': False}),
}

CHILD_HEAD = r'''
import sys, os, json, io, builtins, posix, _io
sys.path.insert(0, os.environ['STRESS_ROOT'])
try:
    import fcntl
except ImportError:
    fcntl = None
from bisturi.packet import Packet
from bisturi.field import Int

DECLS = %(decls)r
FIXED_T = %(fixed_t)r
FIXED = os.environ.get('STRESS_FIXED_MTIME') == '1'
CRASH_MODE, _, _n = os.environ.get('STRESS_CRASH', '').partition(':')
CRASH_NUM = int(_n) if _n else -1
ARMED = False
COUNT = 0
LOG = []
TRACKED_FDS = set()
BUDGET = [CRASH_NUM]
ORIG_UTIME = os.utime


def interesting(args):
    for a in args[:2]:
        if isinstance(a, (str, bytes, os.PathLike)):
            try:
                if '__pkts__' in os.fsdecode(a):
                    return True
            except Exception:
                pass
        elif isinstance(a, int) and not isinstance(a, bool):
            if a in TRACKED_FDS:
                return True
    return False


def step(name, args, call, force=False):
    global COUNT
    if not ARMED or not (force or interesting(args)):
        return call()
    COUNT += 1
    LOG.append([COUNT, name, repr(args[:2])[:160]])
    if CRASH_MODE == 'before' and COUNT == CRASH_NUM:
        os._exit(77)
    try:
        return call()
    finally:
        if CRASH_MODE == 'after' and COUNT == CRASH_NUM:
            os._exit(77)


def partial_write(kind, realwrite, flush, data):
    # dies after CRASH_NUM bytes (in total) reached the file
    if CRASH_MODE != kind:
        return realwrite(data)
    if len(data) >= BUDGET[0]:
        realwrite(data[:BUDGET[0]])
        flush()
        os._exit(77)
    BUDGET[0] -= len(data)
    return realwrite(data)


def wrap(mod, name, force=False):
    orig = getattr(mod, name, None)
    if orig is None:
        return

    def wrapper(*a, **kw):
        if FIXED and ARMED and mod is os and \
                name in ('replace', 'rename', 'link') and interesting(a):
            try:
                ORIG_UTIME(a[0], (FIXED_T, FIXED_T))
            except OSError:
                pass
        r = step(mod.__name__ + '.' + name, a, lambda: orig(*a, **kw), force)
        if name == 'open' and ARMED and interesting(a):
            TRACKED_FDS.add(r)
        elif name == 'close' and a:
            TRACKED_FDS.discard(a[0])
        return r

    wrapper.__name__ = name
    setattr(mod, name, wrapper)


class FileProxy:
    def __init__(self, f, writable):
        self._f = f
        self._w = writable

    def __getattr__(self, n):
        return getattr(self._f, n)

    def __enter__(self):
        return self

    def __exit__(self, *exc):
        self.close()

    def __iter__(self):
        return iter(self._f)

    def write(self, data):
        return step(
            'file.write', (str(self._f.name), ),
            lambda: partial_write('byte', self._f.write, self._f.flush, data),
            force=True
        )

    def close(self):
        if self._f.closed:
            return
        try:
            return step('file.close', (str(self._f.name), ), self._f.close,
                        force=True)
        finally:
            # a file written in place gets the forced mtime too
            if FIXED and self._w:
                try:
                    ORIG_UTIME(self._f.name, (FIXED_T, FIXED_T))
                except (OSError, TypeError):
                    pass


ORIG_OPEN = builtins.open


def open_wrapper(file, mode='r', *a, **kw):
    if not ARMED or not interesting((file, )):
        return ORIG_OPEN(file, mode, *a, **kw)
    f = step('open', (file, mode), lambda: ORIG_OPEN(file, mode, *a, **kw))
    return FileProxy(f, any(ch in mode for ch in 'wxa+'))


class CountingFileIO(_io.FileIO):
    # importlib writes the .pyc through _io.FileIO(fd, 'wb')
    def write(self, data):
        if not ARMED or not interesting((self.name, )):
            return super().write(data)
        sup = super()
        return step(
            'FileIO.write', (self.name, ),
            lambda: partial_write('pycbyte', sup.write, lambda: None, data),
            force=True
        )


def install():
    for n in ('stat', 'lstat', 'open', 'close', 'write', 'mkdir', 'makedirs',
              'remove', 'unlink', 'replace', 'rename', 'link', 'symlink',
              'rmdir', 'utime', 'fsync', 'fdatasync', 'listdir', 'scandir',
              'access', 'chmod', 'truncate', 'ftruncate', 'read'):
        wrap(os, n)
    # importlib._bootstrap_external calls the posix module directly
    for n in ('stat', 'lstat', 'open', 'close', 'write', 'mkdir', 'unlink',
              'remove', 'replace', 'rename', 'link', 'rmdir', 'utime',
              'fsync', 'listdir'):
        wrap(posix, n)
    wrap(_io, 'open_code')
    _io.FileIO = CountingFileIO
    if fcntl is not None:
        wrap(fcntl, 'flock', force=True)
        wrap(fcntl, 'lockf', force=True)
    builtins.open = open_wrapper
    io.open = open_wrapper


def define(key):
    global ARMED
    ARMED = True
    try:
        return globals()['def_' + key]()
    finally:
        ARMED = False


def check(P, key):
    fields, opts = DECLS[key]
    opts = opts or {}
    vals, raw, seed = {}, b'', 1
    for name, size, endian in fields:
        v = int.from_bytes(bytes(range(seed, seed + size)), 'big')
        seed += size
        vals[name] = v
        raw += v.to_bytes(size, endian or 'big')
    got = P(**vals).pack()
    assert got == raw, (key, 'pack', got, raw)

    raw2 = bytes(range(0xa1, 0xa1 + len(raw)))
    q = P.unpack(raw2)
    off = 0
    for name, size, endian in fields:
        want = int.from_bytes(raw2[off:off + size], endian or 'big')
        assert getattr(q, name) == want, (key, 'unpack', name,
                                          getattr(q, name), want)
        off += size
    got = q.pack()
    assert got == raw2, (key, 'repack', got, raw2)

    info = {}
    for flag, attr in (('generate_for_pack', 'pack_impl'),
                       ('generate_for_unpack', 'unpack_impl')):
        f = getattr(P, attr)
        if opts.get(flag, True):
            assert f is not getattr(Packet, attr), (key, attr, 'not installed')
            assert f.__name__ == attr, (key, attr, f.__name__)
            assert os.path.basename(f.__code__.co_filename) == 'defs_P.py', \
                (key, attr, f.__code__.co_filename)
            info[attr] = f.__code__.co_filename
        else:
            assert f is getattr(Packet, attr), (key, attr, 'installed')
    return info


def cache_sources():
    found = []
    for base, dirs, files in os.walk('__pkts__'):
        for n in files:
            if n == 'defs_P.py':
                found.append(os.path.join(base, n))
    return sorted(found)


def cache_bytecodes():
    found = []
    for base, dirs, files in os.walk('__pkts__'):
        for n in files:
            if n.startswith('defs_P.') and n.endswith('.pyc'):
                found.append(os.path.join(base, n))
    return sorted(found)


def main():
    install()
    mode = sys.argv[1]
    out = {'defined': []}
    if mode == 'seq':
        done = []
        for key in sys.argv[2:]:
            P = define(key)
            out['defined'].append([key, check(P, key)])
            done.append((key, P))
        # the classes defined before keep their own behaviour
        for key, P in done:
            check(P, key)
    elif mode == 'barrier':
        reps = int(sys.argv[2])
        sys.stdout.write('ready\n')
        sys.stdout.flush()
        sys.stdin.readline()
        done = []
        for i in range(reps):
            for key in sys.argv[3:]:
                P = define(key)
                check(P, key)
                done.append((key, P))
        for key, P in done:
            check(P, key)
    elif mode == 'trunc':
        # cut the cached file(s) of <key> at every offset; define <key> and
        # <other> after each cut
        key, other, stride = sys.argv[2], sys.argv[3], int(sys.argv[4])
        keep_pyc = sys.argv[5] == 'keeppyc'
        check(define(key), key)
        n = 0
        for path in cache_sources():
            with ORIG_OPEN(path, 'rb') as f:
                content = f.read()
            if b'BISTURI_PACKET_COOKIE' not in content:
                continue
            for cut in range(0, len(content) + 1, stride):
                with ORIG_OPEN(path, 'wb') as f:
                    f.write(content[:cut])
                if FIXED:
                    ORIG_UTIME(path, (FIXED_T, FIXED_T))
                if not keep_pyc:
                    for c in cache_bytecodes():
                        os.remove(c)
                check(define(key), key)
                check(define(other), other)
                n += 1
        out['cuts'] = n
        assert n > 0
    else:
        raise SystemExit('unknown mode')

    logpath = os.environ.get('STRESS_LOG')
    if logpath:
        with ORIG_OPEN(logpath, 'w') as f:
            json.dump(LOG, f)
    sys.stdout.write(json.dumps(out) + '\n')

'''


def child_source():
    parts = [CHILD_HEAD % {'decls': DECLS, 'fixed_t': FIXED_T}]
    for key, (fields, opts) in DECLS.items():
        lines = ['def def_%s():' % key, '    class P(Packet):']
        if opts:
            lines.append('        __bisturi__ = %r' % (opts, ))
        for name, size, endian in fields:
            if endian:
                lines.append(
                    '        %s = Int(%i, endianness=%r)' %
                    (name, size, endian)
                )
            else:
                lines.append('        %s = Int(%i)' % (name, size))
        lines.append('    return P')
        parts.append('\n'.join(lines) + '\n\n')
    parts.append("\nif __name__ == '__main__':\n    main()\n")
    return ''.join(parts)


class Failure(Exception):
    pass


class Ctx:
    ''' One scenario = one directory with its own defs.py and __pkts__. '''
    lock = threading.Lock()
    nprocs = 0

    def __init__(self, root, scratch, name):
        self.root = root
        self.name = name
        self.d = os.path.join(scratch, name)
        os.makedirs(self.d)
        with open(os.path.join(self.d, 'defs.py'), 'w') as f:
            f.write(child_source())
        self.pkts = os.path.join(self.d, '__pkts__')
        self.nsnap = 0

    # -- processes
    def env(self, bytecode, fixed, crash, log):
        env = dict(os.environ)
        for k in ('PYTHONDONTWRITEBYTECODE', 'PYTHONPYCACHEPREFIX',
                  'PYTHONPATH', 'PYTHONOPTIMIZE'):
            env.pop(k, None)
        if not bytecode:
            env['PYTHONDONTWRITEBYTECODE'] = '1'
        env['STRESS_ROOT'] = self.root
        env['STRESS_FIXED_MTIME'] = '1' if fixed else '0'
        env['STRESS_CRASH'] = crash or ''
        env['STRESS_LOG'] = log or ''
        return env

    def popen(self, args, bytecode=True, fixed=False, crash=None, log=None):
        with Ctx.lock:
            Ctx.nprocs += 1
        return subprocess.Popen(
            [sys.executable, os.path.join(self.d, 'defs.py')] + list(args),
            cwd=self.d, env=self.env(bytecode, fixed, crash, log),
            stdin=subprocess.PIPE, stdout=subprocess.PIPE,
            stderr=subprocess.PIPE, text=True
        )

    def finish(self, p, what, expect=0, timeout=300):
        try:
            out, err = p.communicate(timeout=timeout)
        except subprocess.TimeoutExpired:
            p.kill()
            p.communicate()
            raise Failure('%s: %s: TIMEOUT' % (self.name, what))
        if isinstance(expect, int):
            expect = (expect, )
        if p.returncode not in expect or (
            p.returncode == 0 and ('Traceback' in err or not out.strip())
        ):
            raise Failure(
                '%s: %s: exit %s (expected %s)\n--- stdout\n%s\n--- stderr\n%s\n'
                '--- cache\n%s' % (
                    self.name, what, p.returncode, expect, out, err,
                    self.describe()
                )
            )
        if p.returncode == 0:
            return json.loads(out.strip().splitlines()[-1])
        return None

    def run(self, args, what=None, expect=0, **kw):
        what = what or ' '.join(args) + ' ' + repr(kw)
        return self.finish(self.popen(args, **kw), what, expect)

    def seq(self, *keys, **kw):
        return self.run(['seq'] + list(keys), **kw)

    # -- cache folder
    def sources(self):
        return sorted(
            os.path.join(b, n) for b, _, fs in os.walk(self.pkts) for n in fs
            if n == 'defs_P.py'
        )

    def bytecodes(self):
        return sorted(
            os.path.join(b, n) for b, _, fs in os.walk(self.pkts) for n in fs
            if n.startswith('defs_P.') and n.endswith('.pyc')
        )

    def describe(self):
        lines = []
        for b, ds, fs in os.walk(self.pkts):
            for n in sorted(ds + fs):
                p = os.path.join(b, n)
                try:
                    st = os.lstat(p)
                    lines.append(
                        '%s size=%i mtime=%r mode=%o' %
                        (os.path.relpath(p, self.d), st.st_size, st.st_mtime,
                         st.st_mode)
                    )
                except OSError as e:
                    lines.append('%s %s' % (p, e))
        return '\n'.join(lines)

    def wipe(self):
        rm(self.pkts)

    def save(self):
        self.nsnap += 1
        snap = os.path.join(self.d, 'snap%i' % self.nsnap)
        if os.path.lexists(self.pkts):
            shutil.copytree(self.pkts, snap, symlinks=True)
        return snap

    def restore(self, snap):
        self.wipe()
        if os.path.lexists(snap):
            shutil.copytree(snap, self.pkts, symlinks=True)

    def both(self, what, fixed=False, order='ABAB'):
        ''' fresh processes, both declarations, bytecode on and off '''
        bcs = (True, False, False, True)
        for i, key in enumerate(order):
            self.seq(key, bytecode=bcs[i % 4], fixed=fixed,
                     what='%s; then seq %s bytecode=%s' % (what, key,
                                                            bcs[i % 4]))


def rm(path):
    if os.path.isdir(path) and not os.path.islink(path):
        try:
            os.chmod(path, 0o755)
        except OSError:
            pass
        # top-down: a folder is made accessible before it is entered
        for b, ds, fs in os.walk(path):
            for n in ds:
                if not os.path.islink(os.path.join(b, n)):
                    try:
                        os.chmod(os.path.join(b, n), 0o755)
                    except OSError:
                        pass
        shutil.rmtree(path)
    elif os.path.lexists(path):
        os.remove(path)


def put(path, data, mtime=FIXED_T):
    ''' place a file (bytes), a directory (data is DIR) or nothing (None) '''
    rm(path)
    if data is None:
        return
    parent = os.path.dirname(path)
    if not os.path.isdir(parent):
        rm(parent)
        os.makedirs(parent)
    if data is DIR:
        os.makedirs(path)
        with open(os.path.join(path, 'something'), 'w') as f:
            f.write('x')
        return
    with open(path, 'wb') as f:
        f.write(data)
    os.utime(path, (mtime, mtime))


DIR = object()
GARBAGE = [
    b'', b'\x00' * 100, b'\xff\xfe\x00garbage\x00', b'def (:\n',
    b'raise RuntimeError("boom")\n', b'import nonexistent_module_xyz\n',
    b"BISTURI_PACKET_COOKIE = 'x'\nBISTURI_PACKET_COMPLETE = 'x'\n",
    b'1/0\n', b'\n' * 5000, os.urandom(1500),
    b'# -*- coding: nonexistent-codec -*-\n', b'x = (\n',
]

# --------------------------------------------------------------------------
# scenarios


def scen_sanity(c):
    r1 = c.seq('A', bytecode=False)
    srcs = c.sources()
    if not srcs:
        raise Failure('sanity: nothing was cached\n' + c.describe())
    inodes = {p: os.stat(p).st_ino for p in srcs}
    fname = r1['defined'][0][1]['pack_impl']
    for bc in (False, True, True):
        r = c.seq('A', bytecode=bc)
        if r['defined'][0][1]['pack_impl'] != fname:
            raise Failure('sanity: different file names %r' % (r, ))
        for p, ino in inodes.items():
            if os.stat(p).st_ino != ino:
                raise Failure('sanity: the cached file was rewritten: ' + p)
    if os.path.realpath(fname) not in [os.path.realpath(p) for p in srcs]:
        raise Failure('sanity: %s is not in the cache %s' % (fname, srcs))
    # same size sources: the pair A/B is the hard one
    c.wipe()
    c.seq('B', bytecode=False)
    sizes = {os.path.getsize(p) for p in c.sources()}
    c.wipe()
    c.seq('A', bytecode=False)
    sizes |= {os.path.getsize(p) for p in c.sources()}
    if len(sizes) != 1:
        raise Failure('sanity: A and B sources differ in size: %r' % sizes)
    leftovers = [
        n for b, _, fs in os.walk(c.pkts) for n in fs if n.endswith('.tmp')
    ]
    if leftovers:
        raise Failure('sanity: temporary files left: %r' % leftovers)


HISTORY = [
    'A', 'B', 'A', 'A', 'A_novec', 'A', 'A_off', 'A', 'B_noann', 'B', 'C',
    'A', 'B_off', 'B', 'A_packonly', 'B_unpackonly', 'A', 'B', 'B_novec',
    'A_noann', 'C', 'B', 'A',
]


def scen_history(c, bytecode, fixed):
    # across processes
    for i, key in enumerate(HISTORY):
        bc = bytecode if bytecode is not None else (i % 3 != 1)
        c.seq(key, bytecode=bc, fixed=fixed, what='history #%i %s' % (i, key))
    # in one process (twice: the second one starts from the leftovers)
    for i in range(2):
        bc = bytecode if bytecode is not None else bool(i)
        c.seq(*HISTORY, bytecode=bc, fixed=fixed, what='history in-process')
    # pairs, each in a fresh process, from an empty folder
    for pair in (('A', 'B'), ('B', 'A'), ('A', 'A'), ('A_off', 'A'),
                 ('A', 'A_off', 'B'), ('A_novec', 'A', 'B_novec', 'B')):
        c.wipe()
        bc = bytecode if bytecode is not None else True
        c.seq(*pair, bytecode=bc, fixed=fixed)
        c.seq(*reversed(pair), bytecode=bc, fixed=fixed)


def snapshots(c):
    ''' sources and bytecodes of A and B, all with the same size and mtime '''
    import py_compile
    snaps = {}
    for key in 'AB':
        c.wipe()
        c.seq(key, bytecode=True, fixed=True)
        c.seq(key, bytecode=True, fixed=True)
        srcs = c.sources()
        if len(srcs) != 1:
            raise Failure('expected one source, got %r' % srcs)
        src = srcs[0]
        os.utime(src, (FIXED_T, FIXED_T))
        pycs = c.bytecodes()
        if not pycs:
            # this protocol does not keep bytecode: make the one that an
            # older version would have left
            from importlib.util import cache_from_source
            cfile = cache_from_source(src)
            py_compile.compile(src, cfile=cfile, doraise=True)
            pycs = [cfile]
        with open(src, 'rb') as f:
            s = f.read()
        with open(pycs[0], 'rb') as f:
            b = f.read()
        snaps[key] = (src, s, pycs[0], b)
    c.wipe()
    return snaps


def scen_mix(c):
    snaps = snapshots(c)
    spaths = sorted({snaps[k][0] for k in 'AB'})
    bpaths = sorted({snaps[k][2] for k in 'AB'})
    sources = {'A': snaps['A'][1], 'B': snaps['B'][1], 'none': None,
               'garbage': b'\x00\x01garbage', 'dir': DIR}
    bytecodes = {'A': snaps['A'][3], 'B': snaps['B'][3], 'none': None,
                 'garbage': snaps['A'][3][:16] + b'garbage',
                 'cut': snaps['B'][3][:40]}
    for sname, s in sources.items():
        for bname, b in bytecodes.items():
            for order in ('ABAB', 'BABA'):
                c.wipe()
                for p in spaths:
                    put(p, s)
                for p in bpaths:
                    put(p, b)
                c.both('source=%s bytecode=%s' % (sname, bname), fixed=True,
                       order=order)


def scen_hostile(c):
    # garbage where the source / the bytecode should be
    c.seq('A', bytecode=True, fixed=True)
    c.seq('B', bytecode=True, fixed=True)
    c.seq('B', bytecode=True, fixed=True)
    spaths, bpaths = c.sources(), c.bytecodes()
    snap = c.save()
    for i, g in enumerate(GARBAGE):
        c.restore(snap)
        for p in spaths:
            put(p, g)
        c.both('garbage #%i as source' % i, fixed=True,
               order='ABAB' if i % 2 else 'BABA')
        c.restore(snap)
        for p in spaths:
            put(p, g)
        for p in bpaths:
            os.remove(p)
        c.both('garbage #%i as source, no bytecode' % i, order='AB')
        if bpaths:
            c.restore(snap)
            for p in bpaths:
                put(p, g)
            c.both('garbage #%i as bytecode' % i, fixed=True, order='AB')

    # things in the way
    def in_the_way(what, fn, order='ABAB'):
        c.restore(snap)
        fn()
        c.both(what, order=order)
        c.both(what + ' (again)', fixed=True, order=order[::-1])

    for p in spaths:
        in_the_way('directory as source', lambda: put(p, DIR))
        in_the_way('empty directory as source',
                   lambda: (rm(p), os.makedirs(p)))
        in_the_way('dangling symlink as source',
                   lambda: (rm(p), os.symlink('/nonexistent/x', p)))
        in_the_way('symlink loop as source',
                   lambda: (rm(p), os.symlink(p, p)))
        in_the_way('fifo-less unreadable source',
                   lambda: os.chmod(p, 0))
        d = os.path.dirname(p)
        while os.path.realpath(d) != os.path.realpath(c.d):
            in_the_way('file in place of folder ' + os.path.relpath(d, c.d),
                       lambda: (rm(d), put(d, b'not a folder')))
            in_the_way('read-only folder ' + os.path.relpath(d, c.d),
                       lambda: os.chmod(d, 0o555))
            in_the_way('read-only folder without source',
                       lambda: (rm(p), os.chmod(d, 0o555)))
            in_the_way('unreachable folder',
                       lambda: os.chmod(d, 0))
            d = os.path.dirname(d)
    for p in bpaths:
        in_the_way('directory as bytecode', lambda: put(p, DIR))
        in_the_way('__pycache__ is a file',
                   lambda: (rm(os.path.dirname(p)),
                            put(os.path.dirname(p), b'x')))
        in_the_way('__pycache__ read-only',
                   lambda: os.chmod(os.path.dirname(p), 0o555))
    in_the_way('lock file is a directory',
               lambda: put(os.path.join(c.pkts, '.lock'), DIR))
    in_the_way('lock file is unreadable',
               lambda: (put(os.path.join(c.pkts, '.lock'), b''),
                        os.chmod(os.path.join(c.pkts, '.lock'), 0)))
    in_the_way('dangling symlink as folder',
               lambda: (rm(c.pkts), os.symlink('/nonexistent/dir', c.pkts)))
    in_the_way('empty folder', lambda: (rm(c.pkts), os.makedirs(c.pkts)))
    in_the_way('no folder', lambda: rm(c.pkts))
    c.restore(snap)


def scen_truncate_inproc(c, bytecode, keeppyc, fixed):
    c.run(['trunc', 'A', 'B', '1', 'keeppyc' if keeppyc else 'nopyc'],
          bytecode=bytecode, fixed=fixed)
    c.both('after the in-process truncations')
    c.run(['trunc', 'B', 'A', '7', 'keeppyc' if keeppyc else 'nopyc'],
          bytecode=bytecode, fixed=fixed)
    c.both('after the in-process truncations')


def scen_truncate_fresh(c, quick):
    snaps = snapshots(c)
    src, content, pyc, bcontent = snaps['A']
    cuts = set()
    pos = 0
    for line in content.splitlines(keepends=True):
        pos += len(line)
        cuts.update((pos - 1, pos, pos + 1))
    cuts = sorted(x for x in cuts if 0 <= x < len(content))
    if quick:
        cuts = cuts[::6]
    for cut in cuts:
        # truncated source of A with the bytecode of B/none around
        for b in (None, snaps['B'][3]):
            c.wipe()
            put(src, content[:cut])
            put(snaps['B'][2], b)
            c.both('source of A cut at %i' % cut, order='AB', fixed=True)


def scen_crash(c, start, bytecode, quick):
    fixed = True
    c.wipe()
    if start == 'B':
        c.seq('B', bytecode=True, fixed=fixed)
        c.seq('B', bytecode=True, fixed=fixed)
    elif start == 'A':
        c.seq('A', bytecode=True, fixed=fixed)
        c.seq('A', bytecode=True, fixed=fixed)
    elif start == 'Bsrc':
        c.seq('B', bytecode=False, fixed=fixed)
    snap = c.save()

    log = os.path.join(c.d, 'fs.log')
    c.seq('A', bytecode=bytecode, fixed=fixed, log=log)
    with open(log) as f:
        calls = json.load(f)
    n = len(calls)
    if n == 0:
        raise Failure('crash: no file-system call seen')
    size = max([os.path.getsize(p) for p in c.sources()] or [0])

    def after(what):
        c.both(what, order='ABAB')

    points = [('before', k) for k in range(1, n + 1)] + [('after', n)]
    if quick:
        points = points[::3] + [('after', n)]
    for mode, k in points:
        c.restore(snap)
        what = 'start=%s bytecode=%s crash %s call #%i %s' % (
            start, bytecode, mode, k, calls[k - 1][1:]
        )
        c.seq('A', bytecode=bytecode, fixed=fixed, crash='%s:%i' % (mode, k),
              expect=77, what=what)
        after(what)

    died = 0
    offsets = [0, 1, 7, 60, 150, 151, 152, 200, 400, 640, size - 43, size - 42,
               size - 2, size - 1, size]
    if quick:
        offsets = offsets[::3]
    for off in offsets:
        if off < 0:
            continue
        c.restore(snap)
        what = 'start=%s bytecode=%s crash after %i bytes of the source' % (
            start, bytecode, off
        )
        p = c.popen(['seq', 'A'], bytecode=bytecode, fixed=fixed,
                    crash='byte:%i' % off)
        c.finish(p, what, expect=(0, 77))
        died += p.returncode == 77
        after(what)
    if start != 'A' and died == 0:
        raise Failure('crash: start=%s: the write was never interrupted' %
                      start)
    if bytecode:
        for off in (0, 1, 15, 16, 17, 100, 300):
            c.restore(snap)
            what = 'start=%s crash after %i bytes of the bytecode' % (start,
                                                                      off)
            p = c.popen(['seq', 'A'], bytecode=True, fixed=fixed,
                        crash='pycbyte:%i' % off)
            c.finish(p, what, expect=(0, 77))
            after(what)
    return n


def scen_concurrent(c, rounds, procs, flavour):
    for r in range(rounds):
        if r % 5 == 0:
            c.wipe()
        if flavour == 'on':
            bytecode = True
        elif flavour == 'off':
            bytecode = False
        else:
            bytecode = None
        fixed = r % 3 != 2
        if r % 6 == 5:
            kinds = ['A'] * procs
        elif r % 7 == 6:
            kinds = (['A', 'B', 'C', 'A_novec'] * procs)[:procs]
        else:
            kinds = (['A', 'B'] * procs)[:procs]
        ps = []
        for i, k in enumerate(kinds):
            bc = bytecode if bytecode is not None else (i % 4 < 2)
            ps.append(c.popen(['barrier', '4', k], bytecode=bc, fixed=fixed))
        errors = []
        for p in ps:
            line = p.stdout.readline()
            if line.strip() != 'ready':
                errors.append('not ready: %r' % line)
        for p in ps:
            try:
                p.stdin.write('\n')
                p.stdin.flush()
            except OSError:
                pass
        for p, k in zip(ps, kinds):
            try:
                c.finish(p, 'round %i flavour %s, process defining %s' %
                         (r, flavour, k))
            except Failure as e:
                errors.append(str(e))
        if errors:
            raise Failure('\n'.join(errors))
        # and what they left is fine for the next ones
        if r % 4 == 3:
            c.both('after round %i' % r, order='BA')


def scen_lockholder(c):
    # somebody holds an advisory lock on __pkts__/.lock and is killed: the
    # kernel releases the lock, nobody stays blocked (a protocol without
    # locks does not even notice)
    try:
        import fcntl
    except ImportError:
        return
    import signal
    holder_src = (
        "import fcntl, sys, time\n"
        "f = open(sys.argv[1], 'a')\n"
        "fcntl.flock(f, fcntl.LOCK_EX)\n"
        "fcntl.lockf(f, fcntl.LOCK_EX)\n"
        "print('held', flush=True)\n"
        "time.sleep(600)\n"
    )
    for start in ('empty', 'A', 'B'):
        c.wipe()
        if start != 'empty':
            c.seq(start)
        os.makedirs(c.pkts, exist_ok=True)
        holder = subprocess.Popen(
            [sys.executable, '-c', holder_src, os.path.join(c.pkts, '.lock')],
            stdout=subprocess.PIPE, text=True
        )
        try:
            assert holder.stdout.readline().strip() == 'held'
            ps = [c.popen(['seq', k], bytecode=(k == 'A')) for k in 'ABAB']
            time.sleep(0.7)
            waiting = sum(p.poll() is None for p in ps)
        finally:
            holder.send_signal(signal.SIGKILL)
            holder.wait()
        for p, k in zip(ps, 'ABAB'):
            c.finish(p, 'start=%s: lock holder killed, defining %s '
                     '(%i were waiting)' % (start, k, waiting), timeout=60)
        c.both('after the lock holder was killed')


# --------------------------------------------------------------------------


def main():
    ap = argparse.ArgumentParser()
    ap.add_argument('--root', default=HERE,
                    help='directory that contains the bisturi package')
    ap.add_argument('-j', type=int, default=min(8, os.cpu_count() or 2))
    ap.add_argument('--quick', action='store_true')
    ap.add_argument('--keep', action='store_true')
    ap.add_argument('--only', default='')
    opts = ap.parse_args()

    scratch = tempfile.mkdtemp(prefix='bisturi-stress-')
    tasks = []

    def task(name, fn, *a):
        if opts.only and not name.startswith(opts.only):
            return
        tasks.append((name, fn, a))

    rounds = 10 if opts.quick else 30
    task('concurrent-mixed', scen_concurrent, rounds, 8, 'mixed')
    task('concurrent-on', scen_concurrent, rounds, 8, 'on')
    task('concurrent-off', scen_concurrent, rounds, 8, 'off')
    for start in ('empty', 'B', 'Bsrc', 'A'):
        for bc in (True, False):
            task('crash-%s-%s' % (start, 'on' if bc else 'off'), scen_crash,
                 start, bc, opts.quick)
    task('sanity', scen_sanity)
    task('lockholder', scen_lockholder)
    task('history-on-fixed', scen_history, True, True)
    task('history-off-fixed', scen_history, False, True)
    task('history-mixed', scen_history, None, False)
    task('history-mixed-fixed', scen_history, None, True)
    task('mix', scen_mix)
    task('hostile', scen_hostile)
    task('truncate-inproc-on', scen_truncate_inproc, True, True, True)
    task('truncate-inproc-on-nopyc', scen_truncate_inproc, True, False, False)
    task('truncate-inproc-off', scen_truncate_inproc, False, True, True)
    task('truncate-fresh', scen_truncate_fresh, opts.quick)

    failures = []
    t0 = time.time()

    def runner(name, fn, a):
        c = Ctx(opts.root, scratch, name)
        t = time.time()
        try:
            fn(c, *a)
            return name, None, time.time() - t
        except Failure as e:
            return name, str(e), time.time() - t
        except Exception:
            return name, traceback.format_exc(), time.time() - t

    try:
        with concurrent.futures.ThreadPoolExecutor(opts.j) as pool:
            futs = [pool.submit(runner, *t) for t in tasks]
            for fut in concurrent.futures.as_completed(futs):
                name, err, dt = fut.result()
                print('%-28s %s  (%.1fs)' % (name, 'FAIL' if err else 'ok',
                                             dt))
                sys.stdout.flush()
                if err:
                    failures.append((name, err))
    finally:
        if opts.keep:
            print('scratch kept:', scratch)
        else:
            rm(scratch)

    print('%i scenarios, %i processes, %.0fs' % (len(tasks), Ctx.nprocs,
                                                 time.time() - t0))
    for name, err in failures:
        print('=' * 70)
        print('FAILED', name)
        print(err)
    if failures:
        print('%i scenario(s) FAILED' % len(failures))
        return 1
    print('all fine')
    return 0


if __name__ == '__main__':
    sys.exit(main())
