#!/venv/bin/python
'''Differential test: ORIGINAL bisturi (pristine copy in orig_pkg/bisturi) vs
the MODIFIED package (bisturi/ next to this file).

    /venv/bin/python difftest.py            # everything
    /venv/bin/python difftest.py packets fragments   # only some sections
    /venv/bin/python difftest.py --quick    # smaller numbers

How it works: every section is run twice, each time in a fresh subprocess
(worker) that has only one of the two packages in its PYTHONPATH, from a
private copy of this very file (so the generated code of each implementation
goes to its own __pkts__ folder). A worker drives the package with
deterministic pseudo random scenarios (seeded, and never with the global
random generator because the package itself consumes it) and writes down
everything that it observes, one observation per line. The driver compares
the two transcripts line by line: ZERO differences are required. The workers
also check invariants by themselves (the properties C11, C13 and C17), a
violation is written as a line that starts with 'INVARIANT' and the driver
requires ZERO of them too.

Sections:
  packets    >= 25 packet classes x generated/generic code: shape of the
             classes, defaults, thousands of valid/truncated/corrupted inputs,
             random assignments (out of range, bool, IntEnum, junk) + pack
  histories  histories over several live packets: bystanders unchanged, no
             shared mutable sub-objects, pack twice stable; plus threads
  auto       Auto/AutoLength histories (exhaustive short ones + random long
             ones): set/delete/construct/unpack/pack incl. failing packs
  fragments  200 000 random histories of Fragments (vs the other
             implementation and vs a reference model)
  docs       every example of docs/reference/*.md
  cache      real processes: same-named classes with same-size generated
             sources, bytecode on/off, .py deleted but .pyc kept, torn files,
             a child killed in the middle of the write, 8 concurrent
             definers x 20 rounds
  gensrc     (driver only) the files generated in __pkts__ by both
             implementations in the sections above are byte by byte the same
'''

import enum
import hashlib
import itertools
import os
import random
import re
import shutil
import signal
import subprocess
import sys
import threading
import time
import traceback

HERE = os.path.dirname(os.path.abspath(__file__))

###############################################################################
#                              WORKER SIDE                                    #
###############################################################################


class Color(enum.IntEnum):
    RED = 1
    GREEN = 2
    BIG = 70000


_out = None


_ADDRESS = re.compile(r' at 0x[0-9a-f]+')


def emit(*parts):
    line = ' '.join(str(p) for p in parts)
    _out.write(_ADDRESS.sub(' at 0x?', line))
    _out.write('\n')


_NOT_INT_NEW = re.compile(r"^'(\w+)' object has no attribute 'to_bytes'$")
_NOT_INT_OLD = re.compile(
    r"^'<' not supported between instances of '(\w+)' and 'int'$"
)


def norm_msg(msg, packing):
    ''' The only tolerated difference in a message: packing a value that is
        not an integer (no to_bytes) with an Int of a size that struct does
        not handle. The original code felt in its Python 2 fallback that
        failed (always) a little later with another message. '''
    if not packing:
        return msg
    m = _NOT_INT_NEW.match(msg) or _NOT_INT_OLD.match(msg)
    if m:
        return '<NOT-AN-INT:%s>' % m.group(1)
    if msg == '%x format: an integer is required, not float':
        return '<NOT-AN-INT:float>'
    return msg


def describe_exception(e):
    from bisturi.packet import PacketError
    if isinstance(e, PacketError):
        packing = not e.was_error_found_in_unpacking_phase
        first_line = str(e).split('\n')[0]
        # the first line ends with the original message
        prefix = first_line[:len(first_line) - len(e.original_error_message)] \
                if first_line.endswith(e.original_error_message) else first_line
        return 'PacketError(unpacking=%r stack=%r msg=%r args=%r has_packet=%r head=%r tb=%r)' % (
            e.was_error_found_in_unpacking_phase, e.fields_stack,
            norm_msg(e.original_error_message, packing), e.args,
            hasattr(e, 'packet'), prefix,
            bool(e.original_traceback)
        )
    return '%s(%r) isexc=%r' % (
        # CollisionError is the new name of a plain Exception
        'Exception' if type(e).__name__ == 'CollisionError' else
        type(e).__name__, str(e), isinstance(e, Exception)
    )


def attempt(func, *args, **kargs):
    try:
        return ('ok', func(*args, **kargs))
    except Exception as e:
        return ('raise', describe_exception(e))


def all_slots(cls):
    slots = []
    for klass in reversed(cls.__mro__):
        for s in klass.__dict__.get('__slots__', ()):
            if s not in slots:
                slots.append(s)
    return slots


def dump(value, depth=0):
    ''' Textual, deterministic and complete description of a value. '''
    from bisturi.packet import Packet
    if depth > 8:
        return '<too-deep>'
    if isinstance(value, Packet):
        cls = value.__class__
        parts = []
        names = [n for n, _, _, _ in cls.get_fields()]
        for n in all_slots(cls):
            if n not in names:
                names.append(n)
        # the public names handled by descriptors are not slots
        for n, f, _, _ in cls.get_fields():
            dn = getattr(f, 'descriptor_name', None)
            if dn and dn not in names:
                names.append(dn)
        for n in names:
            try:
                v = getattr(value, n)
            except AttributeError:
                parts.append('%s=<unset>' % n)
            except Exception as e:
                parts.append('%s=<raise %s>' % (n, type(e).__name__))
            else:
                parts.append('%s=%s' % (n, dump(v, depth + 1)))
        return '%s{%s dict=%r}' % (
            cls.__name__, ' '.join(parts), hasattr(value, '__dict__')
        )
    if isinstance(value, list):
        return '[' + ', '.join(dump(v, depth + 1) for v in value) + ']'
    if isinstance(value, tuple):
        return '(' + ', '.join(dump(v, depth + 1) for v in value) + ')'
    if isinstance(value, enum.Enum):
        return 'enum:%s' % value.name
    if isinstance(value, (bool, int, bytes, str, float, type(None))):
        return '%s:%r' % (type(value).__name__, value)
    return '<%s>' % type(value).__name__


def public_dump(pkt):
    ''' Only what a user sees: the public fields, recursively. '''
    from bisturi.packet import Packet
    if isinstance(pkt, Packet):
        parts = []
        for n, f, _, _ in pkt.__class__.get_fields():
            n = getattr(f, 'descriptor_name', None) or n
            if n.startswith('_'):
                continue
            try:
                v = getattr(pkt, n)
            except AttributeError:
                parts.append('%s=<unset>' % n)
            except Exception as e:
                parts.append('%s=<raise %s>' % (n, type(e).__name__))
            else:
                parts.append('%s=%s' % (n, public_dump(v)))
        return '%s{%s}' % (pkt.__class__.__name__, ' '.join(parts))
    if isinstance(pkt, list):
        return '[' + ', '.join(public_dump(v) for v in pkt) + ']'
    return dump(pkt)


def mutable_ids(pkt, acc=None, depth=0):
    ''' ids of all the mutable sub-objects (lists, packets) reachable from
        the packet (itself included), hidden slots included. '''
    from bisturi.packet import Packet
    if acc is None:
        acc = {}
    if depth > 8 or id(pkt) in acc:
        return acc
    if isinstance(pkt, Packet):
        acc[id(pkt)] = pkt
        for n in all_slots(pkt.__class__):
            try:
                v = getattr(pkt, n)
            except Exception:
                continue
            mutable_ids(v, acc, depth + 1)
    elif isinstance(pkt, list):
        acc[id(pkt)] = pkt
        for v in pkt:
            mutable_ids(v, acc, depth + 1)
    return acc


def inspect_outcome(pkt):
    ''' What bisturi.util.inspect prints. '''
    import io
    import contextlib
    import bisturi.util
    buf = io.StringIO()
    with contextlib.redirect_stdout(buf):
        r = attempt(bisturi.util.inspect, pkt)
    return '%s %r' % (r[0] if r[0] == 'ok' else r[1], buf.getvalue())


def seekable_outcome(cls, raw):
    ''' Unpack from a file through bisturi.util.SeekableFile. '''
    import io
    from bisturi.util import SeekableFile
    if not raw:
        return 'empty'
    r = attempt(lambda: cls.unpack(SeekableFile(io.BytesIO(raw))))
    return '%s %s' % (r[0], dump(r[1]) if r[0] == 'ok' else r[1])


def pack_outcome(pkt):
    kind, res = attempt(pkt.pack)
    return '%s:%r' % (kind, res)


# --------------------------------------------------------------------------- #
# The packet classes: every field kind and option of docs/reference.
# --------------------------------------------------------------------------- #


def make_classes(gen):
    ''' Return a list of (packet class, [valid raw strings]).
        gen: generated code (True) or generic code (False). '''
    import re as _re
    import zlib
    from bisturi.packet import Packet
    from bisturi.field import Int, Data, Bits, Ref, Em, EOS, Field
    from bisturi.descriptor import Auto, AutoLength

    def conf(**extra):
        c = {'generate_for_pack': gen, 'generate_for_unpack': gen}
        c.update(extra)
        return c

    out = []

    def register(*seeds):
        def decorator(cls):
            out.append((cls, list(seeds)))
            return cls

        return decorator

    # ---- 03 Int ----------------------------------------------------------
    @register(
        b'\x00\x00\x00\x01' + b'\x02' + b'\x03\x00\x00\x00' + b'\xfc' +
        b'\x00\x00\x00\x05' + b'\x00\x00\x00\x06' + b'\xff\xfe' + b'\x80' * 8
    )
    class IntsPrimitive(Packet):
        __bisturi__ = conf()
        a = Int()
        b = Int(1)
        c = Int(endianness='little')
        d = Int(1, signed=True)
        e = Int(endianness='network')
        f = Int(endianness='local')
        g = Int(2, signed=True, endianness='little', default=-2)
        h = Int(8, default=7)

    @register(
        b'\x00\x00\x01' + b'\x02\x00\x00' + b'\xff' * 15 + b'\xfd' +
        b'\x00\x00\x04' + b'\x00\x00\x05' + b'\xff\xff\xff\xff\x7f'
    )
    class IntsRareSize(Packet):
        __bisturi__ = conf()
        a = Int(3)
        b = Int(3, endianness='little')
        c = Int(16, signed=True)
        d = Int(3, endianness='network')
        e = Int(3, endianness='local')
        f = Int(5, signed=True, endianness='little', default=-3)

    @register(b'\x01\x00\x02\x00\x00\x03\x04\x00\x00')
    class IntsLittleByDefault(Packet):
        __bisturi__ = conf(endianness='little')
        a = Int(2, endianness='little')
        b = Int(2)  # now, little endian by default
        c = Int(2, endianness='network')
        d = Int(3)

    @register(b'\x01\x00\x02\x03\x00\x00\x00\x04\x00\x00\x05\x06')
    class IntsNotVectorized(Packet):
        __bisturi__ = conf(vectorize=False)
        a = Int(1)
        b = Int(2)
        c = Int(4, endianness='little')
        d = Int(3)
        e = Int(1)
        f = Int(1, signed=True)

    @register(b'\x01\x00\x02\x03\x00\x00\x00ab')
    class IntsNotAnnotated(Packet):
        __bisturi__ = conf(annotate=False, additional_slots=['user_slot'])
        a = Int(1)
        b = Int(2)
        c = Int(4, endianness='little')
        d = Data(2)

    # ---- 04 Data ---------------------------------------------------------
    @register(b'\x01abCdd', b'\x00ab', b'\x03abCCCdddddd')
    class DataBasedOnOther(Packet):
        __bisturi__ = conf()
        length = Int(1)
        a = Data(2)
        b = Data(length)
        c = Data(length * 2)

    @register(b'ddd\x00eeeefffghiXXXjk', b'\x00fffXq', b'a\x00bfffcXXdXXX')
    class DataBasedOnPattern(Packet):
        __bisturi__ = conf()
        a = Data(until_marker=b'\0', include_delimiter=True)
        b = Data(until_marker=b'fff')
        c = Data(until_marker=_re.compile(b'X+|$'), include_delimiter=True)
        d = Data(until_marker=_re.compile(b'X+|$'))

    @register(b'ab\x00eeee', b'\x00', b'abc\x00zz')
    class DataWithSearchLimit(Packet):
        __bisturi__ = conf(search_buffer_length=4)
        a = Data(until_marker=b'\0')
        b = Data(until_marker=EOS, include_delimiter=False)

    @register(b'ab;c;;', b';;x', b'abc;defg;h')
    class DataNotConsumingDelimiter(Packet):
        __bisturi__ = conf()
        a = Data(until_marker=b';', consume_delimiter=False)
        sep = Data(1, default=b';')
        b = Data(until_marker=_re.compile(b';+'), consume_delimiter=False)
        rest = Data(until_marker=EOS)

    @register(b'\x01a', b'\x02ab', b'\x01abc', b'\xffa', b'\xffabc')
    class DataBasedOnFunc(Packet):
        __bisturi__ = conf()

        def calc_size(pkt, raw, offset, **k):
            return pkt.size if pkt.size < 255 else len(raw) - offset

        size = Int(1)
        payload = Data(calc_size)
        tail = Data(
            lambda pkt, raw, offset, **k: min(1,
                                              len(raw) - offset),
            default=b''
        )

    # ---- 05 Bits ---------------------------------------------------------
    @register(b'\x00\x12\x00\x00\x00\x07\xab', b'\xff\xff\xff\xff\xff\xff\xff')
    class BitsExample(Packet):
        __bisturi__ = conf()
        fragment_offset = Bits(12)
        flags1 = Bits(4, default=3)
        i = Int()
        flags3 = Bits(4)
        flags4 = Bits(4, default=9)

    @register(b'\x45\x00\x00\x14\x12\x34\xa0\x01abcd', b'\x00' * 12)
    class BitsIPLike(Packet):
        __bisturi__ = conf()
        version = Bits(4, default=4)
        header_length = Bits(4, default=5)
        type_of_service = Int(1)
        total_length = Int(2)
        identification = Int(2)
        fragment_offset = Bits(13)
        flags = Bits(3)
        others = Data(4)

    # ---- 06 Ref ----------------------------------------------------------
    @register(b'\x00\x01\x02\x03\x04\x05')
    class MAC(Packet):
        __bisturi__ = conf()
        oui = Data(3)
        nic = Data(3)

    @register(
        b'\x00\x01\x01\x00\x00\x01\x00\x01\x01\x00\x00\x02\x05hello',
        b'\x00\x01\x01\x00\x00\x02\x00\x01\x01\x00\x00\x01\x05world'
    )
    class Ethernet(Packet):
        __bisturi__ = conf()
        destination = MAC
        source = MAC()
        size = Int(1)
        payload = Data(
            lambda pkt, raw, offset, **k: pkt.size
            if pkt.size <= 150 else len(raw) - offset
        )

    @register(b'\x00\x01\x01\x00\x00\x01\x00\x01\x01\x00\x00\x02\x02hi')
    class EthernetWithDefaults(Packet):
        __bisturi__ = conf()
        destination = Ref(MAC(nic=b'\xff\xff\x01'))
        source = Ref(MAC(nic=b'\xff\xff\x02'))
        size = Int(1)
        payload = Data(size)

    @register(b'\x00\x01\x01\x00\x00\x01\x00\x01\x01\x00\x00\x02\x02hi\x09')
    class Frame(Packet):
        __bisturi__ = conf()
        address = Ref(EthernetWithDefaults, embed=True)
        crc = Int(1)

    @register(b'\x01\x02')
    class Point(Packet):
        __bisturi__ = conf()
        x = Int(1)
        y = Int(1)

    @register(b'\x01\x02\x03\x04\x05\x06')
    class Line(Packet):
        __bisturi__ = conf()
        begin = Ref(Point(x=1, y=2))  # prototype is used as the default
        end = Ref(Point)
        extra = Ref(lambda **k: Point(), default=Point(y=7))

    @register(b'\x01\x02\x03')
    class Point3D(Packet):
        __bisturi__ = conf()
        point_2d = Ref(Point(x=1, y=2), embed=True)
        z = Int(1)

    # ---- 07 dynamic ------------------------------------------------------
    @register(b'\x0bexample.com', b'\x00')
    class DomainName(Packet):
        __bisturi__ = conf()
        length = Int(1)
        name = Data(length)

    @register(
        b'\x01\x01\x02\x03\x04',
        b'\x04\x01\x02\x03\x04\x05\x06\x07\x08ABCDEFGH',
        b'\x03\x0bexample.com'
    )
    class SOCKS(Packet):
        __bisturi__ = conf()
        type = Int(1, default=0x01)
        address = Ref(
            type.chooses(
                {
                    0x01: Data(4),  # IP v4
                    0x04: Data(16),  # IP v6
                    0x03: DomainName(),  # domain name
                }
            ),
            default=b'\x00\x00\x00\x00'
        )

    @register(b'\x01\x07', b'\x02\x01\x02', b'\x03abc\x00')
    class RefToVariableField(Packet):
        __bisturi__ = conf()
        t = Int(1, default=1)
        v = Ref(
            lambda pkt, **k: Int(1) if pkt.t == 1 else
            (Int(2) if pkt.t == 2 else Data(until_marker=_re.compile(b'\0|$'))),
            default=5
        )
        w = Ref(lambda **k: Int(3, signed=True), default=-1)

    # ---- 08 sequences ----------------------------------------------------
    @register(b'\x01\x02ab', b'\x00\x00')
    class TypeLenValue(Packet):
        __bisturi__ = conf()
        type = Int(1)
        length = Int(1)
        value = Data(length)

    @register(b'\x02\x01\x02ab\x04\x03abc', b'\x01\x01\x02ab', b'\x00')
    class AttributesCounted(Packet):
        __bisturi__ = conf()
        count = Int(1)
        attributes = Ref(TypeLenValue).repeated(count)

    @register(b'\x01\x02ab\x04\x03abc\x00\x00', b'\x02\x01a\x00\x00', b'\x00\x00')
    class AttributesUntil(Packet):
        __bisturi__ = conf()
        attributes = Ref(TypeLenValue).repeated(
            until=lambda pkt, **k: pkt.attributes[-1].type == 0
        )

    @register(b'\x00', b'\x01\x01\x02ab\x04\x03abc\x00\x00')
    class AttributesWhenUntil(Packet):
        __bisturi__ = conf()
        has_attributes = Int(1)
        attributes = Ref(TypeLenValue).repeated(
            when=lambda pkt, **k: pkt.has_attributes,
            until=lambda pkt, **k: pkt.attributes[-1].type == 0
        )

    @register(b'\x01\x01\x02ab\x04\x03abc', b'\x00')
    class AttributesWhenCount(Packet):
        __bisturi__ = conf()
        has_attributes = Int(1)
        attributes = Ref(TypeLenValue).repeated(
            count=2, when=lambda pkt, **k: pkt.has_attributes
        )

    @register(b'\x01\x02ab\x04\x03abc\xff\xff\xff\xff', b'\x00\x00abcd')
    class AttributesUntilOffset(Packet):
        __bisturi__ = conf()
        attributes = Ref(TypeLenValue).repeated(
            until=lambda raw, offset, **k: offset >= (len(raw) - 4)
        )
        checksum = Int(4)

    @register(b'\x01\x00\x00\x00\x04\x07\x01', b'\x00\x00')
    class Options(Packet):
        __bisturi__ = conf()
        type = Int(1)
        num = Int(4).when(lambda pkt, **k: pkt.type != 0)
        opt = Int(1).when(type != 0)
        ext = Data(1).when(type, default=b'D')

    @register(b'\x01\x02\x00', b'\x02\x01\x02\x01\x04\x00', b'\x00')
    class Box(Packet):
        __bisturi__ = conf()

        class _unused:
            pass

        bags = Int(1).repeated(
            until=lambda pkt, **k: pkt.bags[-1] == 0, default=[0]
        )

    @register(
        b'\x01A\x00\x02BC\x00.....\x01A\x00...\x02BC\x00',
        b'\x00\x00....\x00.....\x00'
    )
    class Room(Packet):
        __bisturi__ = conf()
        tight = Ref(Box).repeated(2, default=[Box(bags=[0]), Box(bags=[0])])
        no_so_tight = Ref(Box).repeated(
            2, aligned=6, default=[Box(bags=[0]), Box(bags=[0])]
        )

    # ---- 09 callables / 15 deferred ---------------------------------------
    @register(b'\x01\x02\x03', b'\xff\x00\x80')
    class AllFixed(Packet):
        __bisturi__ = conf()
        num = Int(byte_count=1)
        data = Data(byte_count=1)
        bits = Bits(bit_count=8)
        seq = Int(byte_count=1).repeated(count=0)

    @register(b'\x01ABC\x01\x02\x03', b'\x02ABCDEF\x01\x02\x03\x04\x05\x06', b'\x00')
    class AllVariable(Packet):
        __bisturi__ = conf()
        triplet = Int(byte_count=1)
        data = Data(byte_count=triplet * 3)
        seq = Int(byte_count=1).repeated(count=triplet * 3)

    @register(b'\x01\x02\x01\x02', b'\x02\x03\x01\x02\x03\x04\x05\x06', b'\x00\x09')
    class Matrix(Packet):
        __bisturi__ = conf()
        rows = Int(byte_count=1)
        cols = Int(byte_count=1)
        matrix = Int(byte_count=2, endianness='little').repeated(
            count=rows * cols
        )
        padding = Data(8 - ((rows * cols) % 8))

    @register(b'v002AB', b'xyz1beef', b'abcd')
    class Magic(Packet):
        __bisturi__ = conf()
        magic = Data(4, default=b'v002')
        v2_only_field = Data(2).when(magic == b'v002')
        hidden_field = Data(4).when(
            (magic[:3] == b'xyz') & (magic[3] != b'\x00')
        )

    @register(
        b'\x01\x00\x01\x02\x03\x00',
        b'\x02AABB\x01\x02\x03\x04\x01\x01\x01\x01\x00'
    )
    class VariableUsingCallable(Packet):
        __bisturi__ = conf()
        amount = Int(byte_count=1)
        data = Data(byte_count=lambda pkt, **k: pkt.amount * 2)
        seq = Int(byte_count=1).repeated(count=lambda pkt, **k: pkt.amount * 2)
        seq2 = Int(byte_count=1).repeated(until=lambda pkt, **k: pkt.seq2[-1] == 0)

    @register(b'AA')
    class Lower(Packet):
        __bisturi__ = conf()
        data = Data(byte_count=lambda root, **k: getattr(root, 'amount', 2))

    @register(b'\x02AA', b'\x00')
    class Higher(Packet):
        __bisturi__ = conf()
        amount = Int(byte_count=1)
        lower = Ref(Lower)

    @register(b'\x03ABC\x01\x02\x03OK\x00joe\x00', b'\x00ignored\x00')
    class DeferredValue(Packet):
        __bisturi__ = conf()
        number = Int(1)
        paylaod = Data(number)
        elemens = Int(1).repeated(number)
        msg = Data(until_marker=b'\x00').when(number)
        author = Data(until_marker=b'\x00').when(msg)

    @register(b'\xffABCHELO', b'\xbe\xefABbeef', b'\x00\x01\x02\x03')
    class SequenceExpressions(Packet):
        __bisturi__ = conf()
        items = Int(1).repeated(4)
        extra_data = Data(4).when(items[0] == 0xff)
        hidden_data = Data(4).when(items[:2] == [0xbe, 0xef])
        counted = Int(1).repeated(items.__len__() - 4)

    @register(b'\x01\x02:AB', b'\x06\x02AABBBB')
    class ChooseByPosition(Packet):
        __bisturi__ = conf()
        a = Int(1)
        b = Int(1)
        extra = Data(byte_count=1).when((a == 1).chooses(False, True))
        mindata = Data(byte_count=(a < b).chooses([b, a]))
        truncated = Data(byte_count=(a > 4).chooses({True: 4, False: a}))

    @register(b'small\x00AB', b'large\x00ABCD')
    class ChooseByKeyword(Packet):
        __bisturi__ = conf()
        size_type = Data(until_marker=b'\x00', default=b'small')
        data = Data(
            byte_count=size_type.chooses(small=2, large=4, extra_large=8)
        )

    @register(b'\x05\x03' + b'x' * 40, b'\x00\x00' + b'y' * 40, b'\x09\x02' + b'z' * 60)
    class Operators(Packet):
        __bisturi__ = conf()
        a = Int(1)
        b = Int(1)
        d1 = Data((a >> 1) + (b & 3))
        d2 = Data(-(-a) % 4)
        d3 = Data((a**2) % 7)
        d4 = Data(a // 2)
        d5 = Data((a | 1) ^ 1)
        d6 = Data((~a) & 3)
        d7 = Data(10 - (a % 8))
        d8 = Data((1 << (b % 3)) * (2 - (a >= b).chooses(0, 1)))
        d9 = Data((a > 2).if_true_then_else(3, 1))
        d10 = Data((a <= b).chooses(1, 2) + (a != b).chooses(0, 1) +
                   (a > b).chooses(0, 1) + (a < b).chooses(0, 1))
        d11 = Data(1).when(a / 2 == 2.5)

    # ---- 10 custom field ---------------------------------------------------
    class GZip(Field):
        def __init__(self, byte_count, compress_level=0, default=b'', **k):
            Field.__init__(self)
            self.default = default
            self.compress_level = compress_level
            self.byte_count = byte_count

        def unpack(self, pkt, raw, offset=0, **k):
            if isinstance(self.byte_count, int):
                byte_count = self.byte_count
            else:
                byte_count = getattr(pkt, self.byte_count.field_name)
            compressed_data = raw[offset:offset + byte_count]
            setattr(pkt, self.field_name, zlib.decompress(compressed_data))
            return offset + byte_count

        def pack(self, pkt, fragments, **k):
            decompressed_data = getattr(pkt, self.field_name)
            if isinstance(self.compress_level, int):
                compress_level = self.compress_level
            else:
                compress_level = getattr(pkt, self.compress_level.field_name)
            fragments.append(zlib.compress(decompressed_data, compress_level))
            return fragments

    @register(b'\x0b\x09x\xdaKJ,\x02\x00\x02]\x016')
    class Compressed(Packet):
        __bisturi__ = conf()
        length = Int(1)
        level = Int(1)
        data = GZip(byte_count=length, compress_level=level)

    # ---- 11 positions and alignments ---------------------------------------
    @register(b'\x04XXXABCD', b'\x01ABCD')
    class Folder(Packet):
        __bisturi__ = conf()
        offset_of_file = Int(1)
        file_data = Data(4).at(offset_of_file)

    @register(b'\x04XXXABCDX', b'\x09XXXABCDXefgh')
    class FolderOverlap(Packet):
        __bisturi__ = conf()
        offset_of_file = Int(1)
        payload = Data(8)
        file_data = Data(4).at(offset_of_file)

    @register(b'xxABCD')
    class Vec(Packet):
        __bisturi__ = conf()
        data = Data(4).at(2)

    @register(b'xxABCDyyEFGH')
    class Tensor(Packet):
        __bisturi__ = conf()
        vecs = Ref(Vec).repeated(2)

    @register(b'\x01A', b'\x04ABCD')
    class Opt(Packet):
        __bisturi__ = conf()
        len = Int(1)
        data = Data(len)

    @register(b'\x02...\x01A\x04ABCDABCD')
    class DatagramShift(Packet):
        __bisturi__ = conf()
        count_options = Int(1)
        options = Ref(Opt).repeated(count_options).shift(3)
        checksum = Int(4)

    @register(b'ABCD\xff')
    class Backwards(Packet):
        __bisturi__ = conf()
        i = Int(1).at(4)
        d = Data(4).shift(-4 - 1)

    @register(b'\x02...\x01A\x04ABCDABCD')
    class DatagramAligned(Packet):
        __bisturi__ = conf()
        count_options = Int(1)
        options = Ref(Opt).repeated(count_options).aligned(4)
        checksum = Int(4)

    @register(b'\x02...\x01A..\x04ABCDABCD')
    class DatagramElementsAligned(Packet):
        __bisturi__ = conf()
        count_options = Int(1)
        options = Ref(Opt).repeated(count_options, aligned=4)
        checksum = Int(4)

    @register(b'\x02...\x01A..\x04ABCD...ABCD')
    class DatagramAlignConf(Packet):
        __bisturi__ = conf(align=4)
        count_options = Int(1)
        options = Ref(Opt).repeated(count_options)
        checksum = Int(4)

    @register(b'\x00\x01..\x00\x02')
    class PointAlignedBegins(Packet):
        __bisturi__ = conf()
        x = Int(2)
        y = Int(2).aligned(4, 'begins')

    @register(b'f\x00\x00\x01\x00\x02', b'abc\x00\x00\x01....\x00\x02')
    class NamedPointBegins(Packet):
        __bisturi__ = conf()
        name = Data(until_marker=b'\0')
        point = Ref(PointAlignedBegins)

    @register(b'\x00\x01..\x00\x02.\x05..\x09', b'\x00\x02..\x00\x02.\x05.\x09')
    class PointAlignedInner(Packet):
        __bisturi__ = conf()
        x = Int(2)
        y = Int(2).aligned(4, 'innermost-pkt')
        z = Int(1).at(1, 'current-offset')
        w = Int(1).at(lambda pkt, **k: 9 + (pkt.x & 1), 'begins')

    @register(b'f\x00\x00\x01..\x00\x02.\x05\x09')
    class NamedPointInner(Packet):
        __bisturi__ = conf()
        name = Data(until_marker=b'\0')
        point = Ref(PointAlignedInner)

    @register(b'\x03ABC', b'\x04ABCD...')
    class DatagramTail(Packet):
        __bisturi__ = conf()
        size = Int(1)
        data = Data(size)
        tail = Em().aligned(4)

    # ---- 14 descriptors ------------------------------------------------------
    @register(b'\x02ab', b'\x00')
    class AutoLengthExample(Packet):
        __bisturi__ = conf()
        length = Int(1).describe(AutoLength("a"))
        a = Data(length)

    @register(b'\x10ab', b'\x00')
    class AutoExample(Packet):
        __bisturi__ = conf()
        length_in_bits = Int(1).describe(Auto(lambda pkt: len(pkt.a) * 8))
        a = Data(length_in_bits // 8)

    @register(b'zz\x02\x00\x07\x08\x00\x00\x03abc......\x04', b'zz\x00\x00\x00\x00\x00......\x00')
    class AutoSeveral(Packet):
        __bisturi__ = conf()
        magic = Data(2, default=b'zz')
        count = Int(2, endianness='little').describe(AutoLength("items"))
        items = Int(1).repeated(count)
        size = Int(3).describe(AutoLength("payload"))
        payload = Data(size)
        twice = Int(1).describe(Auto(lambda pkt: (pkt.count * 2) & 0xff)
                                ).at(6, 'current-offset')

    return out


def shape_of(cls):
    from bisturi.packet import Packet
    fields = []
    for entry in cls.get_fields():
        assert isinstance(entry, tuple) and len(entry) == 4
        n, f, p, u = entry
        assert p == f.pack and u == f.unpack
        fields.append(
            (
                n, type(f).__name__, getattr(p, '__name__', '?'),
                getattr(u, '__name__', '?'), f.is_fixed, f.struct_code,
                getattr(f, 'descriptor_name', None)
            )
        )
    own = {}
    for which in ('pack_impl', 'unpack_impl'):
        impl = cls.__dict__.get(which)
        own[which] = None if impl is None else (
            getattr(impl, '__name__', '?'), impl is not Packet.__dict__[which],
            getattr(impl, '__module__', '?')
        )
    descriptors = sorted(
        (k, type(v).__name__) for k, v in cls.__dict__.items()
        if hasattr(v, '__get__') and hasattr(v, '__set__') and
        not k.startswith('__') and type(v).__name__ != 'member_descriptor'
    )
    sync = (
        [m.__name__ for m in cls.get_sync_before_pack_methods()],
        [m.__name__ for m in cls.get_sync_after_unpack_methods()]
    )
    conf = {
        k: v
        for k, v in cls.__bisturi__.items() if k != 'original_fields_in_class'
    }
    original = [n for n, _ in cls.__bisturi__['original_fields_in_class']]
    return 'slots=%r fields=%r impl=%r descriptors=%r sync=%r conf=%r original=%r mro=%r' % (
        list(cls.__slots__), fields, own, descriptors, sync, conf, original,
        [c.__name__ for c in cls.__mro__]
    )


def mutate(rng, raw):
    kind = rng.randrange(8)
    b = bytearray(raw)
    if kind == 0 and b:  # truncate
        return bytes(b[:rng.randrange(len(b))])
    if kind == 1 and b:  # flip some bytes
        for _ in range(rng.randrange(1, 4)):
            b[rng.randrange(len(b))] = rng.randrange(256)
        return bytes(b)
    if kind == 2:  # append a random tail
        return bytes(b) + bytes(
            rng.randrange(256) for _ in range(rng.randrange(1, 9))
        )
    if kind == 3 and b:  # small change of one byte
        i = rng.randrange(len(b))
        b[i] = (b[i] + rng.choice((1, -1, 2, 128))) % 256
        return bytes(b)
    if kind == 4:  # insert
        i = rng.randrange(len(b) + 1)
        return bytes(b[:i]) + bytes([rng.randrange(256)]) + bytes(b[i:])
    if kind == 5 and len(b) > 1:  # delete
        i = rng.randrange(len(b))
        del b[i]
        return bytes(b)
    if kind == 6:  # pure noise
        return bytes(rng.randrange(256) for _ in range(rng.randrange(0, 40)))
    return bytes(b)


JUNK = [
    0, 1, 2, 3, 7, 127, 128, 255, 256, 65535, 65536, 2**24 - 1, 2**24, 2**31,
    2**32 - 1, 2**32, 2**63, 2**64 - 1, 2**64, 2**128, -1, -2, -128, -129,
    -2**15, -2**31, -2**63, -2**127, True, False, Color.RED, Color.GREEN,
    Color.BIG, None, b'', b'a', b'ab', b'abc', b'abcd', b'\x00' * 6,
    b'x' * 300, 'text', 1.5, -2.5, [], [1, 2], [0], [255, 256], [b'a'],
    [True, Color.RED], (1, 2)
]


def fresh(v):
    ''' A copy without sharing of a junk value. '''
    if isinstance(v, list):
        return [fresh(x) for x in v]
    return v


def public_names(cls):
    names = []
    for n, f, _, _ in cls.get_fields():
        n = getattr(f, 'descriptor_name', None) or n
        if not n.startswith('_'):
            names.append(n)
    return names


def section_packets(rng, n_inputs, n_assign):
    for gen in (True, False):
        classes = make_classes(gen)
        emit('== mode generated=%r classes=%d' % (gen, len(classes)))
        for cls, seeds in classes:
            name = cls.__name__
            emit('== class', name, 'generated=%r' % gen)
            emit('shape', shape_of(cls))

            # defaults
            kind, pkt = attempt(cls)
            emit('default', kind, dump(pkt) if kind == 'ok' else pkt)
            if kind == 'ok':
                emit('default-pack', pack_outcome(pkt))
                emit('default-after-pack', dump(pkt))
                emit('default-repr', attempt(repr, pkt))
                emit('default-inspect', inspect_outcome(pkt))
                emit('default-eq', attempt(lambda: pkt == cls()))

            # inputs: the seeds, what the packets pack to and mutations
            pool = list(seeds)
            for s in seeds:
                r = attempt(cls.unpack, s)
                if r[0] == 'ok':
                    p = attempt(r[1].pack)
                    if p[0] == 'ok' and p[1] not in pool:
                        pool.append(p[1])
            inputs = list(pool)
            while len(inputs) < n_inputs:
                raw = rng.choice(pool)
                for _ in range(rng.randrange(1, 3)):
                    raw = mutate(rng, raw)
                inputs.append(raw)

            valid_values = {n: [] for n in public_names(cls)}
            for raw in inputs:
                how = rng.randrange(10)
                if how == 0:
                    offset = rng.randrange(0, 4)
                    data = bytes(rng.randrange(256)
                                 for _ in range(offset)) + raw
                    kind, pkt = attempt(cls.unpack, data, offset)
                    tag = 'unpack@%d' % offset
                elif how == 1:
                    kind, pkt = attempt(cls.unpack, raw, silent=True)
                    tag = 'unpack-silent'
                else:
                    kind, pkt = attempt(cls.unpack, raw)
                    tag = 'unpack'
                if kind == 'raise' or pkt is None:
                    emit(tag, raw.hex(), kind, pkt)
                    continue
                emit(tag, raw.hex(), 'ok', dump(pkt))
                if rng.randrange(8) == 0:
                    emit(' inspect', inspect_outcome(pkt))
                    emit(' seekable', seekable_outcome(cls, raw))
                first = pack_outcome(pkt)
                emit(' pack', first)
                emit(' after-pack', dump(pkt))
                second = pack_outcome(pkt)
                if second != first:
                    emit('INVARIANT pack twice differs', name, raw.hex())
                for n in valid_values:
                    try:
                        v = getattr(pkt, n)
                    except Exception:
                        continue
                    if len(valid_values[n]) < 30:
                        valid_values[n].append(v)

            # also the wrong type of input
            emit('unpack-str', attempt(cls.unpack, 'text'))
            emit('unpack-bytearray', attempt(cls.unpack, bytearray(b'abc')))

            # random assignments + pack
            names = public_names(cls)
            for i in range(n_assign):
                base = rng.randrange(3)
                if base == 0 or not pool:
                    kind, pkt = attempt(cls)
                else:
                    kind, pkt = attempt(cls.unpack, rng.choice(pool))
                if kind != 'ok':
                    emit('assign-base', kind, pkt)
                    continue
                ops = []
                for _ in range(rng.randrange(1, 4)):
                    n = rng.choice(names)
                    if valid_values[n] and rng.randrange(3) == 0:
                        v = rng.choice(valid_values[n])
                        if isinstance(v, list):
                            v = list(v)
                    else:
                        v = fresh(rng.choice(JUNK))
                    r = attempt(setattr, pkt, n, v)
                    ops.append('%s=%s:%s' % (n, public_dump(v), r[0]))
                emit('assign', ';'.join(ops))
                emit(' dump', dump(pkt))
                before = public_dump(pkt)
                first = pack_outcome(pkt)
                emit(' pack', first)
                emit(' after-pack', dump(pkt))
                if public_dump(pkt) != before:
                    emit('INVARIANT pack changed the values', name, before)
                if pack_outcome(pkt) != first:
                    emit('INVARIANT pack twice differs', name, before)
                if first.startswith('ok:'):
                    raw = eval(first[3:])
                    kind, again = attempt(cls.unpack, raw)
                    emit(
                        ' reunpack', kind,
                        dump(again) if kind == 'ok' else again
                    )

            # construction with keywords
            for i in range(max(3, n_assign // 10)):
                kw = {}
                for n in rng.sample(names, rng.randrange(0, len(names) + 1)):
                    if valid_values[n] and rng.randrange(2) == 0:
                        v = rng.choice(valid_values[n])
                        if isinstance(v, list):
                            v = list(v)
                    else:
                        v = fresh(rng.choice(JUNK))
                    kw[n] = v
                shown = ' '.join(
                    '%s=%s' % (k, public_dump(v)) for k, v in kw.items()
                )
                # (the constructor consumes the dictionary)
                kind, pkt = attempt(lambda: cls(**kw))
                emit('construct', shown, kind, dump(pkt) if kind == 'ok' else pkt)
                if kind == 'ok':
                    emit(' pack', pack_outcome(pkt))


# --------------------------------------------------------------------------- #


def snapshot(pkt):
    return (dump(pkt), pack_outcome(pkt), dump(pkt))


def public_snapshot(pkt):
    return (public_dump(pkt), pack_outcome(pkt))


def scalar_value(rng):
    return fresh(
        rng.choice(
            [
                0, 1, 2, 5, 200, 255, 256, -1, 70000, True, Color.GREEN, b'',
                b'q', b'qq', b'qqq', b'qqqq', b'\x00\x01\x02\x03\x04\x05',
                [], [1], [3, 0], [1, 2, 3, 4], None
            ]
        )
    )


def section_histories(rng, n_histories, n_steps):
    from bisturi.packet import Packet
    for gen in (True, False):
        classes = make_classes(gen)
        by_name = {c.__name__: (c, s) for c, s in classes}
        emit('== mode generated=%r' % gen)
        for cls, seeds in classes:
            name = cls.__name__
            names = public_names(cls)
            for h in range(n_histories):
                emit('== history', name, h, 'generated=%r' % gen)

                def new_packet():
                    how = rng.randrange(3)
                    if how == 0:
                        return attempt(cls)
                    raw = rng.choice(seeds)
                    if how == 2:
                        raw = mutate(rng, raw)
                    return attempt(cls.unpack, raw)

                live = []
                for i in range(4):
                    kind, pkt = new_packet()
                    if kind == 'ok':
                        live.append(pkt)
                # a packet of another class that may share sub packet classes
                other_cls, other_seeds = classes[rng.randrange(len(classes))]
                kind, pkt = attempt(other_cls.unpack, rng.choice(other_seeds))
                if kind == 'ok':
                    live.append(pkt)
                kind, pkt = attempt(other_cls)
                if kind == 'ok':
                    live.append(pkt)

                # the packets don't share anything from the begin
                check_no_sharing(live, name, 'begin')
                # (the snapshot packs the bystanders: that's an operation of
                # the history too, observed by the rest in the next step)
                public = [public_snapshot(p) for p in live]

                for step in range(n_steps):
                    if not live:
                        break
                    t = rng.randrange(len(live))
                    target = live[t]
                    tcls = target.__class__
                    op = rng.randrange(7)
                    if op == 0:
                        kind, pkt = new_packet()
                        emit('construct/unpack', kind, dump(pkt) if kind == 'ok' else pkt)
                        if kind == 'ok':
                            live[t] = pkt
                            public[t] = public_snapshot(pkt)
                            continue
                    elif op == 1:
                        # parse again over the same class (another packet)
                        raw = mutate(rng, rng.choice(by_name[tcls.__name__][1]))
                        kind, pkt = attempt(tcls.unpack, raw)
                        emit('unpack', raw.hex(), kind, dump(pkt) if kind == 'ok' else pkt)
                        if public_snapshot(target) != public[t]:
                            emit('INVARIANT bystander (same class) changed', name, t)
                    elif op in (2, 3):
                        n = rng.choice(public_names(tcls))
                        v = scalar_value(rng)
                        r = attempt(setattr, target, n, v)
                        emit('set', t, n, public_dump(v), r[0])
                    elif op == 4:
                        # in place mutation of a nested list / packet
                        done = False
                        for n in public_names(tcls):
                            v = attempt(getattr, target, n, None)[1]
                            if isinstance(v, list) and rng.randrange(2):
                                if v and isinstance(v[0], Packet):
                                    sub = v[rng.randrange(len(v))]
                                    sn = rng.choice(public_names(sub.__class__))
                                    r = attempt(setattr, sub, sn, scalar_value(rng))
                                    emit('mutate-sub-in-list', t, n, sn, r[0])
                                else:
                                    v.append(rng.randrange(256))
                                    emit('append', t, n)
                                done = True
                                break
                            if isinstance(v, Packet) and rng.randrange(2):
                                sn = rng.choice(public_names(v.__class__))
                                r = attempt(setattr, v, sn, scalar_value(rng))
                                emit('mutate-sub', t, n, sn, r[0])
                                done = True
                                break
                        if not done:
                            emit('mutate-nothing', t)
                    elif op == 5:
                        before = public_dump(target)
                        first = pack_outcome(target)
                        emit('pack', t, first)
                        if public_dump(target) != before:
                            emit('INVARIANT pack changed the values', name, before)
                        if pack_outcome(target) != first:
                            emit('INVARIANT pack twice differs', name, before)
                    else:
                        emit('read', t, dump(target))

                    public[t] = public_snapshot(target)
                    emit(' target', dump(target))
                    # the bystanders
                    for i, p in enumerate(live):
                        if i == t:
                            continue
                        now = public_snapshot(p)
                        if now != public[i]:
                            emit(
                                'INVARIANT bystander changed', name, i,
                                public[i], '->', now
                            )
                            public[i] = now
                    check_no_sharing(live, name, step)
                emit('final', ' | '.join(dump(p) for p in live))


def check_no_sharing(live, name, when):
    seen = {}
    for i, p in enumerate(live):
        for ident, obj in mutable_ids(p).items():
            if ident in seen and seen[ident] != i:
                emit(
                    'INVARIANT shared mutable sub-object', name, when,
                    seen[ident], i, type(obj).__name__
                )
            seen[ident] = i


def section_threads(rng, rounds):
    ''' Packets of one class parsed and serialized from several threads (on
        distinct packets) give the same than sequentially. '''
    sys.setswitchinterval(1e-6)
    for gen in (True, False):
        classes = make_classes(gen)
        for cls, seeds in classes:
            work = []
            for i in range(rounds):
                raw = rng.choice(seeds)
                if rng.randrange(3) == 0:
                    raw = mutate(rng, raw)
                work.append(raw)

            def job(raw):
                kind, pkt = attempt(cls.unpack, raw)
                if kind != 'ok':
                    return (kind, pkt)
                a = pack_outcome(pkt)
                return (kind, dump(pkt), a, pack_outcome(pkt))

            expected = [job(raw) for raw in work]
            results = [None] * len(work)
            n_threads = 6
            barrier = threading.Barrier(n_threads)

            def runner(k):
                barrier.wait()
                for i in range(len(work)):
                    j = (i + k * 7) % len(work)
                    if j % n_threads == k:
                        results[j] = job(work[j])

            threads = [
                threading.Thread(target=runner, args=(k, ))
                for k in range(n_threads)
            ]
            for t in threads:
                t.start()
            for t in threads:
                t.join()
            bad = sum(1 for e, r in zip(expected, results) if e != r)
            if bad:
                emit('INVARIANT threads differ', cls.__name__, gen, bad)
            emit(
                'threads', cls.__name__, gen,
                hashlib.sha1(repr(expected).encode()).hexdigest()
            )


# --------------------------------------------------------------------------- #


def make_auto_classes(gen):
    from bisturi.packet import Packet
    from bisturi.field import Int, Data
    from bisturi.descriptor import Auto, AutoLength

    conf = {'generate_for_pack': gen, 'generate_for_unpack': gen}

    class AL(Packet):
        __bisturi__ = dict(conf)
        length = Int(1).describe(AutoLength("a"))
        a = Data(length)

    class AB(Packet):
        __bisturi__ = dict(conf)
        length = Int(1).describe(Auto(lambda pkt: len(pkt.a) * 8))
        a = Data(length // 8)

    class A3(Packet):
        # not a struct size, not the first field, signed
        __bisturi__ = dict(conf)
        tag = Int(1, default=9)
        length = Int(3, signed=True,
                     endianness='little').describe(AutoLength("a"))
        a = Int(1).repeated(length)

    class A2(Packet):
        # two descriptors, one tracks the other
        __bisturi__ = dict(conf)
        length = Int(1).describe(AutoLength("a"))
        double = Int(2).describe(Auto(lambda pkt: pkt.length * 2))
        a = Data(length)

    return [
        (AL, 'length', 'a', 'bytes', [b'\x02ab', b'\x00', b'\x03ab', b'']),
        (AB, 'length', 'a', 'bytes', [b'\x10ab', b'\x00', b'\x18ab', b'']),
        (
            A3, 'length', 'a', 'list',
            [b'\x09\x02\x00\x00\x07\x08', b'\x01\x00\x00\x00', b'\x01\xff\xff\xff', b'\x01\x03\x00\x00\x01']
        ),
        (A2, 'length', 'a', 'bytes', [b'\x02\x00\x04ab', b'\x00\x00\x00', b'\x05\x00\x01ab']),
    ]


TRACKED = {
    'bytes': [b'', b'x', b'xyz', b'w' * 31, b'v' * 32, b'u' * 255, b'u' * 256, b't' * 300],
    'list': [[], [1], [1, 2, 3], [0] * 40, [255, 256], [5] * 300],
}
EXPLICIT = [0, 1, 3, 8, 255, 256, -1, 2**23, 2**24, 70000, True, False, Color.GREEN, Color.BIG, None, b'x', 2.0]


def auto_ops():
    ops = []
    for i in range(len(TRACKED['bytes'])):
        ops.append(('track', i))
    for i in range(len(EXPLICIT)):
        ops.append(('set', i))
    ops.append(('del', 0))
    for i in range(3):
        ops.append(('construct', i))  # without, with the keyword, with both
    for i in range(4):
        ops.append(('unpack', i))
    ops.append(('pack', 0))
    return ops


def run_auto_history(spec, history, rng_for_values):
    cls, dname, tname, kind, raws = spec
    flag = '_is_descriptor_%s_enabled' % dname
    real = '_described_%s' % dname
    pkt = cls()
    lines = []
    # what the attribute must read as, per the property
    explicit = [False, None]

    def observe(tag):
        r = attempt(getattr, pkt, dname)
        flagv = getattr(pkt, flag, '<unset>')
        realv = attempt(getattr, pkt, real)
        tracked = attempt(getattr, pkt, tname)
        lines.append(
            '%s read=%s flag=%r real=%s tracked=%s dict=%r' % (
                tag, (r[0], dump(r[1]) if r[0] == 'ok' else r[1]), flagv,
                (realv[0], dump(realv[1]) if realv[0] == 'ok' else realv[1]),
                dump(tracked[1]) if tracked[0] == 'ok' else tracked,
                hasattr(pkt, '__dict__')
            )
        )
        # C17: reads as the explicit value or as the computed one
        if r[0] == 'ok' and tracked[0] == 'ok' and dname == 'length' and cls.__name__ != 'AB':
            if explicit[0]:
                if not (r[1] is explicit[1] or r[1] == explicit[1]):
                    lines.append('INVARIANT explicit value not read back %r %r' % (r[1], explicit[1]))
            else:
                try:
                    expected = len(tracked[1])
                except TypeError:
                    expected = None
                if expected is not None and r[1] != expected:
                    lines.append('INVARIANT computed value not read %r %r' % (r[1], expected))
        return r

    observe('new')
    for op, arg in history:
        if op == 'track':
            v = fresh(TRACKED[kind][arg % len(TRACKED[kind])])
            r = attempt(setattr, pkt, tname, v)
            observe('track(%s)->%s' % (public_dump(v)[:40], r[0]))
        elif op == 'set':
            v = EXPLICIT[arg]
            r = attempt(setattr, pkt, dname, v)
            if r[0] == 'ok':
                explicit[:] = [True, v]
            observe('set(%s)->%s' % (public_dump(v), r[0]))
        elif op == 'del':
            r = attempt(delattr, pkt, dname)
            if r[0] == 'ok':
                explicit[:] = [False, None]
            observe('del->%s' % r[0])
        elif op == 'construct':
            kw = {}
            if arg in (1, 2):
                kw[dname] = rng_for_values.choice(EXPLICIT[:6])
            if arg in (0, 2):
                kw[tname] = fresh(rng_for_values.choice(TRACKED[kind][:5]))
            shown = ' '.join('%s=%s' % (k, public_dump(v)) for k, v in sorted(kw.items()))
            had = dname in kw
            hadv = kw.get(dname)
            r = attempt(lambda: cls(**kw))
            if r[0] == 'ok':
                pkt = r[1]
                explicit[:] = [had, hadv]
            observe('construct(%s)->%s' % (shown, r[0]))
        elif op == 'unpack':
            raw = raws[arg % len(raws)]
            r = attempt(cls.unpack, raw)
            if r[0] == 'ok':
                pkt = r[1]
                explicit[:] = [False, None]
                observe('unpack(%s)->ok' % raw.hex())
            else:
                lines.append('unpack(%s)->%s' % (raw.hex(), r[1]))
        elif op == 'pack':
            before = attempt(getattr, pkt, dname)
            r = attempt(pkt.pack)
            lines.append('pack->%s:%r' % r)
            after = observe('after-pack')
            if before != after:
                lines.append('INVARIANT pack changed what the attribute reads as')
            if r[0] == 'ok' and before[0] == 'ok':
                # C17: exactly what the attribute reads as is serialized
                # (length is an Int(1) first field or an Int(3) little
                # signed second field)
                if cls.__name__ == 'A3':
                    got = int.from_bytes(r[1][1:4], 'little', signed=True)
                else:
                    got = r[1][0]
                if got != before[1]:
                    lines.append('INVARIANT packed %r but reads %r' % (got, before[1]))
                again = attempt(pkt.pack)
                if again != r:
                    lines.append('INVARIANT pack twice differs')
    return lines


def section_auto(rng, exhaustive_len, n_random, random_len):
    ops = auto_ops()
    # a reduced alphabet for the exhaustive part
    small = [
        ('track', 1), ('track', 2), ('track', 7), ('set', 2), ('set', 5),
        ('set', 11), ('del', 0), ('construct', 0), ('construct', 1),
        ('construct', 2), ('unpack', 0), ('unpack', 2), ('pack', 0)
    ]
    for gen in (True, False):
        for spec in make_auto_classes(gen):
            cls = spec[0]
            emit('== auto', cls.__name__, 'generated=%r' % gen)
            emit('shape', shape_of(cls))
            count = 0
            for n in range(1, exhaustive_len + 1):
                for history in itertools.product(small, repeat=n):
                    lines = run_auto_history(spec, history, random.Random(count))
                    count += 1
                    digest = hashlib.sha1('\n'.join(lines).encode()).hexdigest()[:16]
                    bad = [l for l in lines if l.startswith('INVARIANT')]
                    for l in bad:
                        emit(l, cls.__name__, history)
                    if n <= 2:
                        for l in lines:
                            emit(' ', l)
                    emit('exh', ','.join('%s%d' % o for o in history), digest)
            for i in range(n_random):
                history = [rng.choice(ops) for _ in range(rng.randrange(1, random_len))]
                lines = run_auto_history(spec, history, random.Random(i))
                for l in lines:
                    if l.startswith('INVARIANT'):
                        emit(l, cls.__name__, history)
                if i < 50:
                    for l in lines:
                        emit(' ', l)
                emit(
                    'rnd', i,
                    hashlib.sha1('\n'.join(lines).encode()).hexdigest()[:16]
                )


# --------------------------------------------------------------------------- #


class ModelFragments:
    ''' Reference model of the property C11: a sparse array of bytes. '''
    def __init__(self, fill=b'.'):
        self.bytes = {}
        self.cursor = 0
        self.extent = 0
        self.fill = fill

    def insert(self, position, chunk):
        n = len(chunk)
        if n == 0:
            self.cursor = position
            self.extent = max(self.extent, position)
            return True
        if any((position + i) in self.bytes for i in range(n)):
            return False
        for i in range(n):
            self.bytes[position + i] = chunk[i:i + 1]
        self.cursor = position + n
        self.extent = max(self.extent, position + n)
        return True

    def tobytes(self):
        return b''.join(self.bytes.get(i, self.fill) for i in range(self.extent))


def section_fragments(rng, n_histories):
    from bisturi.fragments import Fragments
    alphabet = b'ABCDEFGH'
    block = hashlib.sha1()
    block_lines = []
    for h in range(n_histories):
        fill = b'.' if rng.randrange(8) else b'#'
        f = Fragments() if fill == b'.' else Fragments(fill=fill)
        m = ModelFragments(fill)
        rec = []
        for step in range(rng.randrange(1, 10)):
            op = rng.randrange(10)

            def chunk():
                n = rng.choice((0, 0, 1, 1, 2, 3, 4, 6))
                return bytes(rng.choice(alphabet) for _ in range(n))

            if op <= 3:
                pos = rng.randrange(0, 26)
                c = chunk()
                try:
                    f.insert(pos, c)
                    res = 'ok'
                except Exception as e:
                    res = 'raise %s %r' % (isinstance(e, Exception), str(e))
                ok = m.insert(pos, c)
                if ok != (res == 'ok'):
                    rec.append('INVARIANT insert outcome vs model')
                rec.append('i%d%s:%s' % (pos, c.decode(), res))
            elif op <= 5:
                c = chunk()
                try:
                    f.append(c)
                    res = 'ok'
                except Exception as e:
                    res = 'raise %r' % str(e)
                ok = m.insert(m.cursor, c)
                if ok != (res == 'ok'):
                    rec.append('INVARIANT append outcome vs model')
                rec.append('a%s:%s' % (c.decode(), res))
            elif op == 6:
                cs = [chunk() for _ in range(rng.randrange(0, 4))]
                try:
                    f.extend(cs)
                    res = 'ok'
                except Exception as e:
                    res = 'raise %r' % str(e)
                ok = True
                for c in cs:
                    ok = m.insert(m.cursor, c)
                    if not ok:
                        break
                if ok != (res == 'ok'):
                    rec.append('INVARIANT extend outcome vs model')
                rec.append('e%s:%s' % (b','.join(cs).decode(), res))
            elif op == 7:
                # the fields move the cursor by hand (Move, Sequence)
                pos = rng.randrange(0, 26)
                f.current_offset = pos
                m.cursor = pos
                rec.append('c%d' % pos)
            elif op == 8:
                rec.append('r%s' % repr(f))
            else:
                rec.append('q%r%r' % (f == f.tobytes(), f == b'zz'))
            # state after each operation
            if f.current_offset != m.cursor:
                rec.append('INVARIANT cursor vs model')
            rec.append(
                '%r|%r|%d|%d' % (
                    sorted(f.fragments.items()), f.begin_of_fragments,
                    f.current_offset, f.end_offset
                )
            )
        out = f.tobytes()
        if out != m.tobytes():
            rec.append('INVARIANT tobytes vs model %r %r' % (out, m.tobytes()))
        if out != f.tobytes():
            rec.append('INVARIANT tobytes twice')
        rec.append('=%r' % out)
        line = ' '.join(rec)
        if 'INVARIANT' in line:
            emit('INVARIANT', h, line)
        if h < 2000:
            emit('frag', h, line)
        block.update(line.encode())
        if h % 1000 == 999:
            emit('frag-block', h, block.hexdigest())
            block = hashlib.sha1()

    # out of the domain of the property (negative and huge positions, other
    # fill strings): only the differential
    for h in range(max(2000, n_histories // 20)):
        f = Fragments(fill=rng.choice((b'.', b'', b'ab')))
        rec = []
        for step in range(rng.randrange(1, 9)):
            pos = rng.choice((-7, -3, -1, 0, 1, 2, 3, 5, 8, 2**40, True))
            c = bytes(rng.choice(alphabet) for _ in range(rng.randrange(0, 5)))
            how = rng.randrange(4)
            if how == 0:
                f.current_offset = pos
                r = ('ok', None)
            elif how == 1:
                r = attempt(f.append, c)
            else:
                r = attempt(f.insert, pos, c)
            rec.append(
                '%r%r:%s %r|%r|%r|%r' % (
                    pos, c, r[0] if r[0] == 'ok' else r[1],
                    sorted(f.fragments.items()), f.begin_of_fragments,
                    f.current_offset, f.end_offset
                )
            )
        if f.end_offset < 10000:
            rec.append(repr(attempt(f.tobytes)))
        rec.append(repr(f))
        emit('fragx', h, ' '.join(rec))

    # the subclass used by the pattern matching
    from bisturi.fragments import FragmentsOfRegexps
    for h in range(2000):
        f = FragmentsOfRegexps()
        rec = []
        for step in range(rng.randrange(1, 8)):
            n = rng.choice((0, 1, 2, 3))
            c = bytes(rng.choice(b'AB.*[') for _ in range(n))
            lit = bool(rng.randrange(2))
            pos = rng.randrange(0, 16)
            if rng.randrange(2):
                r = attempt(f.insert, pos, c, lit)
            else:
                r = attempt(f.append, c, lit)
            rec.append('%d%r%r:%s' % (pos, c, lit, r[0] if r[0] == 'ok' else r[1]))
        rec.append(repr(attempt(f.assemble_regexp)))
        rec.append(repr(f.tobytes()))
        emit('fragre', h, ' '.join(rec))


# --------------------------------------------------------------------------- #


def section_docs(docs_dir):
    ''' Run every example of the docs (doctest syntax) and write down what
        each one prints or raises. '''
    import doctest
    import io
    import contextlib
    parser = doctest.DocTestParser()
    for fname in sorted(os.listdir(docs_dir)):
        if not fname.endswith('.md'):
            continue
        text = open(os.path.join(docs_dir, fname), encoding='utf-8').read()
        # the examples commented out (<!-- ... -->) are examples too
        examples = parser.get_examples(text, fname)
        globs = {'__name__': '__docs__'}
        emit('== doc', fname, len(examples))
        for i, ex in enumerate(examples):
            buf = io.StringIO()
            try:
                with contextlib.redirect_stdout(buf):
                    code = compile(ex.source, '<doc %s[%d]>' % (fname, i), 'single')
                    exec(code, globs)
                outcome = 'ok'
            except BaseException as e:
                tname = type(e).__name__
                if tname == 'CollisionError':
                    tname = 'Exception'
                outcome = 'raise %s: %s' % (tname, str(e).split('\n')[0])
            got = buf.getvalue()
            got = re.sub(r' at 0x[0-9a-f]+', ' at 0x?', got)
            emit('ex', fname, i, ex.lineno, outcome, repr(got))


# --------------------------------------------------------------------------- #
# cache: real processes. The child mode defines one class named K with one of
# several declarations and checks that it behaves as declared.
# --------------------------------------------------------------------------- #

def _variant_A(Packet, Int, Data, conf):
    class K(Packet):
        __bisturi__ = conf
        a = Int(1)
        b = Int(2)

    return K


def _variant_B(Packet, Int, Data, conf):
    class K(Packet):
        __bisturi__ = conf
        a = Int(2)
        b = Int(1)

    return K


def _variant_C(Packet, Int, Data, conf):
    class K(Packet):
        __bisturi__ = conf
        a = Int(1)
        b = Int(2, endianness='little')

    return K


def _variant_D(Packet, Int, Data, conf):
    class K(Packet):
        __bisturi__ = conf
        a = Int(3)
        b = Data(a)

    return K


def _variant_E(Packet, Int, Data, conf):
    class K(Packet):
        __bisturi__ = conf
        a = Int(1)
        b = Int(4)

    return K


def _variant_F(Packet, Int, Data, conf):
    class K(Packet):
        __bisturi__ = conf
        a = Int(4)
        b = Int(1)

    return K


# A and B (and E and F): different declarations whose generated sources have
# exactly the same size (and the same field names, the same comments, ...)
VARIANTS = {
    'A': (_variant_A, b'\x01\x00\x02', (1, 2)),
    'B': (_variant_B, b'\x00\x01\x02', (1, 2)),
    'C': (_variant_C, b'\x01\x02\x00', (1, 2)),
    'D': (_variant_D, b'\x00\x00\x02xy', (2, b'xy')),
    'E': (_variant_E, b'\x01\x00\x00\x00\x02', (1, 2)),
    'F': (_variant_F, b'\x00\x00\x00\x01\x02', (1, 2)),
}


def define_variant(variant, **conf):
    ''' Define the class K (always the same name, always from this file)
        with the fields of the variant. '''
    from bisturi.packet import Packet
    from bisturi.field import Int, Data
    return VARIANTS[variant][0](Packet, Int, Data, conf)


def check_variant(cls, variant):
    _, raw, (a, b) = VARIANTS[variant]

    def check(condition, *what):
        # (not an assert: the children may run with -O)
        if not condition:
            raise RuntimeError('class K of variant %s misbehaves: %r' % (variant, what))

    p = cls.unpack(raw)
    check((p.a, p.b) == (a, b), p.a, p.b)
    check(p.pack() == raw, p.pack())
    q = cls(a=a, b=b)
    check(q.pack() == raw, q.pack())
    check('pack_impl' in cls.__dict__ and 'unpack_impl' in cls.__dict__, 'generic code')
    return True


def child_main(argv):
    ''' difftest.py --child <mode> <variants> <rounds> '''
    mode, variants, rounds = argv[0], argv[1].split(','), int(argv[2])
    if mode == 'kill-in-write':
        # die (SIGKILL) in the middle of the write of the generated module
        import builtins
        real_open = builtins.open

        def dying_open(path, flags='r', *a, **k):
            f = real_open(path, flags, *a, **k)
            if str(path).endswith('.tmp') or 'K.py' in str(path) and ('w' in flags or 'x' in flags):
                real_write = f.write

                def write(data):
                    real_write(data[:len(data) // 2])
                    f.flush()
                    os.kill(os.getpid(), signal.SIGKILL)

                f = _Proxy(f, write)
            return f

        builtins.open = dying_open
        define_variant(variants[0])
        print('NOT-KILLED')
        return 3
    if mode == 'kill-before-replace':
        def dying_replace(*a, **k):
            os.kill(os.getpid(), signal.SIGKILL)

        os.replace = dying_replace
        define_variant(variants[0])
        print('NOT-KILLED')
        return 3

    if mode == 'threads':
        # several threads of one process define same-named classes at once
        sys.setswitchinterval(1e-6)
        errors = []
        barrier = threading.Barrier(len(variants))

        def definer(v):
            try:
                barrier.wait()
                for r in range(rounds):
                    check_variant(define_variant(v), v)
            except BaseException:
                errors.append(traceback.format_exc())

        threads = [threading.Thread(target=definer, args=(v, )) for v in variants]
        for t in threads:
            t.start()
        for t in threads:
            t.join()
        if errors:
            print(errors[0])
            return 5
        print('OK threads', ','.join(variants), rounds)
        return 0

    if mode == 'barrier':
        # wait for the start signal so all the definers run at once
        start = float(os.environ['DIFFTEST_START'])
        while time.time() < start:
            time.sleep(0.001)
    for r in range(rounds):
        v = variants[r % len(variants)]
        cls = define_variant(v)
        check_variant(cls, v)
        # the previous class keeps working as it was declared
        if r:
            check_variant(prev[0], prev[1])
        prev = (cls, v)
    import bisturi
    leaked = [m for m in sys.modules if m.endswith('_K')]
    if leaked and 'orig_pkg' not in bisturi.__file__:
        # the modified package registers nothing in sys.modules
        print('LEAKED', leaked)
        return 4
    print('OK', ','.join(variants), rounds)
    return 0


class _Proxy:
    def __init__(self, f, write):
        self._f = f
        self.write = write

    def __getattr__(self, name):
        return getattr(self._f, name)

    def __enter__(self):
        self._f.__enter__()
        return self

    def __exit__(self, *a):
        return self._f.__exit__(*a)


def section_cache(workdir):
    ''' Runs in the worker of each implementation: spawns real processes
        (children) that use the same implementation. '''
    me = os.path.join(workdir, 'difftest.py')
    pkts = os.path.join(workdir, '__pkts__')
    target = os.path.join(pkts, 'difftest_K.py')

    def child(mode, variants, rounds=1, bytecode=True, env=None, wait=True):
        e = dict(os.environ)
        e.pop('PYTHONDONTWRITEBYTECODE', None)
        if not bytecode:
            e['PYTHONDONTWRITEBYTECODE'] = '1'
        if env:
            e.update(env)
        p = subprocess.Popen(
            [sys.executable, me, '--child', mode, variants, str(rounds)],
            stdout=subprocess.PIPE, stderr=subprocess.PIPE, env=e, cwd=workdir
        )
        if not wait:
            return p
        out, err = p.communicate(timeout=300)
        return p.returncode, out.decode().strip(), err.decode().strip()[-600:]

    def listing():
        found = []
        for root, dirs, files in os.walk(pkts):
            for f in sorted(files):
                # the temporary files have the pid and a random number
                f = re.sub(r'\.\d+\.[0-9a-f]{8}\.tmp$', '.PID.RND.tmp', f)
                found.append(os.path.relpath(os.path.join(root, f), pkts))
        return sorted(found)

    def reset():
        shutil.rmtree(pkts, ignore_errors=True)

    def report(tag, result):
        rc, out, err = result
        emit(tag, 'rc=%d' % rc, out, '' if rc == 0 else err)
        if rc != 0:
            emit('INVARIANT child failed', tag, err)

    # 1. same-named classes, same-size generated sources, one process after
    #    the other and also in the same process; bytecode on and off
    for bytecode in (True, False):
        for first, second in (('A', 'B'), ('B', 'A'), ('E', 'F'), ('A', 'C'), ('D', 'A')):
            reset()
            report('seq %s bytecode=%r' % (first, bytecode), child('plain', first, 1, bytecode))
            size1 = os.path.getsize(target)
            st = os.stat(target)
            report('seq %s after %s' % (second, first), child('plain', second, 1, bytecode))
            emit(' same-size', first, second, size1 == os.path.getsize(target))
            # and back again, now with the timestamp of the first file
            report('seq %s again' % first, child('plain', first, 1, bytecode))
            os.utime(target, ns=(st.st_atime_ns, st.st_mtime_ns))
            report('seq %s after utime' % second, child('plain', second, 1, bytecode))
            os.utime(target, ns=(st.st_atime_ns, st.st_mtime_ns))
            report('seq %s after utime' % first, child('plain', first, 1, bytecode))
            emit(' listing', listing())
            reset()
            report(
                'same process %s,%s x6 bytecode=%r' % (first, second, bytecode),
                child('plain', '%s,%s' % (first, second), 6, bytecode)
            )

    # 2. the .py deleted but the .pyc kept
    for first, second in (('A', 'B'), ('E', 'F'), ('A', 'A')):
        reset()
        report('pyc-kept define %s' % first, child('plain', first, 1, True))
        report('pyc-kept load %s' % first, child('plain', first, 1, True))
        emit(' listing', listing())
        os.remove(target)
        report('pyc-kept define %s without py' % second, child('plain', second, 1, True))
        emit(' listing', listing())
        report('pyc-kept define %s again' % first, child('plain', first, 1, True))

    # 3. torn / foreign files at the final name (an older version, a crash)
    reset()
    report('torn: define A', child('plain', 'A', 1, True))
    good = open(target, 'rb').read()
    for cut in (0, 1, 10, len(good) // 3, len(good) // 2, len(good) - 40, len(good) - 2, len(good) - 1):
        with open(target, 'wb') as f:
            f.write(good[:cut])
        report('torn at %d: define A' % cut, child('plain', 'A', 1, True))
        with open(target, 'wb') as f:
            f.write(good[:cut])
        report('torn at %d: define B' % cut, child('plain', 'B', 1, False))
    # starts as ours and ends as ours but the middle is from another one
    report('torn: define B', child('plain', 'B', 1, True))
    other = open(target, 'rb').read()
    report('torn: define A', child('plain', 'A', 1, True))
    mix = good[:len(good) // 2] + other[len(other) // 2:]
    with open(target, 'wb') as f:
        f.write(mix)
    report('mixed: define A', child('plain', 'A', 1, True))
    with open(target, 'wb') as f:
        f.write(b'\x00\xff garbage \n' * 30)
    report('garbage: define B', child('plain', 'B', 1, True))
    # a directory where the file should be, a read only folder
    reset()
    os.makedirs(target)
    report('directory in the way: define A', child('plain', 'A', 1, True))
    reset()
    os.makedirs(pkts)
    os.chmod(pkts, 0o555)
    report('read only folder: define A', child('plain', 'A,B', 4, True))
    os.chmod(pkts, 0o755)
    reset()
    with open(pkts, 'w') as f:
        f.write('not a folder')
    report('file instead of the folder: define A', child('plain', 'A,B', 4, True))
    os.remove(pkts)

    # 4. a child killed in the middle of the write, then fresh processes
    for mode in ('kill-in-write', 'kill-before-replace'):
        for prepared in (None, 'B'):
            reset()
            if prepared:
                report('%s: prepare %s' % (mode, prepared), child('plain', prepared, 1, True))
            rc, out, err = child(mode, 'A', 1, True)
            emit('%s prepared=%s' % (mode, prepared), 'rc=%d' % rc, out)
            if rc != -signal.SIGKILL:
                emit('INVARIANT the child was not killed', mode, rc, out, err)
            emit(' listing', listing())
            report('%s: define A after' % mode, child('plain', 'A', 1, True))
            report('%s: define B after' % mode, child('plain', 'B', 1, True))
            report('%s: define A,B after' % mode, child('plain', 'A,B,C', 6, False))

    # 4b. threads of one process defining same-named classes at once
    for bytecode in (True, False):
        reset()
        report(
            'threads bytecode=%r' % bytecode,
            child('threads', 'A,B,C,D,E,F', 10, bytecode)
        )

    # 5. 8 concurrent definers x 20 rounds (different declarations of the
    #    same name; some of them don't write bytecode)
    for attempt_no in range(3):
        reset()
        start = time.time() + 1.0
        procs = []
        plans = ['A,B', 'B,A', 'A', 'B', 'C,D', 'E,F', 'F,E,A', 'D']
        for i, plan in enumerate(plans):
            procs.append(
                child(
                    'barrier', plan, 20, bytecode=(i % 2 == 0),
                    env={'DIFFTEST_START': repr(start)}, wait=False
                )
            )
        for plan, p in zip(plans, procs):
            out, err = p.communicate(timeout=600)
            report(
                'concurrent#%d %s' % (attempt_no, plan),
                (p.returncode, out.decode().strip(), err.decode().strip()[-600:])
            )
        left = [f for f in listing() if f.endswith('.tmp')]
        emit(' temporaries left', left)
    reset()


###############################################################################
#                               DRIVER SIDE                                   #
###############################################################################

SECTIONS = ['packets', 'histories', 'auto', 'fragments', 'docs', 'cache']


def worker_main(argv):
    global _out
    section, seed, outfile, quick = argv[0], argv[1], argv[2], argv[3] == '1'
    import bisturi
    expected = os.environ['DIFFTEST_EXPECT_PACKAGE']
    assert os.path.dirname(os.path.abspath(bisturi.__file__)) == expected, \
            (bisturi.__file__, expected)
    rng = random.Random('%s/%s' % (section, seed))
    _out = open(outfile, 'w')
    try:
        if section == 'packets':
            section_packets(rng, 60 if quick else 260, 30 if quick else 120)
        elif section == 'histories':
            section_histories(rng, 2 if quick else 8, 10 if quick else 14)
            section_threads(rng, 60 if quick else 240)
        elif section == 'auto':
            section_auto(rng, 2 if quick else 3, 200 if quick else 3000, 14)
        elif section == 'fragments':
            section_fragments(rng, 20000 if quick else 200000)
        elif section == 'docs':
            section_docs(os.environ['DIFFTEST_DOCS'])
        elif section == 'cache':
            section_cache(os.path.dirname(os.path.abspath(__file__)))
        else:
            raise SystemExit('unknown section %s' % section)
    except BaseException:
        _out.write('WORKER CRASHED\n' + traceback.format_exc())
        raise
    finally:
        _out.close()
    return 0


def driver_main(argv):
    quick = '--quick' in argv
    wanted = [a for a in argv if not a.startswith('--')] or SECTIONS + ['gensrc']
    seed = '20260927'
    work = os.path.join(HERE, 'scratch', 'difftest_work')
    shutil.rmtree(work, ignore_errors=True)

    impls = {
        'orig': os.path.join(HERE, 'orig_pkg'),
        'new': HERE,
    }
    for name, path in impls.items():
        assert os.path.isfile(os.path.join(path, 'bisturi', 'packet.py')), path

    failures = 0
    summary = []
    for section in [s for s in SECTIONS if s in wanted]:
        t0 = time.time()
        procs = {}
        for impl, pypath in impls.items():
            d = os.path.join(work, section, impl)
            os.makedirs(d)
            shutil.copy(os.path.join(HERE, 'difftest.py'), os.path.join(d, 'difftest.py'))
            # the docs read tests/ds/tlp_abc relative to the current folder
            shutil.copytree(os.path.join(HERE, 'tests', 'ds'), os.path.join(d, 'tests', 'ds'))
            shutil.copy(os.path.join(HERE, 'pingpattern.data'), d)
            env = dict(os.environ)
            env['PYTHONPATH'] = pypath
            env['PYTHONHASHSEED'] = '0'
            env['DIFFTEST_EXPECT_PACKAGE'] = os.path.join(pypath, 'bisturi')
            env['DIFFTEST_DOCS'] = os.path.join(HERE, 'docs', 'reference')
            env.pop('PYTHONDONTWRITEBYTECODE', None)
            out = os.path.join(d, 'transcript.txt')
            procs[impl] = (
                subprocess.Popen(
                    [
                        sys.executable,
                        os.path.join(d, 'difftest.py'), '--worker', section,
                        seed, out, '1' if quick else '0'
                    ],
                    cwd=d, env=env, stdout=subprocess.PIPE,
                    stderr=subprocess.STDOUT
                ), out
            )
        texts = {}
        for impl, (p, out) in procs.items():
            stdout, _ = p.communicate()
            if p.returncode != 0:
                failures += 1
                print('FAIL: worker %s/%s exit code %r\n%s' % (section, impl, p.returncode, stdout.decode()[-3000:]))
            texts[impl] = open(out).read().split('\n') if os.path.exists(out) else []

        a, b = texts['orig'], texts['new']
        ndiff = 0
        for i, (x, y) in enumerate(itertools.zip_longest(a, b)):
            if x != y:
                ndiff += 1
                if ndiff <= 5:
                    print('DIFFERENCE in %s line %d:\n  orig: %s\n  new:  %s' % (section, i + 1, str(x)[:1500], str(y)[:1500]))
        violations = {
            impl: [l for l in t if 'INVARIANT' in l or l.startswith('WORKER CRASHED')]
            for impl, t in texts.items()
        }
        for impl, v in violations.items():
            for l in v[:5]:
                print('VIOLATION in %s/%s: %s' % (section, impl, l[:1500]))
        nviol = sum(len(v) for v in violations.values())
        failures += ndiff + nviol
        line = '%-10s lines=%-8d differences=%d invariant-violations=%d (orig %d, new %d)  %.0fs' % (
            section, len(b), ndiff, nviol, len(violations['orig']),
            len(violations['new']), time.time() - t0
        )
        print(line)
        sys.stdout.flush()
        summary.append(line)

    if 'gensrc' in wanted:
        # the generated modules of both implementations are the same
        nfiles = ndiff = 0
        for section in [s for s in SECTIONS if s in wanted and s != 'cache']:
            da = os.path.join(work, section, 'orig', '__pkts__')
            db = os.path.join(work, section, 'new', '__pkts__')
            fa = sorted(f for f in os.listdir(da) if f.endswith('.py')) if os.path.isdir(da) else []
            fb = sorted(f for f in os.listdir(db) if f.endswith('.py')) if os.path.isdir(db) else []
            if fa != fb:
                ndiff += 1
                print('DIFFERENCE: generated files of %s: %r' % (section, sorted(set(fa) ^ set(fb))))
            for f in fa:
                if f in fb:
                    nfiles += 1
                    if open(os.path.join(da, f), 'rb').read() != open(os.path.join(db, f), 'rb').read():
                        ndiff += 1
                        print('DIFFERENCE: generated source %s/%s' % (section, f))
        failures += ndiff
        line = '%-10s files=%d differences=%d' % ('gensrc', nfiles, ndiff)
        print(line)
        summary.append(line)

    print()
    print('TOTAL: %s' % ('ZERO differences / failures' if failures == 0 else '%d differences / failures' % failures))
    return 0 if failures == 0 else 1


if __name__ == '__main__':
    if len(sys.argv) > 1 and sys.argv[1] == '--worker':
        sys.exit(worker_main(sys.argv[2:]))
    elif len(sys.argv) > 1 and sys.argv[1] == '--child':
        sys.exit(child_main(sys.argv[2:]))
    else:
        sys.exit(driver_main(sys.argv[1:]))
