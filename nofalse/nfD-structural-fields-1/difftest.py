#!/usr/bin/env python
''' Differential test: ORIGINAL bisturi (pristine copy in ./orig_pkg/bisturi)
    versus the MODIFIED package in ./bisturi.

    usage:   /venv/bin/python difftest.py [--seed N] [--scale F] [--keep]

    The same deterministic scenario is executed twice, each time in a
    subprocess (PYTHONPATH=./orig_pkg for the original, PYTHONPATH=. for the
    modified package); every observation is written as one JSON line and the
    two streams are compared line by line.

    Scenario (see the sections of worker()):
      A. class definition errors (Bits.ByteBoundaryError and friends)
      B. for every packet class x {generated code, generic code}: random
         valid / truncated / corrupted / random inputs -> unpacked values,
         packed bytes, round trip, PacketError details (or partial packet)
      C. random values (valid, out of range, wrong type) -> packed bytes
      D. histories over several live packets: construct / unpack / set /
         in-place mutation / pack; after each step no bystander may change
         (values and pack()) and no mutable sub-object may be shared
      E. 4 threads working on distinct packets compared with the sequential
         result.
    Exit status 0 iff there are zero differences.
'''
import sys, os, json, re, random, copy, subprocess, threading, argparse, hashlib

HERE = os.path.dirname(os.path.abspath(__file__))


# --------------------------------------------------------------------------
#  helpers (worker side)
# --------------------------------------------------------------------------
def rb(rng, n):
    return bytes(rng.randrange(256) for _ in range(n))


def txt(rng, n, alpha):
    return bytes(rng.choice(alpha) for _ in range(n))


class Lazy(bytes):
    ''' A 'bytes' which redefines what an item/slice is, like
        bisturi.util.SeekableFile does: the content is elsewhere, the
        'bytes' object itself is empty. '''
    def __new__(cls, data):
        self = bytes.__new__(cls)
        self._data = data
        return self

    def __getitem__(self, index):
        return self._data[index]


UNSET = '<unset>'
_hexid = re.compile(r'0x[0-9a-fA-F]+')
_ref_dead_end = re.compile(r"(I have a value to pack of type|Ref field '[^']*' cannot pack).*", re.S)


def norm(msg):
    msg = _hexid.sub('0x?', msg)
    # variant 4 clarifies (on purpose) the text of this only message
    msg = _ref_dead_end.sub('<REF-PACK-DEAD-END>', msg)
    return msg


def make_tools():
    from bisturi.packet import Packet, PacketError

    def canon(obj, depth=0):
        if depth > 12:
            return '<too deep>'
        if isinstance(obj, Packet):
            d = {'__cls__': obj.__class__.__name__}
            for name, _, _, _ in obj.get_fields():
                d[name] = canon(getattr(obj, name, UNSET), depth + 1)
            return d
        if isinstance(obj, (list, tuple)):
            return [canon(x, depth + 1) for x in obj]
        if isinstance(obj, bytes):
            return 'b:' + obj.hex()
        if obj is None or isinstance(obj, (bool, int, str)):
            return obj
        if isinstance(obj, float):
            return repr(obj)
        return '<%s>' % type(obj).__name__

    def exc(e):
        if isinstance(e, PacketError):
            return [
                'PacketError',
                bool(e.was_error_found_in_unpacking_phase),
                [list(x) for x in e.fields_stack],
                norm(e.original_error_message)
            ]
        return [type(e).__name__, norm(str(e))]

    def rec_pack(p):
        try:
            return ['ok', p.pack().hex()]
        except Exception as e:
            return ['err', exc(e)]

    def rec_unpack(cls, raw, offset=0):
        try:
            p = cls.unpack(raw, offset)
        except Exception as e:
            return {
                'r': 'err',
                'e': exc(e),
                'partial': canon(getattr(e, 'packet', None))
            }
        out = {'r': 'ok', 'v': canon(p)}
        out['pack'] = rec_pack(p)
        out['pure_values'] = (canon(p) == out['v'])
        out['pure_pack'] = (rec_pack(p) == out['pack'])
        if out['pack'][0] == 'ok':
            try:
                q = cls.unpack(bytes.fromhex(out['pack'][1]))
                out['rt'] = canon(q)
                out['rt_pack'] = rec_pack(q)
            except Exception as e:
                out['rt'] = ['err', exc(e)]
        return out

    def rec_build(cls, kwargs, sets):
        try:
            p = cls(**kwargs)
            for name, val in sets:
                setattr(p, name, val)
        except Exception as e:
            return {'r': 'err-build', 'e': exc(e)}
        out = {'r': 'built', 'v': canon(p)}
        out['pack'] = rec_pack(p)
        out['pure_values'] = (canon(p) == out['v'])
        out['pure_pack'] = (rec_pack(p) == out['pack'])
        if out['pack'][0] == 'ok':
            try:
                q = cls.unpack(bytes.fromhex(out['pack'][1]))
                out['rt'] = canon(q)
            except Exception as e:
                out['rt'] = ['err', exc(e)]
        return out

    return Packet, PacketError, canon, exc, rec_pack, rec_unpack, rec_build


# --------------------------------------------------------------------------
#  the packet classes
# --------------------------------------------------------------------------
def build(generic):
    ''' Return {name: (cls, rawgen(rng), valgen(rng))}. With generic=True the
        classes don't use the generated code (Packet.pack_impl/unpack_impl).'''
    from bisturi.packet import Packet
    from bisturi.field import Int, Data, Bits, Ref, Em, EOS, Field

    class Hex(Field):
        ''' user defined field: two hexadecimal digits '''
        def __init__(self, default=0):
            Field.__init__(self)
            self.default = default

        def unpack(self, pkt, raw, offset=0, **k):
            setattr(pkt, self.field_name, int(raw[offset:offset + 2], 16))
            return offset + 2

        def pack(self, pkt, fragments, **k):
            fragments.append(b'%02x' % getattr(pkt, self.field_name))
            return fragments

    class XInt(Int):
        ''' user defined field: an Int with its own pack/unpack '''
        def _compile(self, position, fields, bisturi_conf):
            slots = Int._compile(self, position, fields, bisturi_conf)
            inner_unpack = self.unpack

            def unpack(pkt, raw, offset=0, **k):
                offset = inner_unpack(pkt, raw, offset, **k)
                setattr(pkt, self.field_name, getattr(pkt, self.field_name) ^ 0x55)
                return offset

            def pack(pkt, fragments, **k):
                fragments.append(bytes([getattr(pkt, self.field_name) ^ 0x55]))
                return fragments

            self.unpack, self.pack = unpack, pack
            return slots

    base = {'generate_for_pack': False, 'generate_for_unpack': False} \
            if generic else {}

    def C(**extra):
        d = dict(base)
        d.update(extra)
        return d

    reg = {}

    def maybe(rng, d, keep=0.7):
        return {k: v for k, v in d.items() if rng.random() < keep}

    def badint(rng, lo, hi):
        r = rng.random()
        if r < 0.93:
            return rng.randrange(lo, hi)
        if r < 0.97:
            return rng.choice([hi, hi + 1, hi * 3, -1, -hi, 2**70])
        return rng.choice([None, b'x', 'x', 1.5, [1]])

    def badbytes(rng, n=None, alpha=None):
        r = rng.random()
        if r < 0.96:
            m = n if (n is not None and rng.random() < 0.8) else rng.randrange(0, 7)
            return txt(rng, m, alpha) if alpha else rb(rng, m)
        return rng.choice([None, 3, 'str', [b'a']])

    # ------------------------------------------------------------ sub packets
    class Pt(Packet):
        __bisturi__ = C()
        x = Int(1)
        y = Int(2)

    def g_Pt(rng):
        return rb(rng, 3)

    def v_Pt(rng):
        return Pt(**maybe(rng, {'x': badint(rng, 0, 256), 'y': badint(rng, 0, 65536)}))

    class TLV(Packet):
        __bisturi__ = C()
        type = Int(1)
        length = Int(1)
        value = Data(length)

    def g_TLV(rng, type=None, maxlen=5):
        n = rng.randrange(0, maxlen)
        t = rng.randrange(1, 256) if type is None else type
        return bytes([t, n]) + txt(rng, n, b'abcAB\x00\xff')

    def v_TLV(rng):
        n = rng.randrange(0, 5)
        d = {'type': badint(rng, 0, 256), 'length': n, 'value': rb(rng, n)}
        if rng.random() < 0.1:
            d['value'] = badbytes(rng)
        return TLV(**maybe(rng, d, 0.85))

    reg['Pt'] = (Pt, g_Pt, lambda rng: v_Pt(rng) and maybe(rng, {'x': badint(rng, 0, 256), 'y': badint(rng, 0, 65536)}))
    reg['TLV'] = (TLV, g_TLV, lambda rng: maybe(rng, {'type': badint(rng, 0, 256), 'length': rng.randrange(5), 'value': badbytes(rng)}))

    # ------------------------------------------------------------------ Data
    class DFixed(Packet):
        __bisturi__ = C()
        a = Data(3)
        n = Int(1)
        b = Data(n)
        c = Data(n * 2)
        d = Data(lambda pkt, raw, offset, **k: pkt.n if pkt.n < 200 else len(raw) - offset)
        e = Data(2, default=b'zz')

    def g_DFixed(rng):
        n = rng.randrange(0, 6) if rng.random() < 0.9 else rng.randrange(200, 256)
        tail = rb(rng, n) + rb(rng, 2) if n < 200 else rb(rng, rng.randrange(0, 9))
        return rb(rng, 3) + bytes([n]) + rb(rng, n) + rb(rng, 2 * n) + tail

    def v_DFixed(rng):
        n = rng.randrange(0, 5)
        return maybe(rng, {'a': badbytes(rng, 3), 'n': badint(rng, 0, 256), 'b': badbytes(rng, n),
                           'c': badbytes(rng, 2 * n), 'd': badbytes(rng, n), 'e': badbytes(rng, 2)})

    reg['DFixed'] = (DFixed, g_DFixed, v_DFixed)

    A1 = b'abf;\x00 '

    class DStr(Packet):
        __bisturi__ = C()
        a = Data(until_marker=b'\0', include_delimiter=True)
        b = Data(until_marker=b'ff')
        c = Data(until_marker=b';', consume_delimiter=False)
        sep = Int(1)
        t = Data(until_marker=EOS)

    def g_DStr(rng):
        return (txt(rng, rng.randrange(0, 5), b'abf; ') + b'\0' +
                txt(rng, rng.randrange(0, 5), b'ab;f\x00') + b'ff' +
                txt(rng, rng.randrange(0, 5), b'abf\x00') + b';' +
                txt(rng, rng.randrange(0, 6), A1))

    def v_DStr(rng):
        return maybe(rng, {'a': badbytes(rng, None, A1), 'b': badbytes(rng, None, A1), 'c': badbytes(rng, None, A1),
                           'sep': badint(rng, 0, 256), 't': badbytes(rng, None, A1)})

    reg['DStr'] = (DStr, g_DStr, v_DStr)

    A2 = b'abXY;,\r\n'

    class DRe(Packet):
        __bisturi__ = C()
        a = Data(until_marker=re.compile(b'X+|$'), include_delimiter=True)
        b = Data(until_marker=re.compile(b'[;,]|\r?\n'))
        c = Data(until_marker=re.compile(b'Y{1,3}'), consume_delimiter=False)
        d = Data(2)
        e = Data(until_marker=re.compile(b'X+|$'))
        f = Data(until_marker=re.compile(b'$'), include_delimiter=True)

    def g_DRe(rng):
        if rng.random() < 0.4:
            return txt(rng, rng.randrange(0, 30), A2)
        return (txt(rng, rng.randrange(0, 4), b'ab;,') + b'X' * rng.randrange(0, 3) +
                txt(rng, rng.randrange(0, 4), b'abXY') + rng.choice([b';', b',', b'\n', b'\r\n']) +
                txt(rng, rng.randrange(0, 4), b'ab;') + b'Y' * rng.randrange(1, 5) +
                txt(rng, rng.randrange(0, 2), b'ab') +
                txt(rng, rng.randrange(0, 4), b'abY;') + b'X' * rng.randrange(0, 3) +
                txt(rng, rng.randrange(0, 4), A2))

    def v_DRe(rng):
        return maybe(rng, {k: badbytes(rng, None, A2) for k in 'abcdef'})

    reg['DRe'] = (DRe, g_DRe, v_DRe)

    A3 = b'ab"\\ end\nZcx'

    class DReCtx(Packet):
        # regular expressions which look at what is before the start
        __bisturi__ = C()
        h = Int(1)
        q = Data(until_marker=re.compile(rb'(?<!\\)"'))
        x = Data(1)
        w = Data(until_marker=re.compile(rb'\bend\b'), include_delimiter=True)
        l = Data(until_marker=re.compile(rb'^Z', re.M))
        r = Data(until_marker=re.compile(b'[^a-c]'))
        u = Data(until_marker=re.compile(rb'\Ac|\Bd|$'))

    def g_DReCtx(rng):
        r = rng.random()
        if r < 0.5:
            return txt(rng, rng.randrange(0, 40), A3)
        h = rng.choice(b'\\a\n ')
        q = rng.choice([b'"', b'ab"', b'\\""', b'a\\"b"', b'\\"'])
        x = rng.choice([b'x', b' ', b'e', b'\n'])
        w = rng.choice([b'end ', b'end\n', b' end ', b'a end\n', b'bend end ', b'endend end\n', b'endZ'])
        l = rng.choice([b'Z', b'aZ\nZ', b'\nZ', b'aZZ\nZ', b'bZ\nZ', b'Z\nZ'])
        rr = rng.choice([b'abc ', b' ', b'ccZ', b'Z'])
        u = rng.choice([b'c', b'ad', b'd', b'abcd', b' d', b''])
        return bytes([h]) + q + x + w + l + rr + u

    def v_DReCtx(rng):
        d = {k: badbytes(rng, None, A3) for k in 'qxwlru'}
        d['h'] = badint(rng, 0, 256)
        return maybe(rng, d)

    reg['DReCtx'] = (DReCtx, g_DReCtx, v_DReCtx)

    A4 = b'abX\x00'

    class DSbl(Packet):
        __bisturi__ = C(search_buffer_length=4)
        a = Data(until_marker=b'\0')
        b = Data(until_marker=re.compile(b'X+'))
        c = Data(until_marker=b'ab', include_delimiter=True)
        d = Data(until_marker=re.compile(b'ab|$'), consume_delimiter=False)
        t = Data(until_marker=EOS)

    def g_DSbl(rng):
        if rng.random() < 0.4:
            return txt(rng, rng.randrange(0, 25), A4)
        return (txt(rng, rng.randrange(0, 5), b'abX') + b'\0' +
                txt(rng, rng.randrange(0, 4), b'ab') + b'X' * rng.randrange(1, 4) +
                txt(rng, rng.randrange(0, 3), b'b\x00') + b'ab' +
                txt(rng, rng.randrange(0, 6), A4))

    def v_DSbl(rng):
        return maybe(rng, {k: badbytes(rng, None, A4) for k in 'abcdt'})

    reg['DSbl'] = (DSbl, g_DSbl, v_DSbl)

    class DSbl0(Packet):
        __bisturi__ = C(search_buffer_length=0)
        a = Data(until_marker=b'\0')
        b = Data(until_marker=re.compile(b';'))
        c = Data(until_marker=b';;', consume_delimiter=False)

    def g_DSbl0(rng):
        return txt(rng, rng.randrange(0, 25), b'ab;;\x00')

    reg['DSbl0'] = (DSbl0, g_DSbl0, lambda rng: maybe(rng, {k: badbytes(rng, None, b'ab;\x00') for k in 'abc'}))

    A5 = b'abZQ'

    class DEdge(Packet):
        # empty markers, negative offsets, offsets beyond the end
        __bisturi__ = C()
        off = Int(1, signed=True)
        e0 = Data(until_marker=b'')
        e1 = Data(until_marker=re.compile(b''))
        d = Data(until_marker=b'Z').at(off)
        e = Data(until_marker=re.compile(b'Q+')).shift(off)
        f = Data(until_marker=EOS).at(off, 'begins')

    def g_DEdge(rng):
        off = rng.choice([0, 1, 1, 2, 2, 3, 3, 5, 9, 40, 255, 255, 254, 254, 253, 250, 200])
        return bytes([off]) + txt(rng, rng.randrange(2, 22), b'aZQZQb')

    def v_DEdge(rng):
        d = {k: badbytes(rng, None, A5) for k in ('e0', 'e1', 'd', 'e', 'f')}
        d['off'] = rng.choice([0, 1, 3, 7, 20, -1, -3, -20])
        return maybe(rng, d)

    reg['DEdge'] = (DEdge, g_DEdge, v_DEdge)

    class DEdgeSbl(Packet):
        __bisturi__ = C(search_buffer_length=3)
        off = Int(1, signed=True)
        d = Data(until_marker=b'Z').at(off)
        e = Data(until_marker=re.compile(b'Q|$')).shift(off)
        g = Data(until_marker=b'', include_delimiter=True).shift(off)

    reg['DEdgeSbl'] = (DEdgeSbl, g_DEdge, lambda rng: maybe(rng, {
        'off': rng.choice([0, 1, 3, 7, -1, -3]), 'd': badbytes(rng, None, A5),
        'e': badbytes(rng, None, A5), 'g': badbytes(rng, None, A5)}))

    class DEmpty(Packet):
        __bisturi__ = C(search_buffer_length=3)
        g = Data(until_marker=b'', include_delimiter=True)
        h = Data(until_marker=re.compile(b''))
        i = Data(until_marker=re.compile(b'Z*'), include_delimiter=True)
        t = Data(until_marker=EOS)

    reg['DEmpty'] = (DEmpty, lambda rng: txt(rng, rng.randrange(0, 9), b'aZ'), lambda rng: maybe(rng, {
        k: badbytes(rng, None, b'aZ') for k in 'ghit'}))

    # ------------------------------------------------------------------ Bits
    class B8(Packet):
        __bisturi__ = C()
        h = Int(1)
        a = Bits(3)
        b = Bits(5, default=9)
        t = Int(2)

    reg['B8'] = (B8, lambda rng: rb(rng, 4), lambda rng: maybe(rng, {
        'h': badint(rng, 0, 256), 'a': badint(rng, 0, 8), 'b': badint(rng, 0, 32), 't': badint(rng, 0, 65536)}))

    class B16(Packet):
        __bisturi__ = C()
        pre = Data(2)
        fo = Bits(12)
        fl = Bits(4)
        z = Int(1)
        p = Bits(1, default=1)
        q = Bits(7)
        post = Data(until_marker=b'\0')

    reg['B16'] = (B16, lambda rng: rb(rng, 6) + txt(rng, rng.randrange(0, 3), b'ab') + b'\0', lambda rng: maybe(rng, {
        'pre': badbytes(rng, 2), 'fo': badint(rng, 0, 4096), 'fl': badint(rng, 0, 16), 'z': badint(rng, 0, 256),
        'p': badint(rng, 0, 2), 'q': badint(rng, 0, 128), 'post': badbytes(rng, None, b'ab')}))

    class B16le(Packet):
        __bisturi__ = C(endianness='little')
        i = Int(2)
        fo = Bits(5)
        fl = Bits(11)
        j = Int(4)

    reg['B16le'] = (B16le, lambda rng: rb(rng, 8), lambda rng: maybe(rng, {
        'i': badint(rng, 0, 65536), 'fo': badint(rng, 0, 32), 'fl': badint(rng, 0, 2048), 'j': badint(rng, 0, 2**32)}))

    class B24(Packet):
        __bisturi__ = C()
        x = Int(1)
        a = Bits(4)
        b = Bits(12)
        c = Bits(8)
        y = Data(until_marker=b'\0')
        d = Bits(2)
        e = Bits(2)
        f = Bits(2)
        g = Bits(2)

    reg['B24'] = (B24, lambda rng: rb(rng, 4) + txt(rng, rng.randrange(0, 3), b'ab') + b'\0' + rb(rng, 1), lambda rng: maybe(rng, {
        'x': badint(rng, 0, 256), 'a': badint(rng, 0, 16), 'b': badint(rng, 0, 4096), 'c': badint(rng, 0, 256),
        'y': badbytes(rng, None, b'ab'), 'd': badint(rng, 0, 4), 'e': badint(rng, 0, 4), 'f': badint(rng, 0, 4), 'g': badint(rng, 0, 4)}))

    class B40(Packet):
        __bisturi__ = C()
        a = Bits(9)
        b = Bits(31)
        m = Int(3)
        c = Bits(1)
        d = Bits(63)
        e = Bits(32)

    reg['B40'] = (B40, lambda rng: rb(rng, 20), lambda rng: maybe(rng, {
        'a': badint(rng, 0, 512), 'b': badint(rng, 0, 2**31), 'm': rng.randrange(0, 2**24), 'c': badint(rng, 0, 2),
        'd': badint(rng, 0, 2**63), 'e': badint(rng, 0, 2**32)}))

    # -------------------------------------------------------------- Sequences
    class SCount(Packet):
        __bisturi__ = C()
        n = Int(1)
        a = Int(2).repeated(3)
        b = Int(1).repeated(n)
        c = Data(2).repeated((n * 2) % 5)
        d = Ref(Pt).repeated(lambda pkt, **k: pkt.n & 3)
        e = Int(3, signed=True, endianness='little').repeated(2)

    def g_SCount(rng):
        n = rng.randrange(0, 8)
        return bytes([n]) + rb(rng, 6) + rb(rng, n) + rb(rng, 2 * ((n * 2) % 5)) + rb(rng, 3 * (n & 3)) + rb(rng, 6)

    def v_SCount(rng):
        return maybe(rng, {
            'n': badint(rng, 0, 256),
            'a': [badint(rng, 0, 65536) for _ in range(rng.randrange(0, 4))],
            'b': [badint(rng, 0, 256) for _ in range(rng.randrange(0, 4))],
            'c': [badbytes(rng, 2) for _ in range(rng.randrange(0, 4))],
            'd': [v_Pt(rng) for _ in range(rng.randrange(0, 3))],
            'e': [rng.randrange(-2**23, 2**23) for _ in range(rng.randrange(0, 3))]})

    reg['SCount'] = (SCount, g_SCount, v_SCount)

    class SUntil(Packet):
        __bisturi__ = C()
        attrs = Ref(TLV).repeated(until=lambda pkt, **k: pkt.attrs[-1].type == 0)
        nums = Int(1).repeated(until=lambda pkt, **k: pkt.nums[-1] == 0)
        strs = Data(until_marker=b';').repeated(until=lambda pkt, **k: pkt.strs[-1] == b'')
        tail = Int(2).repeated(until=lambda raw, offset, **k: offset >= len(raw))

    def g_SUntil(rng):
        r = b''.join(g_TLV(rng) for _ in range(rng.randrange(0, 4))) + g_TLV(rng, type=0)
        r += bytes(rng.randrange(1, 256) for _ in range(rng.randrange(0, 4))) + b'\0'
        r += b''.join(txt(rng, rng.randrange(1, 4), b'ab') + b';' for _ in range(rng.randrange(0, 3))) + b';'
        r += rb(rng, 2 * rng.randrange(1, 4))
        return r

    def v_SUntil(rng):
        return maybe(rng, {
            'attrs': [v_TLV(rng) for _ in range(rng.randrange(0, 3))],
            'nums': [badint(rng, 0, 256) for _ in range(rng.randrange(0, 4))],
            'strs': [badbytes(rng, None, b'ab') for _ in range(rng.randrange(0, 3))],
            'tail': [badint(rng, 0, 65536) for _ in range(rng.randrange(0, 3))]})

    reg['SUntil'] = (SUntil, g_SUntil, v_SUntil)

    class SWhen(Packet):
        __bisturi__ = C()
        has = Int(1)
        a = Ref(TLV).repeated(when=lambda pkt, **k: pkt.has & 1,
                              until=lambda pkt, **k: pkt.a[-1].type == 0)
        b = Int(2).repeated(count=2, when=has & 2)
        c = Int(1).repeated(count=has, when=has > 3)
        d = Data(1).repeated(count=lambda pkt, **k: pkt.has - 6, when=has)

    def g_SWhen(rng):
        has = rng.randrange(0, 10)
        r = bytes([has])
        if has & 1:
            r += b''.join(g_TLV(rng) for _ in range(rng.randrange(0, 3))) + g_TLV(rng, type=0)
        if has & 2:
            r += rb(rng, 4)
        if has > 3:
            r += rb(rng, has)
        if has and has - 6 > 0:
            r += rb(rng, has - 6)
        return r

    def v_SWhen(rng):
        return maybe(rng, {
            'has': badint(rng, 0, 256),
            'a': [v_TLV(rng) for _ in range(rng.randrange(0, 3))],
            'b': [badint(rng, 0, 65536) for _ in range(rng.randrange(0, 3))],
            'c': [badint(rng, 0, 256) for _ in range(rng.randrange(0, 3))],
            'd': [badbytes(rng, 1) for _ in range(rng.randrange(0, 3))]})

    reg['SWhen'] = (SWhen, g_SWhen, v_SWhen)

    def pad(r, to):
        return r + b'.' * ((to - len(r) % to) % to)

    class SAlign(Packet):
        __bisturi__ = C()
        n = Int(1)
        opts = Ref(TLV).repeated(n, aligned=4)
        w = Int(1).repeated(2, default=[7, 8], aligned=3)
        s = Data(until_marker=b'\0').repeated(2, aligned=2, default=[b'a', b''])
        chk = Int(2)

    def g_SAlign(rng):
        n = rng.randrange(0, 4)
        r = bytes([n])
        for _ in range(n):
            r = pad(r, 4) + g_TLV(rng)
        for _ in range(2):
            r = pad(r, 3) + rb(rng, 1)
        for _ in range(2):
            r = pad(r, 2) + txt(rng, rng.randrange(0, 4), b'ab') + b'\0'
        return r + rb(rng, 2)

    def v_SAlign(rng):
        return maybe(rng, {
            'n': badint(rng, 0, 256),
            'opts': [v_TLV(rng) for _ in range(rng.randrange(0, 3))],
            'w': [badint(rng, 0, 256) for _ in range(rng.randrange(0, 4))],
            's': [badbytes(rng, None, b'ab') for _ in range(rng.randrange(0, 3))],
            'chk': badint(rng, 0, 65536)})

    reg['SAlign'] = (SAlign, g_SAlign, v_SAlign)

    class SClassAlign(Packet):
        __bisturi__ = C(align=4)
        n = Int(1)
        opts = Ref(TLV).repeated(n)
        o = Int(1).when(n)
        chk = Int(4)

    def g_SClassAlign(rng):
        n = rng.randrange(0, 4)
        r = bytes([n])
        r = pad(r, 4)
        for _ in range(n):
            r = pad(r, 4) + g_TLV(rng)
        if n:
            r = pad(r, 4) + rb(rng, 1)
        return pad(r, 4) + rb(rng, 4)

    reg['SClassAlign'] = (SClassAlign, g_SClassAlign, lambda rng: maybe(rng, {
        'n': badint(rng, 0, 256), 'opts': [v_TLV(rng) for _ in range(rng.randrange(0, 3))],
        'o': rng.choice([None, 1, 200]), 'chk': badint(rng, 0, 2**32)}))

    class SDefaults(Packet):
        __bisturi__ = C()
        a = Int(1).repeated(2, default=[1, 2])
        b = Ref(Pt).repeated(2, default=[Pt(x=1), Pt(x=2, y=3)])
        c = Data(until_marker=b'\0').repeated(2, default=[b'a', b'bc'])
        d = Ref(TLV).repeated(1, default=[TLV(type=5, length=1, value=b'v')])

    def g_SDefaults(rng):
        return (rb(rng, 2) + rb(rng, 6) + txt(rng, rng.randrange(0, 3), b'ab') + b'\0' +
                txt(rng, rng.randrange(0, 3), b'ab') + b'\0' + g_TLV(rng))

    reg['SDefaults'] = (SDefaults, g_SDefaults, lambda rng: maybe(rng, {
        'a': [badint(rng, 0, 256) for _ in range(rng.randrange(0, 3))],
        'b': [v_Pt(rng) for _ in range(rng.randrange(0, 3))],
        'c': [badbytes(rng, None, b'ab') for _ in range(rng.randrange(0, 3))],
        'd': [v_TLV(rng) for _ in range(rng.randrange(0, 2))]}, 0.4))

    class SDataRe(Packet):
        # the element remembers the matched delimiter
        __bisturi__ = C()
        items = Data(until_marker=re.compile(b'[,;]')).repeated(3)
        items2 = Data(until_marker=re.compile(b'[,;]'), include_delimiter=True).repeated(2)
        one = Data(until_marker=re.compile(b'[!?]')).when(lambda pkt, **k: len(pkt.items2[0]) > 1)
        last = Data(until_marker=re.compile(b'[,;]+'))

    def g_SDataRe(rng):
        return txt(rng, rng.randrange(4, 30), b'ab,;!?')

    reg['SDataRe'] = (SDataRe, g_SDataRe, lambda rng: maybe(rng, {
        'items': [badbytes(rng, None, b'ab') for _ in range(rng.randrange(0, 4))],
        'items2': [badbytes(rng, None, b'ab,') for _ in range(rng.randrange(0, 3))],
        'one': rng.choice([None, b'a', b'']), 'last': badbytes(rng, None, b'ab')}))

    class SCustom(Packet):
        # elements of kinds that Sequence/Optional cannot know
        __bisturi__ = C()
        n = Int(1)
        xs = Hex().repeated(n & 3)
        o = Hex(default=7).when(n & 4)
        ys = XInt(1).repeated(2, default=[1, 2])
        y = XInt(1).when(n & 8)
        z = XInt(1)

    def g_SCustom(rng):
        n = rng.randrange(0, 16)
        r = bytes([n]) + b''.join(b'%02x' % rng.randrange(256) for _ in range(n & 3))
        if n & 4:
            r += b'%02X' % rng.randrange(256)
        r += rb(rng, 2)
        if n & 8:
            r += rb(rng, 1)
        return r + rb(rng, 1)

    reg['SCustom'] = (SCustom, g_SCustom, lambda rng: maybe(rng, {
        'n': rng.randrange(0, 16), 'xs': [badint(rng, 0, 256) for _ in range(rng.randrange(0, 3))],
        'o': rng.choice([None, 3, 255]), 'ys': [badint(rng, 0, 256) for _ in range(rng.randrange(0, 3))],
        'y': rng.choice([None, 9]), 'z': badint(rng, 0, 256)}))

    class Bag(Packet):
        __bisturi__ = C()
        num = Int(1)
        objects = Int(1).repeated(num)

    class Box(Packet):
        __bisturi__ = C()
        bags = Ref(Bag).repeated(until=lambda pkt, **k: pkt.bags[-1].num == 0)

    class Room(Packet):
        __bisturi__ = C()
        tight = Ref(Box).repeated(2, default=[Box(bags=[Bag()]), Box(bags=[Bag()])])
        loose = Ref(Box).repeated(2, aligned=6, default=[Box(bags=[Bag()]), Box(bags=[Bag()])])

    def g_Bag(rng, n=None):
        n = rng.randrange(1, 4) if n is None else n
        return bytes([n]) + rb(rng, n)

    def g_Box(rng):
        return b''.join(g_Bag(rng) for _ in range(rng.randrange(0, 3))) + b'\0'

    def g_Room(rng):
        r = g_Box(rng) + g_Box(rng)
        for _ in range(2):
            r = pad(r, 6) + g_Box(rng)
        return r

    def v_Bag(rng):
        n = rng.randrange(0, 3)
        return Bag(num=n, objects=[badint(rng, 0, 256) for _ in range(n)])

    def v_Box(rng):
        return Box(bags=[v_Bag(rng) for _ in range(rng.randrange(0, 3))])

    reg['Box'] = (Box, g_Box, lambda rng: maybe(rng, {'bags': [v_Bag(rng) for _ in range(rng.randrange(0, 3))]}))
    reg['Room'] = (Room, g_Room, lambda rng: maybe(rng, {
        'tight': [v_Box(rng) for _ in range(rng.randrange(0, 3))],
        'loose': [v_Box(rng) for _ in range(rng.randrange(0, 3))]}, 0.5))

    # -------------------------------------------------------------- Optionals
    class OOpt(Packet):
        __bisturi__ = C()
        t = Int(1)
        a = Int(4).when(t != 0)
        b = Data(2).when(t == 1)
        c = Ref(Pt).when(lambda pkt, **k: pkt.t > 2, default=Pt(x=9))
        d = Data(until_marker=b'\0').when(t & 4)
        e = Int(3).when(a)
        f = Data(t).when((t > 1) & (t < 6))

    def g_OOpt(rng):
        t = rng.randrange(0, 8)
        r = bytes([t])
        a = 0
        if t != 0:
            a = rng.choice([0, 0, 1, 77777])
            r += a.to_bytes(4, 'big')
        if t == 1:
            r += rb(rng, 2)
        if t > 2:
            r += rb(rng, 3)
        if t & 4:
            r += txt(rng, rng.randrange(0, 3), b'ab') + b'\0'
        if t != 0 and a:
            r += rb(rng, 3)
        if 1 < t < 6:
            r += rb(rng, t)
        return r

    def v_OOpt(rng):
        return maybe(rng, {
            't': badint(rng, 0, 256), 'a': rng.choice([None, 5, 2**33]), 'b': rng.choice([None, b'xy', b'x']),
            'c': rng.choice([None, 0]) if rng.random() < 0.5 else v_Pt(rng),
            'd': rng.choice([None, b'', b'ab']), 'e': rng.choice([None, 3, 2**23]), 'f': rng.choice([None, b'abc'])})

    reg['OOpt'] = (OOpt, g_OOpt, v_OOpt)

    class ODefaults(Packet):
        __bisturi__ = C()
        t = Int(1)
        a = Ref(TLV).when(t, default=TLV(type=1, length=2, value=b'ab'))
        b = Int(2).when(t, default=5)
        c = Data(until_marker=re.compile(b'[!?]')).when(t > 1, default=b'dflt')
        d = Ref(Box).when(t > 2, default=Box(bags=[Bag(num=1, objects=[4]), Bag()]))
        m = Data(4, default=b'v002')
        v2 = Data(2).when(m == b'v002')
        hid = Data(4).when((m[:3] == b'xyz') & (m[3] != b'\x00'))

    def g_ODefaults(rng):
        t = rng.randrange(0, 5)
        r = bytes([t])
        if t:
            r += g_TLV(rng) + rb(rng, 2)
        if t > 1:
            r += txt(rng, rng.randrange(0, 3), b'ab') + rng.choice([b'!', b'?'])
        if t > 2:
            r += g_Box(rng)
        m = rng.choice([b'v002', b'xyz1', b'xyz\0', b'abcd'])
        r += m
        if m == b'v002':
            r += rb(rng, 2)
        if m == b'xyz1':
            r += rb(rng, 4)
        return r

    def v_ODefaults(rng):
        return maybe(rng, {
            't': badint(rng, 0, 256), 'a': rng.choice([None]) if rng.random() < 0.3 else v_TLV(rng),
            'b': rng.choice([None, 7, 70000]), 'c': rng.choice([None, b'q']),
            'd': None if rng.random() < 0.3 else v_Box(rng), 'm': badbytes(rng, 4),
            'v2': rng.choice([None, b'zz']), 'hid': rng.choice([None, b'hhhh'])}, 0.5)

    reg['ODefaults'] = (ODefaults, g_ODefaults, v_ODefaults)

    # -------------------------------------------------------------------- Ref
    class RBasic(Packet):
        __bisturi__ = C()
        begin = Ref(Pt(x=1, y=2))
        end = Ref(Pt)
        extra = Ref(lambda **k: Pt(), default=Pt(y=7))
        sub = TLV
        inst = TLV(type=3, length=1, value=b'z')

    def g_RBasic(rng):
        return rb(rng, 9) + g_TLV(rng) + g_TLV(rng)

    def v_RBasic(rng):
        return maybe(rng, {'begin': v_Pt(rng), 'end': v_Pt(rng), 'extra': v_Pt(rng) if rng.random() < 0.8 else 5,
                           'sub': v_TLV(rng), 'inst': v_TLV(rng)}, 0.4)

    reg['RBasic'] = (RBasic, g_RBasic, v_RBasic)

    class DomainName(Packet):
        __bisturi__ = C()
        length = Int(1)
        name = Data(length)

    class RChooses(Packet):
        __bisturi__ = C()
        type = Int(1, default=0x01)
        address = Ref(type.chooses({
            0x01: Data(4),
            0x04: Data(16),
            0x03: DomainName(),
            0x05: Int(2),
            0x06: Data(until_marker=re.compile(b'[;,]')),
            0x07: Data(until_marker=b'\0', include_delimiter=True),
            0x08: Pt(x=3),
        }), default=b'\x00\x00\x00\x00')
        port = Int(2)

    def g_addr(rng, t):
        if t == 1: return rb(rng, 4)
        if t == 4: return rb(rng, 16)
        if t == 3:
            n = rng.randrange(0, 6)
            return bytes([n]) + txt(rng, n, b'abc.')
        if t == 5: return rb(rng, 2)
        if t == 6: return txt(rng, rng.randrange(0, 4), b'ab') + rng.choice([b';', b','])
        if t == 7: return txt(rng, rng.randrange(0, 4), b'ab') + b'\0'
        if t == 8: return rb(rng, 3)
        return rb(rng, 3)

    def v_addr(rng):
        return rng.choice([rb(rng, 4), rb(rng, 16), DomainName(length=2, name=b'ab'), rng.randrange(0, 65536),
                           b'ab', b'ab\0', v_Pt(rng), None])

    def g_RChooses(rng):
        t = rng.choice([1, 4, 3, 5, 6, 7, 8, 8, 3, 1, 2])
        return bytes([t]) + g_addr(rng, t) + rb(rng, 2)

    reg['RChooses'] = (RChooses, g_RChooses, lambda rng: maybe(rng, {
        'type': rng.choice([1, 4, 3, 5, 6, 7, 8, 9]), 'address': v_addr(rng), 'port': badint(rng, 0, 65536)}))

    class RLambda(Packet):
        # fresh Field objects on every call
        __bisturi__ = C()
        t = Int(1)
        v = Ref(lambda pkt, **k: Int(1) if pkt.t == 1 else Int(2, endianness='little') if pkt.t == 2
                else Data(pkt.t) if pkt.t < 6 else Data(until_marker=re.compile(b'[xy]')) if pkt.t == 6 else Pt(),
                default=0)
        z = Int(1)

    def g_RLambda(rng):
        t = rng.randrange(0, 9)
        body = {1: 1, 2: 2, 3: 3, 4: 4, 5: 5}.get(t)
        if body is not None:
            b = rb(rng, body)
        elif t == 6:
            b = txt(rng, rng.randrange(0, 3), b'ab') + rng.choice([b'x', b'y'])
        else:
            b = rb(rng, 3)
        return bytes([t]) + b + rb(rng, 1)

    reg['RLambda'] = (RLambda, g_RLambda, lambda rng: maybe(rng, {
        't': rng.randrange(0, 9), 'v': rng.choice([0, 255, 65535, 70000, b'abc', b'abcd', None, -1]) if rng.random() < 0.8 else v_Pt(rng),
        'z': badint(rng, 0, 256)}))

    TABLE = {0: Pt(), 1: TLV(), 2: Data(2), 3: Int(1)}

    class RInSeq(Packet):
        # Ref inside sequences; the table hands out the very same objects
        __bisturi__ = C()
        n = Int(1)
        items = Ref(lambda pkt, **k: TABLE[pkt.n & 3], default=Pt()).repeated(
            lambda pkt, **k: (pkt.n >> 2) & 3)
        pts = Ref(Pt).repeated(n & 1, aligned=2)
        opt = Ref(lambda pkt, **k: TABLE[pkt.n & 1], default=TLV()).when(n > 7)

    def g_item(rng, k):
        return [g_Pt, g_TLV, lambda r: rb(r, 2), lambda r: rb(r, 1)][k](rng)

    def g_RInSeq(rng):
        n = rng.randrange(0, 16)
        r = bytes([n]) + b''.join(g_item(rng, n & 3) for _ in range((n >> 2) & 3))
        if n & 1:
            r = pad(r, 2) + g_Pt(rng)
        if n > 7:
            r += g_item(rng, n & 1)
        return r

    def v_item(rng):
        return rng.choice([v_Pt, v_TLV, lambda r: rb(r, 2), lambda r: r.randrange(256)])(rng)

    reg['RInSeq'] = (RInSeq, g_RInSeq, lambda rng: maybe(rng, {
        'n': rng.randrange(0, 16), 'items': [v_item(rng) for _ in range(rng.randrange(0, 3))],
        'pts': [v_Pt(rng) for _ in range(rng.randrange(0, 2))], 'opt': rng.choice([None, 0]) if rng.random() < 0.4 else v_item(rng)}))

    shared = Data(2)

    class RShared(Packet):
        # the same Field object selected by two Ref fields (not thread safe
        # in the original either: excluded from the threaded run)
        __bisturi__ = C()
        a = Ref(lambda **k: shared, default=b'..')
        b = Ref(lambda **k: shared, default=b'--')
        c = Ref(lambda **k: shared, default=b'++').repeated(2)

    reg['RShared'] = (RShared, lambda rng: rb(rng, 8), lambda rng: maybe(rng, {
        'a': badbytes(rng, 2), 'b': badbytes(rng, 2), 'c': [badbytes(rng, 2) for _ in range(rng.randrange(0, 3))]}))

    class REmbed(Packet):
        __bisturi__ = C()
        p2 = Ref(Pt(x=1, y=2), embed=True)
        z = Int(1)

    reg['REmbed'] = (REmbed, lambda rng: rb(rng, 4), lambda rng: maybe(rng, {
        'x': badint(rng, 0, 256), 'y': badint(rng, 0, 65536), 'z': badint(rng, 0, 256)}))

    # ------------------------------------------------------- positions, Em
    class MFolder(Packet):
        __bisturi__ = C()
        off = Int(1)
        payload = Data(2)
        file = Data(4).at(off)
        after = Int(1)

    def g_MFolder(rng):
        off = rng.choice([3, 4, 5, 8, 0, 1, 2, 30])
        r = bytes([off]) + rb(rng, 2)
        r += b'.' * max(0, off - 3) + rb(rng, 5)
        return r

    reg['MFolder'] = (MFolder, g_MFolder, lambda rng: maybe(rng, {
        'off': rng.choice([3, 4, 7, 0, 1, 2]), 'payload': badbytes(rng, 2), 'file': badbytes(rng, 4), 'after': badint(rng, 0, 256)}))

    def bogus(field, reference, is_alignment):
        field.reference = reference
        field.is_alignment = is_alignment
        return field

    class MExpr(Packet):
        # not supported position (an expression): fails when it is used
        __bisturi__ = C()
        off = Int(1)
        d = Data(2).at(off + 1)

    class MBogusRef(Packet):
        __bisturi__ = C()
        off = Int(1)
        d = bogus(Data(2).at(off), 'bogus', False)

    class MBogusAlign(Packet):
        __bisturi__ = C()
        off = Int(1)
        d = bogus(Data(2).at(off), 'begins', None)
        e = bogus(Data(1).aligned(off), 'innermost-pkt', 1)

    for c_ in (MExpr, MBogusRef, MBogusAlign):
        reg[c_.__name__] = (c_, lambda rng: bytes([rng.randrange(0, 6)]) + rb(rng, rng.randrange(0, 9)), lambda rng: maybe(rng, {
            'off': rng.randrange(0, 6), 'd': badbytes(rng, 2), 'e': badbytes(rng, 1)}))
    reg['MExpr'] = (MExpr, reg['MExpr'][1], lambda rng: maybe(rng, {'off': rng.randrange(0, 6), 'd': badbytes(rng, 2)}))
    reg['MBogusRef'] = (MBogusRef, reg['MBogusRef'][1], reg['MExpr'][2])

    class MBack(Packet):
        __bisturi__ = C()
        i = Int(1).at(4)
        d = Data(4).shift(-4 - 1)
        j = Int(1).shift(lambda pkt, **k: pkt.i & 3)
        e = Int(2).at(lambda pkt, **k: 8 + (pkt.j & 1), 'begins')

    reg['MBack'] = (MBack, lambda rng: rb(rng, 14), lambda rng: maybe(rng, {
        'i': badint(rng, 0, 256), 'd': badbytes(rng, 4), 'j': badint(rng, 0, 256), 'e': badint(rng, 0, 65536)}))

    class Vec(Packet):
        __bisturi__ = C()
        data = Data(4).at(2)

    class PointB(Packet):
        __bisturi__ = C()
        x = Int(2)
        y = Int(2).aligned(4, 'begins')

    class PointI(Packet):
        __bisturi__ = C()
        x = Int(2)
        y = Int(2).aligned(4, 'innermost-pkt')
        z = Int(1).aligned(2, 'current-offset')

    class MNested(Packet):
        __bisturi__ = C()
        name = Data(until_marker=b'\0')
        pb = Ref(PointB)
        pi = Ref(PointI)
        vecs = Ref(Vec).repeated(2)
        k = Int(1).at(1, 'current-offset')
        tail = Em().aligned(4)

    def g_MNested(rng):
        r = txt(rng, rng.randrange(0, 4), b'ab') + b'\0'
        r += rb(rng, 2)
        r = pad(r, 4) + rb(rng, 2)
        start = len(r)
        r += rb(rng, 2)
        r += b'.' * ((4 - (len(r) - start) % 4) % 4) + rb(rng, 3)
        for _ in range(2):
            r += b'..' + rb(rng, 4)
        r += b'.' + rb(rng, 1)
        return pad(r, 4)

    reg['MNested'] = (MNested, g_MNested, lambda rng: maybe(rng, {
        'name': badbytes(rng, None, b'ab'), 'pb': PointB(x=rng.randrange(9), y=rng.randrange(9)),
        'pi': PointI(x=rng.randrange(9)), 'vecs': [Vec(data=rb(rng, 4)) for _ in range(rng.randrange(0, 3))],
        'k': badint(rng, 0, 256)}, 0.5))

    class MDatagram(Packet):
        __bisturi__ = C()
        size = Int(1)
        data = Data(size)
        tail = Em().aligned(4)
        opts = Ref(TLV).repeated(size & 1).aligned(4)
        opts2 = Ref(TLV).repeated(size & 1).shift(3)
        chk = Int(2)

    def g_MDatagram(rng):
        n = rng.randrange(0, 7)
        r = pad(bytes([n]) + rb(rng, n), 4)
        if n & 1:
            r += g_TLV(rng)
        r += b'...'
        if n & 1:
            r += g_TLV(rng)
        return r + rb(rng, 2)

    reg['MDatagram'] = (MDatagram, g_MDatagram, lambda rng: maybe(rng, {
        'size': rng.randrange(0, 5), 'data': badbytes(rng), 'opts': [v_TLV(rng) for _ in range(rng.randrange(0, 2))],
        'opts2': [v_TLV(rng) for _ in range(rng.randrange(0, 2))], 'chk': badint(rng, 0, 65536)}))

    class MAlignAll(Packet):
        __bisturi__ = C(align=4, endianness='little')
        a = Int(1)
        b = Int(2)
        c = Data(a)
        d = Pt
        e = Int(2).at(0, 'current-offset')
        f = Bits(8)
        g = Int(1)

    def g_MAlignAll(rng):
        n = rng.randrange(0, 6)
        r = pad(bytes([n]), 4) + rb(rng, 2)
        r = pad(r, 4) + rb(rng, n)
        r = pad(r, 4) + rb(rng, 3) + rb(rng, 2)
        r = pad(r, 4) + rb(rng, 1)
        r = pad(r, 4) + rb(rng, 1)
        return r

    reg['MAlignAll'] = (MAlignAll, g_MAlignAll, lambda rng: maybe(rng, {
        'a': rng.randrange(0, 6), 'b': badint(rng, 0, 65536), 'c': badbytes(rng), 'd': v_Pt(rng),
        'e': badint(rng, 0, 65536), 'f': badint(rng, 0, 256), 'g': badint(rng, 0, 256)}))

    return reg


THREAD_EXCLUDED = ('RShared', )

FAMILIES = [
    ['RBasic', 'SDefaults', 'ODefaults', 'Room', 'Pt', 'TLV', 'SCount', 'SCustom'],
    ['DRe', 'SDataRe', 'B16', 'B24', 'DStr', 'DSbl', 'B40'],
    ['RChooses', 'RInSeq', 'RLambda', 'MNested', 'MDatagram', 'SAlign', 'OOpt', 'SUntil'],
]


def definition_errors():
    ''' Class definitions which must fail (or not) in the same way. '''
    from bisturi.packet import Packet
    from bisturi.field import Int, Data, Bits, Ref
    out = []

    def attempt(label, f):
        try:
            f()
            out.append([label, 'defined'])
        except Exception as e:
            out.append([label, type(e).__name__, norm(str(e))])

    def w1():
        class W1(Packet):
            fo = Bits(12)
            fl = Bits(1)

    def w2():
        class W2(Packet):
            fo = Bits(9)
            f1 = Bits(4)
            i = Int()
            f3 = Bits(3)

    def w3():
        class W3(Packet):
            a = Bits(4)
            b = Bits(4).at(3)

    def w4():
        class W4(Packet):
            i = Int(1)
            a = Bits(7)

    def w5():
        class W5(Packet):
            a = Bits(8)
            i = Int(1)
            b = Bits(16)
            c = Bits(7)

    def w6():
        class W6(Packet):
            __bisturi__ = {'align': 4}
            a = Bits(4)
            b = Bits(4)

    def g1():
        class G1(Packet):
            a = Bits(8)
            b = Bits(8).when(a)

    def g2():
        class G2(Packet):
            a = Bits(8).repeated(2)

    def r1():
        class R1(Packet):
            a = Ref(lambda **k: Int(1))

    def r2():
        class R2(Packet):
            a = Ref(Int(1))

    def d1():
        class D1(Packet):
            a = Data(until_marker=re.compile('x'))

    def d2():
        class D2(Packet):
            a = Data(until_marker=b'x', include_delimiter=True, consume_delimiter=False)

    def s1():
        class S1(Packet):
            a = Int(1).repeated(2).repeated(2)

    def s2():
        class S2(Packet):
            a = Int(1).repeated()

    for label, f in [('w1', w1), ('w2', w2), ('w3', w3), ('w4', w4), ('w5', w5), ('w6', w6), ('g1', g1), ('g2', g2),
                     ('r1', r1), ('r2', r2), ('d1', d1), ('d2', d2), ('s1', s1), ('s2', s2)]:
        attempt(label, f)
    return out


# --------------------------------------------------------------------------
#  worker
# --------------------------------------------------------------------------
def derive_inputs(rng, gen, count):
    inputs = []
    for _ in range(count):
        r = rng.random()
        raw = gen(rng)
        if r < 0.50:
            pass
        elif r < 0.68:
            raw = raw[:rng.randrange(0, len(raw) + 1)]
        elif r < 0.86:
            raw = bytearray(raw)
            for _ in range(rng.randrange(1, 4)):
                how = rng.random()
                pos = rng.randrange(0, len(raw) + 1)
                if how < 0.5 and pos < len(raw):
                    raw[pos] = rng.choice([0, 1, 2, 3, 4, 255, 128, raw[pos] ^ (1 << rng.randrange(8)), rng.randrange(256)])
                elif how < 0.75:
                    raw[pos:pos] = rb(rng, rng.randrange(1, 3))
                else:
                    del raw[pos:pos + rng.randrange(1, 3)]
            raw = bytes(raw)
        elif r < 0.93:
            raw = raw + rb(rng, rng.randrange(1, 5))
        else:
            raw = rb(rng, rng.randrange(0, 20))
        inputs.append(raw)
    return inputs


def worker(outpath, expected_root, seed, scale):
    import bisturi
    root = os.path.dirname(os.path.dirname(os.path.abspath(bisturi.__file__)))
    assert root == expected_root, (root, expected_root)
    sys.setswitchinterval(1e-6)

    Packet, PacketError, canon, exc, rec_pack, rec_unpack, rec_build = make_tools()

    out = open(outpath, 'w')
    stats = {'records': 0, 'unpack_ok': 0, 'unpack_err': 0, 'pack_err': 0, 'impure': 0,
             'bystander_changed': 0, 'aliased': 0, 'thread_mismatch': 0, 'classes': 0}

    def emit(tag, **kw):
        kw['tag'] = tag
        out.write(json.dumps(kw, sort_keys=True) + '\n')
        stats['records'] += 1

    emit('root', root=os.path.basename(root) == 'orig_pkg')

    # -- A ----------------------------------------------------------------
    emit('definition-errors', results=definition_errors())

    regs = {'generated': build(False), 'generic': build(True)}
    for mode, reg in regs.items():
        for name, (cls, _, _) in reg.items():
            is_generic = (cls.pack_impl is Packet.pack_impl, cls.unpack_impl is Packet.unpack_impl)
            assert is_generic == ((mode == 'generic'), ) * 2, (mode, name, is_generic)
    stats['classes'] = len(regs['generated'])

    n_inputs = max(10, int(140 * scale))
    n_values = max(5, int(50 * scale))

    thread_tasks = []
    # -- B, C -------------------------------------------------------------
    for name in regs['generated']:
        # the same inputs for both modes
        rng = random.Random('%s/%s/in' % (seed, name))
        inputs = derive_inputs(rng, regs['generated'][name][1], n_inputs)
        for mode, reg in regs.items():
            cls, gen, valgen = reg[name]
            d = canon(cls())
            emit('default', cls=name, mode=mode, v=d, pack=rec_pack(cls()))
            for i, raw in enumerate(inputs):
                r = rec_unpack(cls, raw)
                if r['r'] == 'ok':
                    stats['unpack_ok'] += 1
                    if r['pack'][0] != 'ok':
                        stats['pack_err'] += 1
                    if not (r['pure_values'] and r['pure_pack']):
                        stats['impure'] += 1
                else:
                    stats['unpack_err'] += 1
                emit('unpack', cls=name, mode=mode, i=i, raw=raw.hex(), res=r)
                if i % 3 == 0 and name.startswith('D'):
                    emit('unpack-lazy', cls=name, mode=mode, i=i, res=rec_unpack(cls, Lazy(raw)))
                if i % 5 == 0:
                    # start somewhere else: negative offsets (as slices do)
                    # and offsets beyond the end included
                    orng = random.Random('%s/%s/%i/off' % (seed, name, i))
                    for o in orng.sample([-1, -2, -3, -5, 1, 2, 3, len(raw), len(raw) + 2, -len(raw) - 3, len(raw) // 2], 3):
                        junk = rb(orng, abs(o)) if orng.random() < 0.5 else b''
                        emit('unpack-at', cls=name, mode=mode, i=i, offset=o, junk=junk.hex(),
                             res=rec_unpack(cls, junk + raw, o))
                if name not in THREAD_EXCLUDED and i % 4 == 0:
                    thread_tasks.append((mode, name, 'unpack', raw))

            vrng = random.Random('%s/%s/val' % (seed, name))
            for i in range(n_values):
                kwargs = valgen(vrng)
                sets = []
                if vrng.random() < 0.5:
                    more = valgen(vrng)
                    sets = [(k, v) for k, v in more.items() if vrng.random() < 0.5]
                r = rec_build(cls, kwargs, sets)
                if r.get('pack', ['ok'])[0] != 'ok':
                    stats['pack_err'] += 1
                if r['r'] == 'built' and not (r['pure_values'] and r['pure_pack']):
                    stats['impure'] += 1
                emit('build', cls=name, mode=mode, i=i, res=r)

    # -- D: histories -------------------------------------------------------
    def reach(pkt):
        ''' ids of the mutable sub-objects (lists, packets) of pkt '''
        ids = {}

        def walk(o, path):
            if isinstance(o, Packet):
                if path:
                    ids[id(o)] = path
                for fname, _, _, _ in o.get_fields():
                    walk(getattr(o, fname, None), path + '.' + fname)
            elif isinstance(o, list):
                ids[id(o)] = path
                for j, x in enumerate(o):
                    walk(x, '%s[%i]' % (path, j))

        walk(pkt, '')
        return ids

    def subobjects(pkt):
        subs = []

        def walk(o, top):
            if isinstance(o, Packet):
                subs.append(o)
                for fname, _, _, _ in o.get_fields():
                    walk(getattr(o, fname, None), False)
            elif isinstance(o, list):
                subs.append(o)
                for x in o:
                    walk(x, False)

        walk(pkt, True)
        return subs

    def mutate_inplace(rng, pkt):
        subs = subobjects(pkt)
        o = rng.choice(subs)
        if isinstance(o, list):
            r = rng.random()
            if o and r < 0.35:
                o.pop(rng.randrange(len(o)))
                return 'pop'
            if o and r < 0.8:
                o.insert(rng.randrange(len(o) + 1), copy.deepcopy(rng.choice(o)))
                return 'dup'
            if len(o) > 1:
                o.reverse()
                return 'reverse'
            return 'nop'
        names = [n for n, _, _, _ in o.get_fields() if not n.startswith('_shift_to_')]
        cands = [n for n in names if isinstance(getattr(o, n, None), (int, bytes)) and not isinstance(getattr(o, n, None), bool)]
        if not cands:
            return 'nop'
        n = rng.choice(cands)
        cur = getattr(o, n)
        if isinstance(cur, int):
            setattr(o, n, rng.choice([0, 1, 2, 3, 7, 200, rng.randrange(256)]))
        else:
            setattr(o, n, txt(rng, rng.choice([len(cur), len(cur), rng.randrange(0, 5)]), b'ab;,X\x00!'))
        return 'set ' + n

    def snapshot(p):
        return [canon(p), rec_pack(p)]

    n_steps = max(30, int(260 * scale))
    for mode, reg in regs.items():
        for fi, family in enumerate(FAMILIES):
            rng = random.Random('%s/hist/%i' % (seed, fi))
            live = []  # [name, pkt, snapshot]
            for step in range(n_steps):
                ops = ['new', 'unpack', 'set', 'inplace', 'inplace', 'pack', 'reunpack']
                if len(live) > 6:
                    ops.append('drop')
                    ops.append('drop')
                op = rng.choice(ops) if live else 'new'
                touched = None
                note = None
                if op == 'new':
                    name = rng.choice(family)
                    cls, gen, valgen = reg[name]
                    kwargs = valgen(rng)
                    try:
                        p = cls(**kwargs)
                        live.append([name, p, None])
                        touched = len(live) - 1
                    except Exception as e:
                        note = exc(e)
                elif op == 'unpack':
                    name = rng.choice(family)
                    cls, gen, valgen = reg[name]
                    raw = derive_inputs(rng, gen, 1)[0]
                    try:
                        p = cls.unpack(raw)
                        live.append([name, p, None])
                        touched = len(live) - 1
                    except Exception as e:
                        note = exc(e)
                elif op == 'reunpack':
                    # parse again what a live packet packs: a second packet
                    # of the same class with the same content
                    j = rng.randrange(len(live))
                    name, p, snap = live[j]
                    if snap[1][0] == 'ok':
                        try:
                            q = reg[name][0].unpack(bytes.fromhex(snap[1][1]))
                            live.append([name, q, None])
                            touched = len(live) - 1
                        except Exception as e:
                            note = exc(e)
                elif op == 'set':
                    j = rng.randrange(len(live))
                    name, p, _ = live[j]
                    more = reg[name][2](rng)
                    for k_, v_ in more.items():
                        try:
                            setattr(p, k_, v_)
                        except Exception as e:
                            note = exc(e)
                    touched = j
                elif op == 'inplace':
                    j = rng.randrange(len(live))
                    note = mutate_inplace(rng, live[j][1])
                    touched = j
                elif op == 'pack':
                    j = rng.randrange(len(live))
                    note = [rec_pack(live[j][1]), rec_pack(live[j][1])]
                    touched = j
                elif op == 'drop':
                    j = rng.randrange(len(live))
                    del live[j]

                # bystanders must not change
                changed = []
                for j, entry in enumerate(live):
                    if j == touched:
                        continue
                    now = snapshot(entry[1])
                    if now != entry[2]:
                        changed.append(j)
                        entry[2] = now
                if touched is not None:
                    live[touched][2] = snapshot(live[touched][1])
                    again = snapshot(live[touched][1])
                    if again != live[touched][2]:
                        stats['impure'] += 1
                        note = ['IMPURE', note]

                # aliasing
                aliased = []
                seen = {}
                for j, entry in enumerate(live):
                    for ident, path in reach(entry[1]).items():
                        if ident in seen and seen[ident][0] != j:
                            aliased.append([seen[ident][0], seen[ident][1], j, path])
                        seen.setdefault(ident, (j, path))

                stats['bystander_changed'] += len(changed)
                stats['aliased'] += len(aliased)
                emit('hist', mode=mode, family=fi, step=step, op=op, note=note, touched=touched,
                     changed=changed, aliased=aliased,
                     state=hashlib.sha1(json.dumps([e[2] for e in live], sort_keys=True).encode()).hexdigest(),
                     touched_state=(live[touched][2] if touched is not None else None))

    # -- E: threads ---------------------------------------------------------
    trng = random.Random('%s/threads' % seed)
    for mode, reg in regs.items():
        for name in reg:
            if name in THREAD_EXCLUDED:
                continue
            for _ in range(max(2, int(8 * scale))):
                thread_tasks.append((mode, name, 'build', reg[name][2](trng)))
    trng.shuffle(thread_tasks)

    def run_task(task):
        mode, name, kind, payload = task
        cls = regs[mode][name][0]
        if kind == 'unpack':
            return rec_unpack(cls, payload)
        # the values may hold packets: every run works on its own copy
        return rec_build(cls, copy.deepcopy(payload), [])

    sequential = [run_task(t) for t in thread_tasks]
    for rnd in range(3):
        results = [None] * len(thread_tasks)
        barrier = threading.Barrier(4)
        errors = []

        def body(tid):
            try:
                barrier.wait()
                for i in range(tid, len(thread_tasks), 4):
                    results[i] = run_task(thread_tasks[i])
            except BaseException as e:  # pragma: no cover
                errors.append(repr(e))

        ths = [threading.Thread(target=body, args=(t, )) for t in range(4)]
        [t.start() for t in ths]
        [t.join() for t in ths]
        mism = [i for i in range(len(thread_tasks)) if results[i] != sequential[i]]
        stats['thread_mismatch'] += len(mism) + len(errors)
        emit('threads', round=rnd, tasks=len(thread_tasks), mismatches=mism[:20], errors=errors,
             digest=hashlib.sha1(json.dumps(sequential, sort_keys=True).encode()).hexdigest())

    emit('stats', **stats)
    out.close()


# --------------------------------------------------------------------------
#  driver
# --------------------------------------------------------------------------
def main():
    ap = argparse.ArgumentParser()
    ap.add_argument('--worker', nargs=2, metavar=('OUT', 'ROOT'))
    ap.add_argument('--seed', default='1')
    ap.add_argument('--scale', type=float, default=1.0)
    ap.add_argument('--keep', action='store_true', help='keep the two traces')
    args = ap.parse_args()

    if args.worker:
        # the directory of this script comes before PYTHONPATH: drop it so
        # 'bisturi' is imported from the requested root and only from there
        sys.path[:] = [x for x in sys.path if os.path.abspath(x or '.') != HERE]
        sys.path.insert(0, args.worker[1])
        worker(args.worker[0], args.worker[1], args.seed, args.scale)
        return 0

    import shutil
    traces = {}
    procs = {}
    for label, root in (('orig', os.path.join(HERE, 'orig_pkg')), ('modified', HERE)):
        assert os.path.isdir(os.path.join(root, 'bisturi')), root
        trace = os.path.join(HERE, '.difftest_%s.jsonl' % label)
        traces[label] = trace
        env = dict(os.environ)
        env['PYTHONPATH'] = root
        env['PYTHONDONTWRITEBYTECODE'] = '1'
        env['PYTHONHASHSEED'] = '0'
        # one after the other: both write the same generated modules
        shutil.rmtree(os.path.join(HERE, '__pkts__'), ignore_errors=True)
        p = subprocess.run(
            [sys.executable, os.path.abspath(__file__), '--worker', trace, root,
             '--seed', args.seed, '--scale', str(args.scale)],
            env=env, cwd=HERE, timeout=3600)
        if p.returncode != 0:
            print("worker '%s' failed with status %i" % (label, p.returncode))
            return 2
    shutil.rmtree(os.path.join(HERE, '__pkts__'), ignore_errors=True)

    with open(traces['orig']) as f:
        a = f.readlines()
    with open(traces['modified']) as f:
        b = f.readlines()

    ndiff = 0
    shown = 0
    for i in range(max(len(a), len(b))):
        la = a[i] if i < len(a) else '<missing>\n'
        lb = b[i] if i < len(b) else '<missing>\n'
        if i == 0:
            # which package was loaded: must differ
            assert json.loads(la)['root'] is True and json.loads(lb)['root'] is False
            continue
        if la != lb:
            ndiff += 1
            if shown < 8:
                shown += 1
                print('--- difference at record %i' % i)
                print('  orig:     ' + la[:1500].rstrip())
                print('  modified: ' + lb[:1500].rstrip())

    sa = json.loads(a[-1])
    sb = json.loads(b[-1])
    print('orig     stats: %s' % json.dumps(sa, sort_keys=True))
    print('modified stats: %s' % json.dumps(sb, sort_keys=True))
    print('records compared: %i, differences: %i' % (max(len(a), len(b)), ndiff))
    if not args.keep:
        for t in traces.values():
            os.remove(t)
    return 0 if ndiff == 0 else 1


if __name__ == '__main__':
    sys.exit(main())
