#!/venv/bin/python
''' Differential test: ORIGINAL bisturi (pristine copy under
    ./orig_pkg/bisturi) against the MODIFIED package (./bisturi).

    Usage:   /venv/bin/python difftest.py [--scale N] [--keep]
    Exit 0 and a last line "ZERO DIFFERENCES" if (and only if) every run of
    the modified package gives exactly the results of the original one.

    The same file is the driver and the worker.  The driver copies itself
    as 'dt_scenario.py' into scratch folders below ./_dt_work and runs it
    with --worker in subprocesses (PYTHONPATH selects the package), so each
    run has its own (or a deliberately shared / poisoned) __pkts__ folder.

    What a worker does: for every option set (vectorize, annotate,
    generate_for_pack, generate_for_unpack: the 16 combinations) it defines
    the same ~17 packet classes and feeds them with seeded pseudo random
    inputs that do not depend on the library under test:
      - unpack of valid, truncated, corrupted, extended and purely random
        inputs, also with explicit (negative, beyond the end) offsets;
        observed: the whole tree of values (internal slots included), the
        re-packed bytes, or for a PacketError: phase, fields_stack,
        original_error_message and the partially parsed packet;
      - small random programs (constructor keywords, set, del, pack) with
        in and out of range values of right and wrong types;
        observed: bytes of each pack() (twice: pack is pure), the errors, and
        the tree of values at the end.
    and a sample is replayed from 4 threads and compared with the sequential
    results.
'''
import os
import pickle
import random
import re
import shutil
import subprocess
import sys
import threading

HERE = os.path.dirname(os.path.abspath(__file__))

###########################################################################
#                                 WORKER                                  #
###########################################################################


def build(opts):
    ''' Define the packet classes under one set of options. '''
    from bisturi.packet import Packet
    from bisturi.field import Int, Data, Bits, Ref
    from bisturi.descriptor import Auto, AutoLength

    def conf(**extra):
        d = dict(opts)
        d.update(extra)
        return d

    class Ints(Packet):
        __bisturi__ = conf()
        a = Int(1)
        b = Int(2)
        c = Int(4, signed=True)
        d = Int(8)
        e = Int(2, endianness='little')
        f = Int(1, signed=True)
        g = Int(4, endianness='little', signed=True)
        h = Int(8, signed=True)

    class Odd(Packet):
        __bisturi__ = conf()
        a = Int(2)
        b = Int(3)
        c = Int(1)
        d = Int(5, signed=True, endianness='little')
        e = Int(4)
        f = Int(4, default=7)

    class Blob(Packet):
        __bisturi__ = conf()
        magic = Data(4, default=b'BSTR')
        n = Int(1)
        empty = Data(0)
        tail = Data(3)
        x = Int(2)

    class Var(Packet):
        __bisturi__ = conf()
        length = Int(1)
        payload = Data(length)
        line = Data(until_marker=b'\n')
        crc = Int(2)
        word = Data(until_marker=re.compile(b'[;,]'))
        fin = Int(1)

    class Flags(Packet):
        __bisturi__ = conf()
        hi = Bits(4)
        lo = Bits(3)
        z = Bits(1)
        w = Bits(12)
        v = Bits(4)
        n = Int(2)

    class Point(Packet):
        __bisturi__ = conf()
        x = Int(2)
        y = Int(2, signed=True)

    class Line(Packet):
        __bisturi__ = conf()
        kind = Int(1)
        begin = Ref(Point)
        end = Ref(Point(x=1, y=2))
        w = Int(1)

    class Seq(Packet):
        __bisturi__ = conf()
        count = Int(1)
        items = Int(2).repeated(count)
        pts = Ref(Point).repeated(until=lambda pkt, **k: pkt.pts[-1].x == 0)
        end = Int(1)

    class Opt(Packet):
        __bisturi__ = conf()
        t = Int(1)
        a = Int(2).when(t == 1)
        b = Data(2).when(t)
        c = Int(4)

    class Moves(Packet):
        __bisturi__ = conf()
        pos = Int(1, signed=True)
        a = Int(2)
        far = Int(2).at(pos)
        al = Int(4).aligned(4)
        sh = Int(1).shift(2)
        last = Int(2)

    class Described(Packet):
        __bisturi__ = conf()
        length = Int(1).describe(AutoLength('data'))
        bits = Int(2).describe(Auto(lambda pkt: len(pkt.data) * 8))
        data = Data(length)
        k = Int(1)

    class Little(Packet):
        __bisturi__ = conf(endianness='little')
        a = Int(2)
        b = Int(4)
        c = Int(2, endianness='big')
        d = Int(1)

    class Aligned(Packet):
        __bisturi__ = conf(align=4)
        a = Int(1)
        b = Int(2)
        c = Data(3)
        d = Int(4)

    class Custom(Packet):
        __bisturi__ = conf()
        a = Int(1)
        b = Int(2)

        def pack_impl(self, fragments, **k):
            fragments.append(b'!')
            return Packet.pack_impl(self, fragments, **k)

        def unpack_impl(self, raw, offset, **k):
            return Packet.unpack_impl(self, raw, offset + 1, **k)

    class Choice(Packet):
        __bisturi__ = conf()
        t = Int(1)
        body = Ref(
            lambda pkt, **k: Point() if pkt.t == 0 else
            (Int(2) if pkt.t == 1 else Blob()),
            default=Point()
        )
        z = Int(1)

    class Point3D(Packet):
        __bisturi__ = conf()
        point_2d = Ref(Point(x=1, y=2), embed=True)
        z = Int(1)

    class Outer(Packet):
        __bisturi__ = conf()
        n = Int(1)
        lines = Ref(Line).repeated(n)
        flags = Ref(Flags)
        tail = Int(2)

    # -- library independent generators of valid inputs ---------------------
    def rb(rng, n):
        return bytes(rng.getrandbits(8) for _ in range(n))

    def point(rng, zero=None):
        x = 0 if zero else rng.choice([1, 2, 0x100, 0xffff, rng.getrandbits(16) or 1])
        if zero is None and rng.random() < .2:
            x = 0
        return x.to_bytes(2, 'big') + rb(rng, 2)

    def line(rng):
        return rb(rng, 1) + point(rng) + point(rng) + rb(rng, 1)

    def v_var(rng):
        n = rng.choice([0, 1, 2, 5, 17])
        text = bytes(rng.choice(b'abc xyz') for _ in range(rng.randrange(6)))
        word = bytes(rng.choice(b'pqr') for _ in range(rng.randrange(4)))
        return bytes([n]) + rb(rng, n) + text + b'\n' + rb(rng, 2) + \
            word + rng.choice([b';', b',']) + rb(rng, 1)

    def v_seq(rng):
        n = rng.randrange(4)
        pts = b''.join(point(rng, zero=False) for _ in range(rng.randrange(3)))
        return bytes([n]) + rb(rng, 2 * n) + pts + point(rng, zero=True) + \
            rb(rng, 1)

    def v_opt(rng):
        t = rng.choice([0, 1, 2, 255])
        return bytes([t]) + (rb(rng, 2) if t == 1 else b'') + \
            (rb(rng, 2) if t else b'') + rb(rng, 4)

    def v_moves(rng):
        pos = rng.choice([3, 5, 8, 12, 20, 27, 30, 100, 0xfe, 0x80, 0])
        return bytes([pos]) + rb(rng, 39)

    def v_described(rng):
        n = rng.choice([0, 1, 3, 9])
        return bytes([n]) + rb(rng, 2) + rb(rng, n) + rb(rng, 1)

    def v_choice(rng):
        t = rng.choice([0, 1, 2, 9])
        body = {0: 4, 1: 2}.get(t, 10)
        return bytes([t]) + rb(rng, body) + rb(rng, 1)

    def v_outer(rng):
        n = rng.randrange(4)
        return bytes([n]) + b''.join(line(rng) for _ in range(n)) + \
            rb(rng, 5) + rb(rng, 2)

    fixed = lambda n: (lambda rng: rb(rng, n))

    # name -> class, generator of valid inputs, element maker for the lists
    return [
        (Ints, fixed(30), None),
        (Odd, fixed(19), None),
        (Blob, fixed(10), None),
        (Var, v_var, None),
        (Flags, fixed(5), None),
        (Point, fixed(4), None),
        (Line, fixed(10), None),
        (Seq, v_seq, {'items': 'int', 'pts': Point}),
        (Opt, v_opt, None),
        (Moves, v_moves, None),
        (Described, v_described, None),
        (Little, fixed(9), None),
        (Aligned, fixed(16), None),
        (Custom, fixed(4), None),
        (Choice, v_choice, None),
        (Point3D, fixed(5), None),
        (Outer, v_outer, {'lines': Line}),
    ]


def redefinitions():
    from bisturi.packet import Packet
    from bisturi.field import Int, Data
    raw = bytes([0x81, 2, 0x83, 4, 5, 0x86, 7, 8, 9, 10, 11, 12])
    variants = [
        lambda: (Int(2), Int(2)),
        lambda: (Int(2, endianness='little'), Int(2, endianness='little')),
        lambda: (Int(2, signed=True), Int(2, signed=True)),
        lambda: (Int(2), Int(2, signed=True)),
        lambda: (Data(2), Data(2)),
        lambda: (Int(4), Int(4)),
        lambda: (Int(4, signed=True), Int(4, endianness='little')),
        lambda: (Int(3), Int(3)),
        lambda: (Int(2), Int(2)),
    ]
    for opts in ({}, {'vectorize': False}, {'annotate': False},
                 {'generate_for_pack': False}, {}):
        for v in variants:
            first, second = v()

            class Same(Packet):
                __bisturi__ = dict(opts)
                a = first
                b = second

            yield Same, raw


UNSET = '<unset>'
INT_POOL = [
    0, 1, 2, 7, 127, 128, 255, 256, 32767, 32768, 65535, 65536, 2**24 - 1,
    2**24, 2**31 - 1, 2**31, 2**32 - 1, 2**32, 2**40, 2**63 - 1, 2**63,
    2**64 - 1, 2**64, 2**70, -1, -2, -128, -129, -32768, -32769, -2**31,
    -2**31 - 1, -2**63, -2**63 - 1, -2**70
]
ODD_POOL = [None, b'x', 'str', 1.5, True, [], (1, ), b'']


def tree(v, depth=0):
    ''' Library independent picture of a value (packets: every slot). '''
    from bisturi.packet import Packet
    if depth > 8:
        return '<deep>'
    if isinstance(v, Packet):
        names = []
        for n in list(type(v).__slots__) + [
            n for n, _ in type(v).__bisturi__.get('original_fields_in_class', [])
        ]:
            if n not in names:
                names.append(n)
        items = []
        for n in names:
            try:
                items.append((n, tree(getattr(v, n), depth + 1)))
            except AttributeError:
                items.append((n, UNSET))
            except Exception as e:
                items.append((n, ('raises', type(e).__name__, str(e))))
        return ('P', type(v).__name__, items)
    if isinstance(v, (list, tuple)):
        return (type(v).__name__, [tree(i, depth + 1) for i in v])
    if isinstance(v, (bytes, bytearray)):
        return ('b', bytes(v).hex())
    if v is None or isinstance(v, (int, str, float)):
        return (type(v).__name__, repr(v))
    return ('?', type(v).__name__)


def error_record(e):
    from bisturi.packet import PacketError
    if isinstance(e, PacketError):
        return (
            'PacketError', e.was_error_found_in_unpacking_phase,
            list(e.fields_stack), e.original_error_message,
            tree(getattr(e, 'packet', None))
        )
    return ('exc', type(e).__name__, str(e))


def do_unpack(cls, raw, offset):
    try:
        if offset is None:
            pkt = cls.unpack(raw)
        else:
            pkt = cls.unpack(raw, offset)
    except Exception as e:
        return ('unpack-failed', error_record(e))

    t = tree(pkt)
    try:
        packed = pkt.pack()
        again = pkt.pack()
    except Exception as e:
        return ('unpacked', t, 'repack-failed', error_record(e))
    return ('unpacked', t, packed.hex(), again == packed, tree(pkt))


def unpack_inputs(rng, valid_gen, n):
    ''' [(raw, offset)]: valid, truncated, corrupted, extended, random. '''
    out = []
    for _ in range(n):
        v = valid_gen(rng)
        out.append((v, None))
        out.append((v + bytes(rng.getrandbits(8) for _ in range(rng.randrange(1, 6))), None))

        # truncated
        out.append((v[:rng.randrange(len(v) + 1)], None))
        if len(v) > 1:
            out.append((v[:-1], None))

        # corrupted: bytes changed, inserted, removed
        c = bytearray(v)
        for _ in range(rng.randrange(1, 4)):
            what = rng.randrange(3)
            if what == 0 and c:
                c[rng.randrange(len(c))] = rng.getrandbits(8)
            elif what == 1:
                c.insert(rng.randrange(len(c) + 1), rng.getrandbits(8))
            elif c:
                del c[rng.randrange(len(c))]
        out.append((bytes(c), None))

        # explicit offsets: in the middle, negative, at/after the end
        pad = bytes(rng.getrandbits(8) for _ in range(rng.randrange(4)))
        out.append((pad + v, len(pad)))
        out.append(
            (
                v,
                rng.choice(
                    [
                        -1, -2, -3, -4, -len(v), -len(v) - 1, -len(v) + 1,
                        len(v), len(v) + 1, len(v) - 1, len(v) - 2, 1, 2, 3,
                        1000, -1000, True
                    ]
                )
            )
        )
        out.append((v + v, -len(v)))

    for _ in range(n):
        out.append(
            (bytes(rng.getrandbits(8) for _ in range(rng.randrange(48))), None)
        )
    out.append((b'', None))
    return out


def random_value(rng, current, elem=None, depth=0):
    from bisturi.packet import Packet
    r = rng.random()
    if r < .06:
        return rng.choice(ODD_POOL)
    if isinstance(current, bool) or isinstance(current, int):
        return rng.choice(INT_POOL) if r < .3 else rng.getrandbits(
            rng.choice([3, 7, 7, 7, 8, 15, 16, 32, 64])
        )
    if isinstance(current, bytes):
        n = len(current) if r < .5 else rng.randrange(8)
        return bytes(rng.getrandbits(8) for _ in range(n))
    if isinstance(current, list):
        n = rng.randrange(4)
        if elem == 'int' or elem is None:
            return [rng.choice(INT_POOL[:12]) for _ in range(n)]
        return [randomize(rng, elem(), depth + 1) for _ in range(n)]
    if isinstance(current, Packet):
        if r < .8 and depth < 3:
            return randomize(rng, type(current)(), depth + 1)
        return current
    # None (optional fields) or unknown
    return rng.choice([None, rng.choice(INT_POOL[:10]), b'ab', b'abc'])


def public_names(pkt):
    return [
        n for n, _ in type(pkt).__bisturi__.get('original_fields_in_class', [])
    ]


def randomize(rng, pkt, depth=0, elems=None):
    for n in public_names(pkt):
        if rng.random() < .6:
            try:
                cur = getattr(pkt, n)
            except Exception:
                cur = 0
            try:
                setattr(
                    pkt, n, random_value(rng, cur, (elems or {}).get(n), depth)
                )
            except Exception:
                pass
    return pkt


def do_program(cls, rng, elems):
    ''' constructor keywords, then a few set / del / pack operations. '''
    log = []
    proto = cls()
    names = public_names(proto)
    kw = {}
    for n in names:
        if rng.random() < .3:
            try:
                cur = getattr(proto, n)
            except Exception:
                cur = 0
            kw[n] = random_value(rng, cur, (elems or {}).get(n))
    try:
        pkt = cls(**kw)
    except Exception as e:
        return [('ctor-failed', error_record(e))]

    for _ in range(rng.randrange(1, 6)):
        op = rng.random()
        n = rng.choice(names)
        try:
            if op < .5:
                try:
                    cur = getattr(pkt, n)
                except Exception:
                    cur = 0
                setattr(pkt, n, random_value(rng, cur, (elems or {}).get(n)))
                log.append(('set', n))
            elif op < .6:
                delattr(pkt, n)
                log.append(('del', n))
            else:
                a = pkt.pack()
                b = pkt.pack()
                log.append(('pack', a.hex(), a == b))
        except Exception as e:
            log.append(('failed', error_record(e)))

    try:
        a = pkt.pack()
        log.append(('pack', a.hex(), pkt.pack() == a))
    except Exception as e:
        log.append(('failed', error_record(e)))
    log.append(('end', tree(pkt)))
    return log


def worker(outfile, scale):
    import itertools
    import bisturi
    results = []
    thread_jobs = []

    all_opts = []
    for vec, ann, gp, gu in itertools.product([True, False], repeat=4):
        all_opts.append(
            {
                'vectorize': vec,
                'annotate': ann,
                'generate_for_pack': gp,
                'generate_for_unpack': gu
            }
        )
    all_opts.append({})  # all by default

    for oi, opts in enumerate(all_opts):
        classes = build(opts)
        for cls, valid_gen, elems in classes:
            key = (oi, cls.__name__)
            rng = random.Random('%i/%s' % key)

            # which implementation is installed is part of the behaviour
            from bisturi.packet import Packet
            results.append(
                (
                    key + ('impl', ),
                    (
                        cls.pack_impl is Packet.pack_impl,
                        cls.unpack_impl is Packet.unpack_impl
                    )
                )
            )
            results.append((key + ('default', ), do_program(cls, random.Random(0), elems)[-2:]))

            for i, (raw, offset) in enumerate(
                unpack_inputs(rng, valid_gen, 6 * scale)
            ):
                r = do_unpack(cls, raw, offset)
                results.append((key + ('u', i), r))
                if oi in (0, 5, len(all_opts) - 1) and i % 3 == 0:
                    thread_jobs.append((cls, raw, offset, r))

            for i in range(12 * scale):
                results.append((key + ('p', i), do_program(cls, rng, elems)))

    # same named classes, one after the other, whose generated functions
    # differ very little (or nothing but in a struct format): the module
    # cached for one must never serve another (in the next run the folder
    # holds the last one when the first one is defined)
    for i, (klass, raw) in enumerate(redefinitions()):
        results.append((('redef', i, 'u'), do_unpack(klass, raw, None)))
        results.append((('redef', i, 'u3'), do_unpack(klass, b'abc' + raw, 3)))
        results.append(
            (('redef', i, 'p'), do_program(klass, random.Random(i), None))
        )

    # the same jobs from 4 threads at once: same results as sequentially
    mismatches = []

    def run(jobs):
        for cls, raw, offset, expected in jobs:
            if do_unpack(cls, raw, offset) != expected:
                mismatches.append((cls.__name__, raw, offset))

    threads = [
        threading.Thread(target=run, args=(thread_jobs[i::2] * 2, ))
        for i in range(4)
    ]
    for t in threads:
        t.start()
    for t in threads:
        t.join()
    results.append((('threads', ), len(mismatches)))

    with open(outfile, 'wb') as f:
        pickle.dump(
            {
                'results': results,
                'bisturi': os.path.dirname(os.path.abspath(bisturi.__file__))
            }, f
        )


###########################################################################
#                                 DRIVER                                  #
###########################################################################

WORK = os.path.join(HERE, '_dt_work')
ORIG = os.path.join(HERE, 'orig_pkg')
MOD = HERE


def run_worker(label, pythonpath, folder, scale, env_extra=None, flags=()):
    os.makedirs(folder, exist_ok=True)
    scenario = os.path.join(folder, 'dt_scenario.py')
    if not os.path.exists(scenario):
        shutil.copyfile(os.path.abspath(__file__), scenario)
        # same mtime everywhere: nothing may depend on it but be fair
        os.utime(scenario, (1700000000, 1700000000))
    out = os.path.join(folder, 'out-%s.pickle' % label)
    env = {
        k: v
        for k, v in os.environ.items()
        if not k.startswith('BISTURI') and k != 'PYTHONDONTWRITEBYTECODE'
    }
    env['PYTHONPATH'] = pythonpath
    env['PYTHONHASHSEED'] = '0'
    env.update(env_extra or {})
    subprocess.run(
        [sys.executable, *flags, scenario, '--worker', out, '--scale',
         str(scale)],
        check=True,
        cwd=folder,
        env=env
    )
    with open(out, 'rb') as f:
        data = pickle.load(f)
    expected = os.path.join(pythonpath, 'bisturi')
    assert os.path.samefile(data['bisturi'], expected), (data['bisturi'], expected)
    return data['results']


def compare(label, base, other):
    ndiff = 0
    if len(base) != len(other):
        print('  %s: %i records instead of %i' % (label, len(other), len(base)))
        ndiff += 1
    for (k1, r1), (k2, r2) in zip(base, other):
        if k1 != k2 or r1 != r2:
            ndiff += 1
            if ndiff <= 5:
                print('  DIFF %s at %r\n     orig: %r\n     this: %r' % (label, k1, r1, r2))
    print('%-34s %6i records, %i differences' % (label, len(other), ndiff))
    return ndiff


def pkts_files(folder):
    p = os.path.join(folder, '__pkts__')
    if not os.path.isdir(p):
        return []
    return sorted(f for f in os.listdir(p) if not f.startswith('__pycache__'))


def main():
    scale = 1
    if '--scale' in sys.argv:
        scale = int(sys.argv[sys.argv.index('--scale') + 1])

    shutil.rmtree(WORK, ignore_errors=True)
    total = 0
    d = lambda name: os.path.join(WORK, name)

    base = run_worker('orig', ORIG, d('orig'), scale)
    assert base[-1] == (('threads', ), 0), base[-1]
    npkterr = sum(
        1 for k, r in base if r and r[0] == 'unpack-failed'
    )
    nok = sum(1 for k, r in base if r and r[0] == 'unpacked')
    print('baseline: %i records (%i unpacked, %i unpack failures)' % (len(base), nok, npkterr))

    # determinism of the harness itself: original against original
    total += compare('orig again (warm cache)', base, run_worker('orig2', ORIG, d('orig'), scale))

    total += compare('mod, cold cache', base, run_worker('cold', MOD, d('mod'), scale))
    assert pkts_files(d('mod')), 'the modified package wrote no cache?'
    total += compare('mod, warm cache', base, run_worker('warm', MOD, d('mod'), scale))

    # cache files damaged in every possible way: truncated, garbage,
    # foreign but complete (another class' file), empty, a directory
    pk = os.path.join(d('mod'), '__pkts__')
    rng = random.Random(1234)
    files = [f for f in pkts_files(d('mod')) if f.endswith('.py')]
    texts = {f: open(os.path.join(pk, f), 'rb').read() for f in files}
    for i, f in enumerate(files):
        path = os.path.join(pk, f)
        st = os.stat(path)
        how = i % 5
        if how == 0:
            data = texts[f][:rng.randrange(len(texts[f]))]
        elif how == 1:
            data = texts[files[(i + 1) % len(files)]]
        elif how == 2:
            data = b''
        elif how == 3:
            data = b'\x00\xff garbage (' + texts[f][40:]
        else:
            # same size, same mtime: the stale bytecode would be taken
            data = texts[f].replace(b'offset', b'offzet', 1)
        with open(path, 'wb') as fh:
            fh.write(data)
        os.utime(path, ns=(st.st_atime_ns, st.st_mtime_ns))
    total += compare('mod, damaged cache', base, run_worker('damaged', MOD, d('mod'), scale))

    # both versions sharing the folder, one after the other
    for i, (label, pp) in enumerate(
        [('orig', ORIG), ('mod', MOD), ('orig', ORIG), ('mod', MOD)]
    ):
        r = run_worker('shared%i' % i, pp, d('shared'), scale)
        total += compare('shared folder, step %i (%s)' % (i, label), base, r)

    total += compare(
        'mod, no bytecode', base,
        run_worker(
            'nobytecode', MOD, d('nobytecode'), scale,
            env_extra={'PYTHONDONTWRITEBYTECODE': '1'}
        )
    )

    # the cache folder cannot be created: everything from memory
    os.makedirs(d('nofolder'))
    with open(os.path.join(d('nofolder'), '__pkts__'), 'w') as f:
        f.write('not a folder')
    total += compare(
        'mod, __pkts__ is a file', base,
        run_worker('nofolder', MOD, d('nofolder'), scale)
    )

    # only for the variant that has the switch
    sys.path.insert(0, MOD)
    import bisturi.codegen
    if hasattr(bisturi.codegen, 'clear_cache'):
        total += compare(
            'mod, BISTURI_NO_CACHE=1', base,
            run_worker(
                'nocache', MOD, d('nocache'), scale,
                env_extra={'BISTURI_NO_CACHE': '1'}
            )
        )
        left = pkts_files(d('nocache'))
        print('   files in __pkts__ with BISTURI_NO_CACHE=1: %r' % left)
        total += len(left)
        for v in ('0', ''):
            r = run_worker(
                'nocache' + v, MOD, d('nocache' + v), scale,
                env_extra={'BISTURI_NO_CACHE': v}
            )
            total += compare('mod, BISTURI_NO_CACHE=%r' % v, base, r)
            if not pkts_files(d('nocache' + v)):
                print('   BISTURI_NO_CACHE=%r disabled the cache!' % v)
                total += 1

        # a warm cache is left alone (neither used nor touched) by the switch
        before = {
            f: os.stat(os.path.join(pk, f)).st_mtime_ns
            for f in pkts_files(d('mod'))
        }
        total += compare(
            'mod, NO_CACHE on a warm folder', base,
            run_worker(
                'nocachewarm', MOD, d('mod'), scale,
                env_extra={'BISTURI_NO_CACHE': '1'}
            )
        )
        after = {
            f: os.stat(os.path.join(pk, f)).st_mtime_ns
            for f in pkts_files(d('mod'))
        }
        if before != after:
            print('   BISTURI_NO_CACHE=1 touched the cache folder')
            total += 1

        n = bisturi.codegen.clear_cache(d('mod'))
        left = pkts_files(d('mod'))
        print('   clear_cache removed %r, left %r' % (n, left))
        total += len(left)
        total += compare(
            'mod, after clear_cache', base,
            run_worker('cleared', MOD, d('mod'), scale)
        )
        bisturi.codegen.clear_cache(d('does-not-exist'))  # never raises
        bisturi.codegen.clear_cache(d('nofolder'))

    if '--keep' not in sys.argv:
        shutil.rmtree(WORK, ignore_errors=True)

    if total:
        print('%i DIFFERENCES' % total)
        sys.exit(1)
    print('ZERO DIFFERENCES')


if __name__ == '__main__':
    if '--worker' in sys.argv:
        worker(
            sys.argv[sys.argv.index('--worker') + 1],
            int(sys.argv[sys.argv.index('--scale') + 1])
        )
    else:
        main()
