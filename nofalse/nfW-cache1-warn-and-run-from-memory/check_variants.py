#!/venv/bin/python
''' Differential / crash / interleaving check of alternative implementations
    of the generated-code cache of bisturi (bisturi/codegen.py).

    usage:  /venv/bin/python check_variants.py [options] [variantN.diff ...]

    Without diffs, all the variant*.diff next to this file are checked. Each
    diff is applied on a copy of the pristine library (orig_pkg/, created with
    `git archive HEAD bisturi | tar -x -C orig_pkg` if it is not there) and the
    patched copy is compared with the pristine one, which is also run through
    everything as a control ('orig').

    The oracle for a declaration is what the ORIGINAL library does with it in
    a fresh process with an empty cache: the digest of the outcome of
    unpacking/packing a fixed set of inputs (values, bytes, exception type and
    message) and a fingerprint of the bytecode of pack_impl/unpack_impl.

    Sections (select with --sections):
      hist   (a) cold cache, warm cache, reversed order, same-process
                 redefinitions, bytecode on/off
      cross  (a) cache produced for every other same-named declaration (real
                 files of X under the names that Y looks for, same times),
                 forged stale .pyc (right source + .pyc of another declaration
                 with matching mtime/size), garbage .pyc
      trunc  (a) every published file truncated at (almost) every length,
                 garbage contents; in process and in fresh processes; a
                 directory / dangling link in place of the file, a file in
                 place of __pkts__
      kill   (b) the defining process dies (os._exit) before its k-th
                 file-system call on the cache, for every k, and in the middle
                 of every write (several cut points); then fresh processes
                 define the same and another same-named declaration
      errs       OSError(EACCES, EROFS, ENOSPC, EIO, ...) injected at the k-th
                 call for every k: the definition must succeed (variant2 may
                 raise the broken-disk errnos), nothing of ours is left behind
      inter      two real processes stepped by this script, one file-system
                 call at a time, through all the schedules with up to two
                 preemptions, with the same temporary name forced on both
      stress     four processes defining same-named classes in a loop on one
                 directory, same temporary name forced

    Besides behaviour, two hygiene invariants are checked where nobody seeded
    garbage: a published cache file is never observed incomplete and no
    temporary file is left behind by a process that did not die.

    --selfcheck builds three deliberately broken libraries (no cookie check;
    in-place write without completion marker; temporary file opened with 'w')
    and requires that this script flags each of them.

    Everything happens in _cv_work/ next to this file (removed at the end
    unless --keep).
'''
import argparse
import concurrent.futures
import errno
import glob
import hashlib
import json
import os
import random
import re
import shutil
import struct
import subprocess
import sys
import threading
import time
import traceback

HERE = os.path.dirname(os.path.abspath(__file__))
PY = sys.executable
WORK = os.path.join(HERE, '_cv_work')

# --------------------------------------------------------------------------
# declarations under test (written as decls.py in every work directory)
# --------------------------------------------------------------------------
DECLS_SOURCE = '''\
from bisturi.packet import Packet
from bisturi.field import Int, Data, Ref

def d0():
    class P(Packet):
        a = Int(2)
        b = Int(4)
    return P

def d1():
    class P(Packet):
        a = Int(2)
        b = Int(4, endianness='little')
    return P

def d2():
    class P(Packet):
        a = Int(2)
        c = Data(a)
    return P

def d3():
    class P(Packet):
        __bisturi__ = {'vectorize': False}
        a = Int(2)
        b = Int(4)
    return P

def d4():
    class P(Packet):
        __bisturi__ = {'annotate': False}
        a = Int(2)
        b = Int(4)
    return P

def d5():
    class P(Packet):
        __bisturi__ = {'generate_for_pack': False}
        a = Int(2)
        b = Int(4)
    return P

def d6():
    class P(Packet):
        __bisturi__ = {'generate_for_pack': False, 'generate_for_unpack': False}
        a = Int(2)
        b = Int(4)
    return P

def d7():
    class P(Packet):
        aa = Int(1)
        bb = Int(1)
    return P

def d8():
    class P(Packet):
        bb = Int(1)
        aa = Int(1)
    return P

def d9():
    class P(Packet):
        x = Int(1)
        y = Int(3)
    return P

def d10():
    class P(Packet):
        x = Int(3)
        y = Int(1)
    return P

def d11():
    class Q(Packet):
        n = Int(1)
        items = Int(2).repeated(count=n)
    return Q

def d12():
    class Sub(Packet):
        v = Int(1)
    class R(Packet):
        h = Int(1)
        s = Ref(Sub)
        t = Int(2, signed=True)
    return R

def d13():
    class Sub(Packet):
        v = Int(2)
        w = Int(1)
    class R(Packet):
        h = Int(1)
        s = Ref(Sub).repeated(count=2)
    return R
'''
NDECLS = 14
SAME_NAMED = list(range(0, 11))  # all of them define a class named P
CLASS_OF = {i: 'P' for i in SAME_NAMED}
CLASS_OF.update({11: 'Q', 12: 'R', 13: 'R'})
SAME_LENGTH_PAIRS = [(7, 8), (9, 10)]  # generated sources of the same size

EXPECT_LOUD = {'variant2'}  # may raise ENOSPC/EIO/EDQUOT (error policy B)
EXPECT_WARN = {'variant1'}  # must warn (error policy A)
BROKEN_DISK = ('ENOSPC', 'EIO', 'EDQUOT')


# ==========================================================================
#                               CHILD SIDE
# ==========================================================================
FIXED_INPUTS = [
    b'', b'\x00', b'\x00\x02', b'\x00\x02ab', b'\x00\x02abcdef',
    b'\x01\x02\x03\x04\x05\x06', b'\x02\x00\x01\x00\x02\x00\x03',
    b'\xff\xfe\xfd\xfc\xfb\xfa\xf9\xf8', b'\x03aabbcc', b'\x00\x05hello!',
]


def _inputs(light):
    rng = random.Random(20240917)
    n = 6 if light else 40
    return FIXED_INPUTS + [
        bytes(rng.getrandbits(8) for _ in range(rng.randrange(0, 14)))
        for _ in range(n)
    ]


_ADDR = re.compile(r'0x[0-9a-fA-F]+')
_GENERATED = re.compile(r'File "[^"]*__pkts__[^"]*", line \d+')
_PLACES = []  # (path, placeholder): where the library and the work dir are


def _text(e):
    ''' the message of an exception without what legitimately changes from
        run to run: addresses, where the library is installed, the name and
        the line numbers of the generated file '''
    text = _ADDR.sub('0x?', str(e))
    for path, name in _PLACES:
        text = text.replace(path, name)
    return _GENERATED.sub('File "<generated>"', text)


def _norm(value, Packet):
    if isinstance(value, Packet):
        return ('pkt', type(value).__name__, _describe(value, Packet))
    if isinstance(value, (list, tuple)):
        return [_norm(v, Packet) for v in value]
    if isinstance(value, (int, bytes, str, type(None))):
        return value
    return _ADDR.sub('0x?', repr(value))


def _describe(pkt, Packet):
    return [
        (f[0], _norm(getattr(pkt, f[0], '<unset>'), Packet))
        for f in pkt.get_fields()
    ]


def _fingerprint(cls):
    out = []
    for name in ('pack_impl', 'unpack_impl'):
        fn = getattr(cls, name)
        fn = getattr(fn, '__func__', fn)
        code = fn.__code__
        out.append(
            (
                name, '__pkts__' in code.co_filename, code.co_code.hex(),
                code.co_names, code.co_varnames,
                tuple(_ADDR.sub('0x?', repr(k)) for k in code.co_consts)
            )
        )
    return hashlib.sha1(repr(out).encode()).hexdigest()[:16]


def probe(cls, light=False):
    from bisturi.packet import Packet
    out = []
    try:
        out.append(('default', cls().pack()))
    except Exception as e:
        out.append(('default-exc', type(e).__name__, _text(e)))
    for raw in _inputs(light):
        try:
            p = cls.unpack(raw)
            out.append(('ok', _describe(p, Packet), p.pack()))
        except Exception as e:
            out.append(('exc', type(e).__name__, _text(e)))
    behaviour = hashlib.sha1(repr(out).encode()).hexdigest()[:16]
    return [behaviour, _fingerprint(cls)]


class Seam:
    ''' Counts (and optionally gates, kills at, or fails) every file-system
        call that touches the cache directory of the work directory. '''

    def __init__(self, root, spec, logpath):
        self.root = os.path.abspath(root)
        self.kill = spec.get('kill')  # step number
        self.cut = spec.get('cut')  # None or number of items written
        self.inject = spec.get('inject')  # [step number, errno]
        self.gate = spec.get('gate', False)
        self.armed = False
        self.n = 0
        self.fds = set()
        self.log = os.open(
            logpath, os.O_WRONLY | os.O_CREAT | os.O_APPEND, 0o666
        )
        self._exit = os._exit
        self._write = os.write
        self._read = os.read

    def relevant(self, path):
        if isinstance(path, int):
            return path in self.fds
        try:
            path = os.fspath(path)
        except TypeError:
            return False
        if isinstance(path, bytes):
            path = os.fsdecode(path)
        path = os.path.abspath(path)
        return path == self.root or path.startswith(self.root + os.sep)

    def rel(self, path):
        if isinstance(path, int):
            return 'fd'
        path = os.path.abspath(os.fsdecode(os.fspath(path)))
        return os.path.relpath(path, os.path.dirname(self.root))

    def step(self, kind, path, size=None, newlines=None):
        ''' Called BEFORE the real call. Returns None (go on) or the number
            of items to write before dying. '''
        if not self.armed:
            return None
        self.n += 1
        rec = {'n': self.n, 'kind': kind, 'path': self.rel(path)}
        if size is not None:
            rec['size'] = size
            rec['newlines'] = newlines
        self._write(self.log, (json.dumps(rec) + '\n').encode())
        if self.gate:
            self._write(1, b'S\n')
            if not self._read(0, 1):
                self._exit(70)
        if self.kill == self.n:
            if self.cut is not None and size is not None:
                return self.cut
            self._exit(77)
        if self.inject and self.inject[0] == self.n:
            code = self.inject[1]
            raise OSError(code, os.strerror(code), self.rel(path))
        return None


def _newline_positions(data):
    nl = '\n' if isinstance(data, str) else b'\n'
    out, i = [], data.find(nl)
    while i != -1:
        out.append(i + 1)
        i = data.find(nl, i + 1)
    return out[-14:]


class FileProxy:
    def __init__(self, seam, real, path):
        self.__dict__.update(_seam=seam, _real=real, _path=path)

    def __getattr__(self, name):
        return getattr(self._real, name)

    def __enter__(self):
        return self

    def __exit__(self, *exc):
        self.close()
        return False

    def __iter__(self):
        return iter(self._real)

    def read(self, *a):
        self._seam.step('read', self._path)
        return self._real.read(*a)

    def write(self, data):
        cut = self._seam.step(
            'write', self._path, len(data), _newline_positions(data)
        )
        if cut is not None:
            self._real.write(data[:cut])
            self._real.flush()
            self._seam._exit(77)
        return self._real.write(data)

    def close(self):
        if not self._real.closed:
            try:
                self._seam.step('close', self._path)
            except OSError:
                self._real.close()
                raise
        return self._real.close()


def install_seam(seam):
    import builtins
    import io
    import importlib._bootstrap_external as BE

    def wrap_path(mod, name, nargs=1):
        real = getattr(mod, name)

        def wrapper(*a, **k):
            paths = a[:nargs]
            hit = [p for p in paths if seam.relevant(p)]
            if hit:
                seam.step(name, hit[-1])
            return real(*a, **k)

        wrapper.__name__ = name
        setattr(mod, name, wrapper)
        return real

    for name in (
        'stat', 'lstat', 'mkdir', 'rmdir', 'remove', 'unlink', 'listdir',
        'scandir', 'utime', 'chmod', 'truncate', 'access', 'readlink'
    ):
        if hasattr(os, name):
            wrap_path(os, name)
    for name in ('replace', 'rename', 'link', 'symlink'):
        wrap_path(os, name, 2)

    real_os_open = os.open

    def os_open(path, flags, mode=0o777, **k):
        if seam.relevant(path):
            seam.step('os.open', path)
            fd = real_os_open(path, flags, mode, **k)
            seam.fds.add(fd)
            return fd
        return real_os_open(path, flags, mode, **k)

    os.open = os_open

    real_os_write = os.write

    def os_write(fd, data):
        if fd in seam.fds:
            cut = seam.step('os.write', fd, len(data), _newline_positions(
                bytes(data)))
            if cut is not None:
                real_os_write(fd, bytes(data)[:cut])
                seam._exit(77)
        return real_os_write(fd, data)

    os.write = os_write

    for name in ('fsync', 'fdatasync', 'ftruncate', 'fstat', 'fchmod'):
        if hasattr(os, name):
            real = getattr(os, name)

            def fdwrapper(fd, *a, _real=real, _name=name, **k):
                if fd in seam.fds:
                    seam.step('os.' + _name, fd)
                return _real(fd, *a, **k)

            setattr(os, name, fdwrapper)

    real_os_close = os.close

    def os_close(fd):
        if fd in seam.fds:
            seam.fds.discard(fd)
            try:
                seam.step('os.close', fd)
            except OSError:
                real_os_close(fd)
                raise
        return real_os_close(fd)

    os.close = os_close

    real_open = builtins.open

    def my_open(file, mode='r', *a, **k):
        if not isinstance(file, int) and seam.relevant(file):
            seam.step('open:' + mode, file)
            return FileProxy(seam, real_open(file, mode, *a, **k), file)
        return real_open(file, mode, *a, **k)

    builtins.open = my_open
    io.open = my_open

    # what importlib does on its own (stat of the source, read of the
    # source and of the .pyc, atomic write of the .pyc)
    class OsProxy:
        def __init__(self, real):
            self.__dict__['_real'] = real

        def __getattr__(self, name):
            return getattr(self._real, name)

        def stat(self, path, *a, **k):
            if seam.relevant(path):
                seam.step('imp.stat', path)
            return self._real.stat(path, *a, **k)

        def mkdir(self, path, *a, **k):
            if seam.relevant(path):
                seam.step('imp.mkdir', path)
            return self._real.mkdir(path, *a, **k)

        def open(self, path, *a, **k):
            if seam.relevant(path):
                seam.step('imp.open', path)
                fd = self._real.open(path, *a, **k)
                seam.fds.add(fd)
                return fd
            return self._real.open(path, *a, **k)

        def replace(self, src, dst, *a, **k):
            if seam.relevant(dst):
                seam.step('imp.replace', dst)
            return self._real.replace(src, dst, *a, **k)

        def unlink(self, path, *a, **k):
            if seam.relevant(path):
                seam.step('imp.unlink', path)
            return self._real.unlink(path, *a, **k)

    class IoProxy:
        def __init__(self, real):
            self.__dict__['_real'] = real

        def __getattr__(self, name):
            return getattr(self._real, name)

        def open_code(self, path):
            if seam.relevant(path):
                seam.step('imp.open_code', path)
                return FileProxy(seam, self._real.open_code(path), path)
            return self._real.open_code(path)

        def FileIO(self, file, mode='r', *a, **k):
            if seam.relevant(file):
                real = self._real.FileIO(file, mode, *a, **k)
                if isinstance(file, int):
                    seam.fds.discard(file)
                return FileProxy(seam, real, 'fd' if isinstance(
                    file, int) else file)
            return self._real.FileIO(file, mode, *a, **k)

    BE._os = OsProxy(BE._os)
    BE._io = IoProxy(BE._io)

    # FileProxy of an int path: make rel() happy
    real_rel = seam.rel

    def rel(path):
        if path == 'fd':
            return 'fd'
        return real_rel(path)

    seam.rel = rel


def cache_files(workdir, cls_name=None):
    ''' published cache files (not temporaries) '''
    pat = 'decls_%s*.py' % (cls_name or '')
    return sorted(glob.glob(os.path.join(workdir, '__pkts__', pat)))


def child_main(jobpath):
    with open(jobpath) as f:
        job = json.load(f)
    workdir = job['workdir']
    sys.stdout = sys.stderr
    sys.path.insert(0, job['pkg'])
    _PLACES.extend([(job['pkg'], '<lib>'), (workdir, '<work>')])
    import warnings
    import importlib.util
    import bisturi.packet
    import bisturi.field
    import bisturi.codegen

    if job.get('force_tmp'):
        # every process comes up with the same temporary name
        import secrets
        import uuid
        os.getpid = lambda: 4242
        random.getrandbits = lambda n: 0x5eed5eed & ((1 << n) - 1)
        secrets.token_hex = lambda n=32: '5e' * n
        secrets.token_bytes = lambda n=32: b'\x5e' * n
        secrets.token_urlsafe = lambda n=32: 'Xg' * n
        uuid.uuid4 = lambda: uuid.UUID(int=0x5eed5eed5eed5eed5eed5eed5eed5eed)

    spec = importlib.util.spec_from_file_location(
        'decls', os.path.join(workdir, 'decls.py')
    )
    decls = importlib.util.module_from_spec(spec)
    sys.modules['decls'] = decls
    spec.loader.exec_module(decls)

    seam = None
    if job.get('seam') is not None:
        seam = Seam(
            os.path.join(workdir, '__pkts__'), job['seam'], job['steplog']
        )
        install_seam(seam)

    result = {'ops': [], 'warnings': []}
    classes = []

    def define(i, light=False):
        ''' returns [behaviour, fingerprint] or ['EXC', text] '''
        try:
            if seam:
                seam.armed = True
            try:
                cls = getattr(decls, 'd%i' % i)()
            finally:
                if seam:
                    seam.armed = False
        except BaseException as e:
            if isinstance(e, SystemExit):
                raise
            return [
                'EXC', '%s: %s | errno=%s' % (
                    type(e).__name__, e, getattr(e, 'errno', None)
                )
            ]
        classes.append((i, cls))
        return probe(cls, light)

    with warnings.catch_warnings(record=True) as caught:
        warnings.simplefilter('always')
        for op in job['ops']:
            kind = op[0]
            if kind == 'define':
                result['ops'].append(['define', op[1], define(op[1])])
            elif kind == 'reprobe':
                for i, cls in classes:
                    result['ops'].append(['reprobe', i, probe(cls)])
            elif kind == 'sweep':
                result['ops'].extend(child_sweep(workdir, op[1], define))
            elif kind == 'loop':
                # stress: op = ['loop', [decls...], iterations, seed, oracle]
                rng = random.Random(op[3])
                bad = []
                for it in range(op[2]):
                    i = rng.choice(op[1])
                    got = define(i, light=True)
                    del classes[:]
                    if got != op[4][str(i)]:
                        bad.append([it, i, got])
                result['ops'].append(['loop', len(bad), bad[:5]])
        for w in caught:
            if issubclass(w.category, DeprecationWarning):
                continue
            result['warnings'].append(
                [w.category.__name__, str(w.message)[:200]]
            )

    if seam:
        result['steps'] = seam.n
    tmp = job['result'] + '.part'
    with open(tmp, 'w') as f:
        json.dump(result, f)
    os.replace(tmp, job['result'])
    if seam and seam.gate:
        os.write(1, b'D\n')


def child_sweep(workdir, i, define):
    ''' in-process: every published file of the class truncated at (almost)
        every length and filled with garbage; the class is defined again
        each time '''
    out = []
    first = define(i, light=True)
    out.append(['sweep-base', i, first])
    files = cache_files(workdir, CLASS_OF[i])
    snapshot = {}
    for f in files:
        with open(f, 'rb') as fh:
            snapshot[f] = fh.read()
    rng = random.Random(99)
    for f in files:
        data = snapshot[f]
        n = len(data)
        cuts = set(range(0, min(n, 200))) | set(range(max(0, n - 160), n))
        cuts |= set(range(0, n, 5))
        cuts |= {p for p in range(n) if data[p:p + 1] == b'\n'}
        cuts |= {p + 1 for p in range(n) if data[p:p + 1] == b'\n'}
        cuts.discard(n)
        muts = [('cut', c, data[:c]) for c in sorted(cuts)]
        other = b'f' * 40
        cookie = re.search(rb"BISTURI_PACKET_COOKIE = '([0-9a-f]{40})'", data)
        muts += [
            ('nul', 0, b'\0' * 64),
            ('rand', 0, bytes(rng.getrandbits(8) for _ in range(300))),
            ('syntax', 0, b'def pack_impl(:\n'),
            ('plain', 0, b'x = 1\n'),
            ('raises', 0, data + b'\nraise RuntimeError("boom")\n'),
            ('tail', 0, data + b'garbage ((('),
            ('dup', 0, data + data[:n // 2]),
            ('flip', 0, data[:n // 2] + bytes([data[n // 2] ^ 0x20]) +
             data[n // 2 + 1:]),
        ]
        if cookie:
            c = cookie.group(1)
            muts += [
                ('othercookie', 0, data.replace(c, other)),
                ('othermarker', 0, data[:n - 60] + data[n - 60:].replace(
                    c, other)),
                ('otherhead', 0, data[:n - 60].replace(c, other) +
                 data[n - 60:]),
            ]
        for tag, c, content in muts:
            for g, d in snapshot.items():
                with open(g, 'wb') as fh:
                    fh.write(d)
            with open(f, 'wb') as fh:
                fh.write(content)
            got = define(i, light=True)
            if got != first:
                out.append(
                    ['sweep-bad', i, [os.path.basename(f), tag, c, got]]
                )
        out.append(['sweep-count', i, len(muts)])
    return out


# ==========================================================================
#                               PARENT SIDE
# ==========================================================================
_counter = [0]
_counter_lock = threading.Lock()


def fresh_dir(tag):
    with _counter_lock:
        _counter[0] += 1
        n = _counter[0]
    d = os.path.join(WORK, 'w', '%s-%05d' % (tag, n))
    os.makedirs(d)
    with open(os.path.join(d, 'decls.py'), 'w') as f:
        f.write(DECLS_SOURCE)
    # every decls.py alike, also for a .pyc validated by mtime and size
    os.utime(os.path.join(d, 'decls.py'), (1700000000, 1700000000))
    return d


def clone_dir(src, tag):
    with _counter_lock:
        _counter[0] += 1
        n = _counter[0]
    d = os.path.join(WORK, 'w', '%s-%05d' % (tag, n))
    shutil.copytree(src, d, symlinks=True)
    for junk in glob.glob(os.path.join(d, '_job*')) + glob.glob(
        os.path.join(d, '_res*')
    ) + glob.glob(os.path.join(d, '_steps*')):
        os.remove(junk)
    return d


def child_env(bytecode):
    env = dict(os.environ)
    env.pop('PYTHONDONTWRITEBYTECODE', None)
    if not bytecode:
        env['PYTHONDONTWRITEBYTECODE'] = '1'
    env['PYTHONHASHSEED'] = '0'
    return env


def make_job(pkg, workdir, ops, seam=None, force_tmp=False):
    with _counter_lock:
        _counter[0] += 1
        n = _counter[0]
    job = {
        'pkg': pkg, 'workdir': workdir, 'ops': ops, 'seam': seam,
        'force_tmp': force_tmp,
        'result': os.path.join(workdir, '_res%05d.json' % n),
        'steplog': os.path.join(workdir, '_steps%05d.log' % n),
    }
    jobpath = os.path.join(workdir, '_job%05d.json' % n)
    with open(jobpath, 'w') as f:
        json.dump(job, f)
    return job, jobpath


def read_result(job, rc, err=''):
    out = {'rc': rc, 'stderr': err[-2000:]}
    if os.path.exists(job['result']):
        with open(job['result']) as f:
            out.update(json.load(f))
    if os.path.exists(job['steplog']):
        with open(job['steplog']) as f:
            out['steplog'] = [json.loads(line) for line in f if line.strip()]
    else:
        out['steplog'] = []
    return out


def run_child(pkg, workdir, ops, bytecode=True, seam=None, force_tmp=False):
    job, jobpath = make_job(pkg, workdir, ops, seam, force_tmp)
    p = subprocess.run(
        [PY, os.path.abspath(__file__), '--child', jobpath],
        env=child_env(bytecode), stdin=subprocess.DEVNULL,
        stdout=subprocess.DEVNULL, stderr=subprocess.PIPE, timeout=300
    )
    return read_result(job, p.returncode, p.stderr.decode('utf-8', 'replace'))


class Report:
    def __init__(self):
        self.lock = threading.Lock()
        self.fails = {}  # (pkg, section) -> list of text
        self.counts = {}  # (pkg, section) -> number of checks
        self.info = {}  # (pkg, section) -> dict

    def ok(self, pkg, section, n=1):
        with self.lock:
            self.counts[(pkg, section)] = self.counts.get(
                (pkg, section), 0
            ) + n

    def fail(self, pkg, section, text):
        with self.lock:
            self.counts[(pkg, section)] = self.counts.get(
                (pkg, section), 0
            ) + 1
            self.fails.setdefault((pkg, section), []).append(text)

    def note(self, pkg, section, key, n=1):
        with self.lock:
            d = self.info.setdefault((pkg, section), {})
            d[key] = d.get(key, 0) + n


REPORT = Report()
ORACLE = {}  # decl -> [behaviour, fingerprint]
ORACLE_LIGHT = {}


def check_ops(pkgname, section, res, where, expect_defs=None):
    ''' every define/reprobe of a finished child equals the oracle '''
    if res.get('rc') != 0 or 'ops' not in res:
        REPORT.fail(
            pkgname, section, '%s: child failed rc=%s %s' %
            (where, res.get('rc'), res.get('stderr', '')[-600:])
        )
        return False
    good = True
    ndefs = 0
    for kind, i, got in res['ops']:
        if kind in ('define', 'reprobe'):
            ndefs += 1
            if got != ORACLE[i]:
                good = False
                REPORT.fail(
                    pkgname, section, '%s: %s d%i got %s expected %s' %
                    (where, kind, i, got, ORACLE[i])
                )
            else:
                REPORT.ok(pkgname, section)
        elif kind == 'sweep-base':
            if got != ORACLE_LIGHT[i]:
                good = False
                REPORT.fail(
                    pkgname, section,
                    '%s: sweep base d%i got %s' % (where, i, got)
                )
        elif kind == 'sweep-bad':
            good = False
            REPORT.fail(pkgname, section, '%s: d%i %s' % (where, i, got))
        elif kind == 'sweep-count':
            REPORT.ok(pkgname, section, got)
        elif kind == 'loop':
            if i:
                good = False
                REPORT.fail(
                    pkgname, section,
                    '%s: %i wrong definitions in loop, e.g. %s' %
                    (where, i, got)
                )
            else:
                REPORT.ok(pkgname, section)
    if expect_defs is not None and ndefs != expect_defs:
        good = False
        REPORT.fail(pkgname, section, '%s: %i results' % (where, ndefs))
    return good


_COOKIE_RE = re.compile(rb"^BISTURI_PACKET_COOKIE = '([0-9a-f]{40})'$", re.M)
_DONE_RE = re.compile(rb"^BISTURI_PACKET_COMPLETE = '([0-9a-f]{40})'\n\Z", re.M)


def hygiene(pkgname, section, workdir, where, temps=True):
    ''' published files complete; no temporary files left '''
    pk = os.path.join(workdir, '__pkts__')
    if not os.path.isdir(pk):
        return
    for name in sorted(os.listdir(pk)):
        path = os.path.join(pk, name)
        if os.path.isdir(path):
            if name == '__pycache__' and temps:
                for sub in os.listdir(path):
                    if not sub.endswith('.pyc'):
                        REPORT.fail(
                            pkgname, section,
                            '%s: temp-leak %s' % (where, sub)
                        )
            continue
        if name.endswith('.py'):
            try:
                with open(path, 'rb') as f:
                    data = f.read()
            except OSError:
                continue
            a = _COOKIE_RE.search(data)
            b = _DONE_RE.search(data)
            if not a or not b or a.group(1) != b.group(1):
                REPORT.fail(
                    pkgname, section, '%s: published-incomplete %s (%i bytes)'
                    % (where, name, len(data))
                )
            else:
                REPORT.ok(pkgname, section)
        elif temps:
            REPORT.fail(pkgname, section, '%s: temp-leak %s' % (where, name))


# --------------------------------------------------------------------------
def section_hist(pkgname, pkg):
    order = list(range(NDECLS))
    for bytecode in (True, False):
        d = fresh_dir('hist')
        tag = 'bytecode=%s' % bytecode
        ops = [['define', i] for i in order] + [['reprobe']]
        for run, o in (
            ('cold', ops), ('warm', ops),
            ('reversed', [['define', i] for i in reversed(order)] +
             [['reprobe']]),
            ('warm2', ops),
            ('twice', [['define', i] for i in order + order] + [['reprobe']]),
        ):
            res = run_child(pkg, d, o, bytecode=bytecode)
            check_ops(pkgname, 'hist', res, '%s %s' % (run, tag))
            hygiene(pkgname, 'hist', d, '%s %s' % (run, tag))
        # generation switched off and on again (d6 in the middle)
        res = run_child(
            pkg, d, [['define', i] for i in (0, 6, 0, 6, 1, 6, 1)] +
            [['reprobe']], bytecode=bytecode
        )
        check_ops(pkgname, 'hist', res, 'off/on %s' % tag)


def state_after(pkg, decl_list, bytecode=True, tag='state'):
    d = fresh_dir(tag)
    res = run_child(pkg, d, [['define', i] for i in decl_list], bytecode)
    return d, res


def pyc_of(pyfile):
    import importlib.util
    return importlib.util.cache_from_source(pyfile)


def forge_pyc(pyc_bytes, source_path):
    ''' a .pyc of something else that importlib takes as the compiled version
        of source_path (validated by mtime and size) '''
    st = os.stat(source_path)
    return pyc_bytes[:4] + struct.pack('<I', 0) + struct.pack(
        '<II', int(st.st_mtime) & 0xFFFFFFFF, st.st_size & 0xFFFFFFFF
    ) + pyc_bytes[16:]


def section_cross(pkgname, pkg, quick):
    # the states: cache (with .pyc) left by a process that defined only X
    states = {}
    for x in SAME_NAMED:
        states[x], res = state_after(pkg, [x], True, 'cx%i' % x)
        check_ops(pkgname, 'cross', res, 'state d%i' % x)
    pairs = [(x, y) for x in SAME_NAMED for y in SAME_NAMED if x != y]
    if quick:
        pairs = [p for p in pairs if p in SAME_LENGTH_PAIRS or (
            p[0] + p[1]) % 4 == 1]

    def one(pair):
        x, y = pair
        # 1. plain history: Y defined where X was
        for bytecode in (True, False):
            d = clone_dir(states[x], 'cr')
            res = run_child(
                pkg, d, [['define', y], ['define', x], ['define', y],
                         ['reprobe']], bytecode
            )
            check_ops(pkgname, 'cross', res, 'd%i after d%i bc=%s' % (
                y, x, bytecode))
            hygiene(pkgname, 'cross', d, 'd%i after d%i' % (y, x))

        # 2. the files of X under the names that Y looks for, with the
        #    times of the files of Y (and the .pyc of X next to them)
        fx = cache_files(states[x], 'P')
        fy = cache_files(states[y], 'P')
        if not fx or not fy:
            return  # d6 writes nothing
        with open(fx[0], 'rb') as f:
            xsrc = f.read()
        xpyc = None
        if os.path.exists(pyc_of(fx[0])):
            with open(pyc_of(fx[0]), 'rb') as f:
                xpyc = f.read()
        for mode in ('xsrc', 'xsrc+xpyc', 'ysrc+forged-xpyc',
                     'ysrc+garbage-pyc', 'ysrc+cut-pyc'):
            if 'pyc' in mode and xpyc is None:
                continue
            d = clone_dir(states[y], 'cf')
            for f in cache_files(d, 'P'):
                st = os.stat(f)
                target_pyc = pyc_of(f)
                os.makedirs(os.path.dirname(target_pyc), exist_ok=True)
                if mode.startswith('xsrc'):
                    with open(f, 'wb') as fh:
                        fh.write(xsrc)
                    os.utime(f, ns=(st.st_atime_ns, st.st_mtime_ns))
                    if os.path.exists(target_pyc):
                        os.remove(target_pyc)
                if mode == 'xsrc+xpyc':
                    with open(target_pyc, 'wb') as fh:
                        fh.write(forge_pyc(xpyc, f))
                elif mode == 'ysrc+forged-xpyc':
                    with open(target_pyc, 'wb') as fh:
                        fh.write(forge_pyc(xpyc, f))
                elif mode == 'ysrc+garbage-pyc':
                    with open(target_pyc, 'wb') as fh:
                        fh.write(forge_pyc(xpyc[:16] + b'\x00garbage' * 9, f))
                elif mode == 'ysrc+cut-pyc':
                    with open(target_pyc, 'wb') as fh:
                        fh.write(forge_pyc(xpyc[:len(xpyc) // 2], f))
            res = run_child(
                pkg, d, [['define', y], ['reprobe']], bytecode=True
            )
            check_ops(pkgname, 'cross', res, 'd%i with %s of d%i' % (
                y, mode, x))
            # and it heals or at least stays right
            res = run_child(
                pkg, d, [['define', y], ['define', x], ['reprobe']],
                bytecode=True
            )
            check_ops(pkgname, 'cross', res, 'd%i with %s of d%i, 2nd' % (
                y, mode, x))

    return [(one, p) for p in pairs]


def section_trunc(pkgname, pkg, quick):
    tasks = []

    def sweep(i, bytecode):
        d = fresh_dir('tr')
        res = run_child(pkg, d, [['sweep', i]], bytecode)
        check_ops(pkgname, 'trunc', res, 'sweep d%i bc=%s' % (i, bytecode))

    decls = [0, 2, 8, 11, 13] if not quick else [2, 8]
    for i in decls:
        for bytecode in (True, False):
            tasks.append((lambda a: sweep(*a), (i, bytecode)))

    def fresh(i):
        # fresh processes, with the .pyc of the complete file around
        base, res = state_after(pkg, [i], True, 'tb')
        check_ops(pkgname, 'trunc', res, 'state d%i' % i)
        files = cache_files(base, CLASS_OF[i])
        for f in files:
            with open(f, 'rb') as fh:
                data = fh.read()
            n = len(data)
            nl = [p + 1 for p in range(n) if data[p:p + 1] == b'\n']
            cuts = sorted(set([0, 1, n // 3, n // 2, n - 47, n - 2, n - 1] +
                              nl[-6:-1] + nl[5:8]))
            for c in cuts:
                if not 0 <= c < n:
                    continue
                d = clone_dir(base, 'tf')
                g = os.path.join(d, '__pkts__', os.path.basename(f))
                st = os.stat(g)
                with open(g, 'wb') as fh:
                    fh.write(data[:c])
                os.utime(g, ns=(st.st_atime_ns, st.st_mtime_ns))
                res = run_child(pkg, d, [['define', i], ['reprobe']], True)
                check_ops(pkgname, 'trunc', res, 'fresh d%i cut %i' % (i, c))
            # things that are not even files
            for what in ('dir', 'dangling', 'pkts-is-file', 'pycache-is-file',
                         'emptydir'):
                d = clone_dir(base, 'tg')
                g = os.path.join(d, '__pkts__', os.path.basename(f))
                if what == 'dir':
                    os.remove(g)
                    os.mkdir(g)
                elif what == 'dangling':
                    os.remove(g)
                    os.symlink(os.path.join(d, 'nowhere'), g)
                elif what == 'pkts-is-file':
                    shutil.rmtree(os.path.join(d, '__pkts__'))
                    with open(os.path.join(d, '__pkts__'), 'w') as fh:
                        fh.write('not a directory')
                elif what == 'pycache-is-file':
                    pc = os.path.join(d, '__pkts__', '__pycache__')
                    shutil.rmtree(pc, ignore_errors=True)
                    with open(pc, 'w') as fh:
                        fh.write('not a directory')
                    os.remove(g)
                elif what == 'emptydir':
                    shutil.rmtree(os.path.join(d, '__pkts__'))
                    os.mkdir(os.path.join(d, '__pkts__'))
                for run in (1, 2):
                    res = run_child(
                        pkg, d, [['define', i], ['reprobe']], True
                    )
                    check_ops(
                        pkgname, 'trunc', res, 'fresh d%i %s run %i' %
                        (i, what, run)
                    )

    for i in ([2, 8] if not quick else [8]):
        tasks.append((fresh, i))
    return tasks


# --------------------------------------------------------------------------
def initial_states(pkg, y, x):
    ''' directories from which the sweeps start '''
    out = {}
    out['empty'] = fresh_dir('i0')
    out['other'], _ = state_after(pkg, [x], True, 'i1')
    # the right source with the .pyc of the other declaration: whoever
    # trusts the .pyc sees a foreign module and has to write again
    d, _ = state_after(pkg, [y], True, 'i2')
    fx = cache_files(out['other'], 'P')
    if fx and os.path.exists(pyc_of(fx[0])):
        with open(pyc_of(fx[0]), 'rb') as f:
            xpyc = f.read()
        for f in cache_files(d, 'P'):
            os.makedirs(os.path.dirname(pyc_of(f)), exist_ok=True)
            with open(pyc_of(f), 'wb') as fh:
                fh.write(forge_pyc(xpyc, f))
        out['stalepyc'] = d
    # the cache of the other declaration, written long ago (whoever cleans
    # old files has something to clean; the .pyc files do not match either)
    d = clone_dir(out['other'], 'i3')
    long_ago = time.time() - 40 * 24 * 3600
    for f in cache_files(d):
        os.utime(f, (long_ago, long_ago))
    out['aged'] = d
    return out


def own_temps(workdir):
    pk = os.path.join(workdir, '__pkts__')
    if not os.path.isdir(pk):
        return []
    return [
        n for n in os.listdir(pk)
        if not n.endswith('.py') and n != '__pycache__'
    ]


def verify_after(pkgname, section, pkg, d, y, x, where):
    ''' fresh processes after whatever happened in d '''
    d1 = clone_dir(d, 'va')
    res = run_child(
        pkg, d1, [['define', y], ['define', x], ['define', y], ['reprobe']],
        True
    )
    check_ops(pkgname, section, res, where + ' then fresh d%i' % y, 6)
    d2 = clone_dir(d, 'vb')
    res = run_child(pkg, d2, [['define', x], ['define', y], ['reprobe']], True)
    check_ops(pkgname, section, res, where + ' then fresh d%i' % x, 4)
    res = run_child(pkg, d2, [['define', y], ['reprobe']], False)
    check_ops(pkgname, section, res, where + ' then fresh again', 2)
    for dd in (d1, d2):
        shutil.rmtree(dd, ignore_errors=True)


def section_kill(pkgname, pkg, quick):
    tasks = []
    pairs = [(0, 2), (8, 7)] if not quick else [(8, 7)]

    def sweep(arg):
        y, x, sname, sdir, bytecode = arg
        where0 = 'kill d%i from %s(d%i) bc=%s' % (y, sname, x, bytecode)
        # learn the steps
        d = clone_dir(sdir, 'k0')
        res = run_child(pkg, d, [['define', y]], bytecode, seam={})
        if not check_ops(pkgname, 'kill', res, where0 + ' dry run'):
            return
        steps = res['steplog']
        REPORT.note(pkgname, 'kill', 'steps ' + where0, len(steps))
        points = []
        for s in steps:
            points.append((s['n'], None))
            if 'size' in s and s['size']:
                n = s['size']
                cuts = {1, n // 4, n // 2, 3 * n // 4, n - 40, n - 1}
                cuts |= set(s.get('newlines') or [])
                for c in sorted(c for c in cuts if 0 < c < n):
                    points.append((s['n'], c))
        return [
            (point, (y, x, sdir, bytecode, where0, k, cut))
            for k, cut in points
        ]

    def point(arg):
        y, x, sdir, bytecode, where0, k, cut = arg
        d = clone_dir(sdir, 'kk')
        seam = {'kill': k}
        if cut is not None:
            seam['cut'] = cut
        res = run_child(pkg, d, [['define', y]], bytecode, seam=seam)
        where = where0 + ' k=%i cut=%s' % (k, cut)
        if res['rc'] != 77:
            REPORT.fail(
                pkgname, 'kill', where + ': not killed rc=%s %s' %
                (res['rc'], res['stderr'][-300:])
            )
            return
        REPORT.ok(pkgname, 'kill')
        hygiene(pkgname, 'kill', d, where, temps=False)
        verify_after(pkgname, 'kill', pkg, d, y, x, where)
        shutil.rmtree(d, ignore_errors=True)

    def prepare(pair):
        y, x = pair
        sub = []
        for sname, sdir in initial_states(pkg, y, x).items():
            if quick and sname == 'aged':
                continue
            for bytecode in ((True, False) if sname == 'other' else (True,)):
                sub.append((sweep, (y, x, sname, sdir, bytecode)))
        return sub

    for pair in pairs:
        tasks.append((prepare, pair))
    return tasks


def section_errs(pkgname, pkg, quick):
    tasks = []
    codes = ['EACCES', 'EROFS', 'ENOSPC', 'EIO', 'EDQUOT', 'ENOENT', 'EEXIST',
             'EPERM', 'EMFILE']
    if quick:
        codes = ['EACCES', 'ENOSPC', 'EIO']
    y, x = 8, 7

    def sweep(arg):
        sname, sdir, code = arg
        num = getattr(errno, code)
        where0 = 'errs d%i from %s %s' % (y, sname, code)
        d = clone_dir(sdir, 'e0')
        res = run_child(pkg, d, [['define', y]], True, seam={})
        if not check_ops(pkgname, 'errs', res, where0 + ' dry run'):
            return
        return [
            (point, (sname, sdir, code, num, where0, s))
            for s in res['steplog']
        ]

    def point(arg):
        sname, sdir, code, num, where0, s = arg
        k = s['n']
        d = clone_dir(sdir, 'ee')
        before = set(own_temps(d))
        res = run_child(
            pkg, d, [['define', y], ['define', y], ['define', x]], True,
            seam={'inject': [k, num]}
        )
        where = where0 + ' at k=%i (%s %s)' % (k, s['kind'], s['path'])
        if res.get('rc') != 0 or 'ops' not in res:
            REPORT.fail(pkgname, 'errs', where + ': child failed %s' %
                        res.get('stderr', '')[-300:])
            return
        first = res['ops'][0][2]
        must_raise = (
            pkgname in EXPECT_LOUD and code in BROKEN_DISK and
            s['kind'] in ('os.write', 'os.fsync', 'replace')
        )
        if must_raise and first[0] != 'EXC':
            REPORT.fail(pkgname, 'errs', where + ': %s not reported' % code)
        if first[0] == 'EXC':
            loud_ok = (
                pkgname in EXPECT_LOUD and code in BROKEN_DISK and
                first[1].startswith('OSError') and
                ('errno=%i' % num) in first[1] and
                not s['kind'].startswith('imp.') and
                not s['kind'].startswith('read')
            )
            if loud_ok:
                REPORT.note(pkgname, 'errs', 'raised ' + code)
                REPORT.ok(pkgname, 'errs')
            else:
                REPORT.fail(pkgname, 'errs', where + ': ' + first[1])
        elif first != ORACLE[y]:
            REPORT.fail(pkgname, 'errs', where + ': wrong %s' % first)
        else:
            REPORT.ok(pkgname, 'errs')
        # the same process goes on defining classes
        for kind, i, got in res['ops'][1:]:
            if got != ORACLE[i]:
                REPORT.fail(
                    pkgname, 'errs', where + ': later d%i %s' % (i, got)
                )
        for w in res.get('warnings', []):
            REPORT.note(pkgname, 'errs', 'warning ' + w[0])
        left = set(own_temps(d)) - before
        if s['kind'] in ('remove', 'unlink') and not s['path'].endswith(
            ('.py', '.pyc')
        ):
            # the call that failed is the removal of the temporary file
            left = set()
        if left:
            REPORT.fail(
                pkgname, 'errs', where + ': left behind %s' % sorted(left)
            )
        hygiene(pkgname, 'errs', d, where, temps=False)
        verify_after(pkgname, 'errs', pkg, d, y, x, where)
        shutil.rmtree(d, ignore_errors=True)

    def prepare(_):
        sub = []
        for sname, sdir in initial_states(pkg, y, x).items():
            if sname in ('stalepyc', 'aged') and quick:
                continue
            for code in codes:
                sub.append((sweep, (sname, sdir, code)))
        return sub

    tasks.append((prepare, None))

    def warn_once(_):
        # a cache directory that cannot be created: two classes, one folder
        d = fresh_dir('ew')
        with open(os.path.join(d, '__pkts__'), 'w') as f:
            f.write('in the way')
        res = run_child(
            pkg, d, [['define', 0], ['define', 11], ['define', 12],
                     ['reprobe']], True
        )
        check_ops(pkgname, 'errs', res, 'unusable folder')
        mine = [w for w in res.get('warnings', [])]
        if pkgname in EXPECT_WARN:
            if len(mine) != 1:
                REPORT.fail(
                    pkgname, 'errs',
                    'expected exactly one warning for the folder: %s' % mine
                )
            else:
                REPORT.note(pkgname, 'errs', 'one warning per folder')
        elif mine:
            REPORT.fail(pkgname, 'errs', 'unexpected warnings %s' % mine)

    tasks.append((warn_once, None))
    return tasks


# --------------------------------------------------------------------------
class Gated:
    ''' a child that stops before each file-system call on the cache '''

    def __init__(self, pkg, workdir, ops, bytecode, force_tmp):
        self.job, jobpath = make_job(
            pkg, workdir, ops, {'gate': True}, force_tmp
        )
        self.p = subprocess.Popen(
            [PY, os.path.abspath(__file__), '--child', jobpath],
            env=child_env(bytecode), stdin=subprocess.PIPE,
            stdout=subprocess.PIPE, stderr=subprocess.PIPE, bufsize=0
        )
        self.done = False
        self.taken = 0
        self.wait_gate()

    def wait_gate(self):
        line = self.p.stdout.readline()
        if line != b'S\n':
            self.done = True

    def step(self):
        if self.done:
            return False
        try:
            self.p.stdin.write(b'g')
            self.p.stdin.flush()
        except OSError:
            self.done = True
            return False
        self.taken += 1
        self.wait_gate()
        return True

    def finish(self):
        while not self.done:
            self.step()
        try:
            self.p.stdin.close()
        except OSError:
            pass
        err = self.p.stderr.read().decode('utf-8', 'replace')
        self.p.stdout.close()
        self.p.stderr.close()
        rc = self.p.wait(timeout=60)
        return read_result(self.job, rc, err)


def run_schedule(pkgname, pkg, sdir, decls, schedule, force_tmp, where,
                 bytecode=True):
    ''' schedule: list of (process index, number of steps) then everybody
        runs to the end in order '''
    d = clone_dir(sdir, 'in')
    procs = [
        Gated(pkg, d, [['define', y], ['reprobe']], bytecode, force_tmp)
        for y in decls
    ]
    try:
        for idx, count in schedule:
            for _ in range(count):
                if not procs[idx].step():
                    break
                hygiene(pkgname, 'inter', d, where + ' (midway)', temps=False)
        results = []
        for p in procs:
            results.append(p.finish())
            hygiene(pkgname, 'inter', d, where + ' (midway)', temps=False)
    finally:
        for p in procs:
            if p.p.poll() is None:
                p.p.kill()
    for y, res in zip(decls, results):
        check_ops(pkgname, 'inter', res, where + ' proc d%i' % y, 2)
    hygiene(pkgname, 'inter', d, where + ' (end)', temps=True)
    verify_after(pkgname, 'inter', pkg, d, decls[0], decls[-1], where)
    steps = [len(r.get('steplog', [])) for r in results]
    shutil.rmtree(d, ignore_errors=True)
    return steps


def section_inter(pkgname, pkg, quick):
    tasks = []
    combos = [
        # (declarations of the processes, initial state, bytecode)
        ((8, 7), 'other', True),
        ((8, 8), 'other', True),
        ((8, 7), 'empty', True),
        ((8, 8), 'empty', False),
        ((8, 7), 'stalepyc', True),
        ((8, 7), 'aged', True),
    ]
    if quick:
        combos = combos[:2]

    def one(arg):
        decls, sdir, sched, force_tmp, where, bytecode = arg
        run_schedule(
            pkgname, pkg, sdir, decls, sched, force_tmp, where, bytecode
        )

    def prepare(combo):
        decls, sname, bytecode = combo
        states = initial_states(pkg, 8, 9)  # the cache holds a third one
        if sname not in states:
            return []  # no .pyc in this implementation: nothing to forge
        sdir = states[sname]
        where0 = 'inter %s from %s bc=%s' % (decls, sname, bytecode)
        # how many steps each one takes alone
        n = run_schedule(
            pkgname, pkg, sdir, decls, [(0, 10 ** 6)], True,
            where0 + ' serial', bytecode
        )
        REPORT.note(pkgname, 'inter', 'steps %s' % where0, sum(n))
        na, nb = n[0] + 1, n[1] + 1
        sub = []
        stride = 3 if quick else (1 if combo in combos[:2] else 2)
        for i in range(0, na, stride):
            for j in range(1, nb, stride):
                # A i steps, B j steps, A to the end, B to the end
                sub.append((one, (
                    decls, sdir, [(0, i), (1, j), (0, 10 ** 6)], True,
                    where0 + ' A%i B%i A* B*' % (i, j), bytecode
                )))
        rng = random.Random(7)
        for r in range(20 if quick else 80):
            # random walks, three processes
            three = list(decls) + [rng.choice([7, 8])]
            sched = [(rng.randrange(3), rng.randrange(1, 4))
                     for _ in range(60)]
            sub.append((one, (
                three, sdir, sched, rng.random() < 0.8,
                where0 + ' random#%i' % r, bytecode
            )))
        return sub

    for combo in combos:
        tasks.append((prepare, combo))
    return tasks


def section_stress(pkgname, pkg, quick):
    def one(force_tmp):
        d, _ = state_after(pkg, [9], True, 'st')
        iters = 60 if quick else 250
        oracle = {str(i): ORACLE_LIGHT[i] for i in range(NDECLS)}
        jobs = []
        for w in range(4):
            decls = [[7, 8], [7, 8, 9, 10], [8], [0, 1, 2, 3, 4, 5, 7, 8]][w]
            job, jobpath = make_job(
                pkg, d, [['loop', decls, iters, 1000 + w, oracle]], None,
                force_tmp
            )
            p = subprocess.Popen(
                [PY, os.path.abspath(__file__), '--child', jobpath],
                env=child_env(w % 2 == 0), stdin=subprocess.DEVNULL,
                stdout=subprocess.DEVNULL, stderr=subprocess.PIPE
            )
            jobs.append((job, p))
        for job, p in jobs:
            err = p.stderr.read().decode('utf-8', 'replace')
            rc = p.wait()
            res = read_result(job, rc, err)
            check_ops(pkgname, 'stress', res, 'stress force_tmp=%s' % force_tmp)
        hygiene(pkgname, 'stress', d, 'stress force_tmp=%s' % force_tmp)
        verify_after(pkgname, 'stress', pkg, d, 8, 7, 'stress')

    return [(one, True), (one, False)]


# --------------------------------------------------------------------------
def build_packages(diffs, selfcheck):
    orig = os.path.join(HERE, 'orig_pkg')
    if not os.path.isdir(os.path.join(orig, 'bisturi')):
        os.makedirs(orig, exist_ok=True)
        tar = subprocess.run(
            ['git', 'archive', 'HEAD', 'bisturi'], cwd=HERE,
            stdout=subprocess.PIPE, check=True
        )
        subprocess.run(['tar', '-x', '-C', orig], input=tar.stdout, check=True)
    pkgs = {}

    def copy(name):
        dst = os.path.join(WORK, 'pkgs', name)
        shutil.copytree(
            os.path.join(orig, 'bisturi'), os.path.join(dst, 'bisturi')
        )
        return dst

    pkgs['orig'] = copy('orig')
    for diff in diffs:
        name = os.path.splitext(os.path.basename(diff))[0]
        dst = copy(name)
        subprocess.run(
            ['patch', '-s', '-p1', '-d', dst, '-i', os.path.abspath(diff)],
            check=True
        )
        pkgs[name] = dst
    if selfcheck:
        def mutate(name, edits):
            dst = copy(name)
            path = os.path.join(dst, 'bisturi', 'codegen.py')
            with open(path) as f:
                s = f.read()
            for old, new in edits:
                assert old in s, (name, old)
                s = s.replace(old, new)
            with open(path, 'w') as f:
                f.write(s)
            pkgs[name] = dst

        mutate('mutant-nocookie', [(
            "        if getattr(module, 'BISTURI_PACKET_COOKIE', None) != cookie or \\\n"
            "                getattr(module, 'BISTURI_PACKET_COMPLETE', None) != cookie:\n"
            "            return None\n",
            "        if not hasattr(module, 'BISTURI_PACKET_COOKIE'):\n"
            "            return None\n"
        )])
        mutate('mutant-inplace', [
            ("            with open(tmp_pathname, 'x') as module_file:",
             "            tmp_pathname = module_pathname\n"
             "            with open(tmp_pathname, 'w') as module_file:"),
            ("            os.replace(tmp_pathname, module_pathname)\n", ""),
            ("                tmp_is_ours = True\n", ""),
            ("                getattr(module, 'BISTURI_PACKET_COMPLETE', None) != cookie:",
             "                False:"),
        ])
        mutate('mutant-sharedtmp', [
            ("            with open(tmp_pathname, 'x') as module_file:",
             "            with open(tmp_pathname, 'w') as module_file:"),
        ])
    return pkgs


def compute_oracle(pkg):
    def one(i):
        d = fresh_dir('oracle')
        res = run_child(pkg, d, [['define', i]], bytecode=False)
        assert res['rc'] == 0 and res['ops'][0][2][0] != 'EXC', res
        full = res['ops'][0][2]
        res = run_child(
            pkg, d, [['loop', [i], 1, 0, {str(i): None}]], bytecode=False
        )
        light = res['ops'][0][2][0][2]
        return i, full, light

    with concurrent.futures.ThreadPoolExecutor(8) as ex:
        for i, full, light in ex.map(one, range(NDECLS)):
            ORACLE[i] = full
            ORACLE_LIGHT[i] = light
    # the oracle must tell the declarations apart
    groups = {}
    for i in range(NDECLS):
        groups.setdefault(tuple(ORACLE[i]), []).append(i)
    return groups


def run_tasks(tasks, jobs):
    ''' tasks: list of (function, arg); a function may return more tasks '''
    errors = []
    with concurrent.futures.ThreadPoolExecutor(jobs) as ex:
        pending = {ex.submit(fn, arg) for fn, arg in tasks}
        while pending:
            done, pending = concurrent.futures.wait(
                pending, return_when=concurrent.futures.FIRST_COMPLETED
            )
            for fut in done:
                try:
                    more = fut.result()
                except Exception:
                    errors.append(traceback.format_exc())
                    continue
                if more:
                    for fn, arg in more:
                        pending.add(ex.submit(fn, arg))
    return errors


def show_steps(name, pkg):
    ''' the file-system calls of one definition, from three states '''
    for sname, sdir in initial_states(pkg, 8, 7).items():
        d = clone_dir(sdir, 'ss')
        res = run_child(pkg, d, [['define', 8]], True, seam={})
        print('%s: d8 from %s: %i calls' % (
            name, sname, len(res['steplog'])))
        for s in res['steplog']:
            print('    %2i %-14s %s%s' % (
                s['n'], s['kind'], s['path'],
                ' (%i)' % s['size'] if 'size' in s else ''))


ALL_SECTIONS = ['hist', 'cross', 'trunc', 'kill', 'errs', 'inter', 'stress']


def main():
    ap = argparse.ArgumentParser()
    ap.add_argument('diffs', nargs='*')
    ap.add_argument('--sections', default=','.join(ALL_SECTIONS))
    ap.add_argument('--only', default='', help='e.g. orig,variant3')
    ap.add_argument('--jobs', type=int, default=max(2, (os.cpu_count() or 4)))
    ap.add_argument('--quick', action='store_true')
    ap.add_argument('--selfcheck', action='store_true')
    ap.add_argument('--keep', action='store_true')
    ap.add_argument('--show-steps', action='store_true')
    args = ap.parse_args()

    diffs = args.diffs or sorted(glob.glob(os.path.join(HERE, 'variant*.diff')))
    shutil.rmtree(WORK, ignore_errors=True)
    os.makedirs(os.path.join(WORK, 'w'))
    t0 = time.time()
    pkgs = build_packages(diffs, args.selfcheck)
    if args.only:
        pkgs = {k: v for k, v in pkgs.items() if k in args.only.split(',')
                or k == 'orig'}
    groups = compute_oracle(pkgs['orig'])
    print('oracle: %i declarations, %i distinct (behaviour, bytecode)' % (
        NDECLS, len(groups)))
    for key, members in groups.items():
        if len(members) > 1:
            print('  same behaviour and bytecode (expected for annotate '
                  'on/off): %s' % ['d%i' % m for m in members])
    sections = args.sections.split(',')
    if args.show_steps:
        for name, pkg in pkgs.items():
            show_steps(name, pkg)
        if not args.keep:
            shutil.rmtree(WORK, ignore_errors=True)
        return 0

    builders = {
        'hist': lambda n, p: [(lambda a: section_hist(*a), (n, p))],
        'cross': lambda n, p: section_cross(n, p, args.quick),
        'trunc': lambda n, p: section_trunc(n, p, args.quick),
        'kill': lambda n, p: section_kill(n, p, args.quick),
        'errs': lambda n, p: section_errs(n, p, args.quick),
        'inter': lambda n, p: section_inter(n, p, args.quick),
        'stress': lambda n, p: section_stress(n, p, args.quick),
    }
    failed_pkgs = set()
    for name, pkg in pkgs.items():
        t1 = time.time()
        tasks = []
        for s in sections:
            tasks.extend(builders[s](name, pkg))
        errors = run_tasks(tasks, args.jobs)
        for e in errors:
            REPORT.fail(name, 'internal', e)
        line = []
        for s in sections + ['internal']:
            n = REPORT.counts.get((name, s), 0)
            f = len(REPORT.fails.get((name, s), []))
            if s == 'internal' and not f:
                continue
            line.append('%s %s/%i' % (s, 'ok' if not f else 'FAIL %i' % f, n))
            if f:
                failed_pkgs.add(name)
        print('%-18s %s   [%.0fs]' % (name, '  '.join(line), time.time() - t1))
        for s in sections + ['internal']:
            for text in REPORT.fails.get((name, s), [])[:6]:
                if s == 'internal':
                    text = text[-1500:]
                print('      ! [%s] %s' % (s, text[:1500 if s == 'internal'
                                                     else 400]))
            extra = len(REPORT.fails.get((name, s), [])) - 6
            if extra > 0:
                print('      ! [%s] ... and %i more' % (s, extra))
            info = REPORT.info.get((name, s))
            if info:
                keys = sorted(info)
                shown = [k for k in keys if not k.startswith('steps ')]
                nsteps = [info[k] for k in keys if k.startswith('steps ')]
                if nsteps:
                    print('      . [%s] file-system steps per run: %s' % (
                        s, sorted(nsteps)))
                for k in shown:
                    print('      . [%s] %s: %i' % (s, k, info[k]))
        sys.stdout.flush()
        if not args.keep:
            shutil.rmtree(os.path.join(WORK, 'w'), ignore_errors=True)
            os.makedirs(os.path.join(WORK, 'w'))

    status = 0
    mutants = [n for n in pkgs if n.startswith('mutant-')]
    for n in pkgs:
        if n.startswith('mutant-'):
            if n not in failed_pkgs:
                print('SELFCHECK FAILED: %s was not flagged' % n)
                status = 2
        elif n in failed_pkgs:
            status = 1
    if mutants and status != 2:
        print('selfcheck: all the broken libraries were flagged: %s' %
              ', '.join(mutants))
    print('%s   [%.0fs]' % (
        'ALL GOOD' if status == 0 else 'FAILURES', time.time() - t0))
    if not args.keep:
        shutil.rmtree(WORK, ignore_errors=True)
    return status


if __name__ == '__main__':
    if len(sys.argv) == 3 and sys.argv[1] == '--child':
        child_main(sys.argv[2])
    else:
        sys.exit(main())
